"""C05 demo: callback contexts nest like a stack.

Context managers that are built first and entered later (stored on an object,
handed to contextlib.ExitStack, ...) must behave like the ones built in the
``with`` statement itself: leaving the inner context must not deactivate a
callback that the enclosing, still open context activated.
"""
import os
import sys
from contextlib import ExitStack

# run as ``cd <worktree> && python /path/to/demo.py``: import dask from the cwd
sys.path.insert(0, os.getcwd())

import dask  # noqa: E402
from dask.callbacks import Callback, add_callbacks  # noqa: E402
from dask.local import get_sync  # noqa: E402

problems = []


def check(cond, msg):
    if not cond:
        problems.append(msg)


class Rec(Callback):
    def __init__(self, name, log):
        self.name, self.log = name, log

    def _start(self, dsk):
        self.log.append((self.name, "start"))

    def _pretask(self, key, dsk, state):
        self.log.append((self.name, "pre", key))

    def _posttask(self, key, result, dsk, state, worker_id):
        self.log.append((self.name, "post", key))

    def _finish(self, dsk, state, failed):
        self.log.append((self.name, "finish", failed))


DSK = {"x": (lambda: 1,), "y": (lambda v: v + 1, "x")}


def run(log):
    """One scheduler call; returns the per-callback event lists."""
    del log[:]
    assert get_sync(DSK, "y") == 2
    per = {}
    for ev in log:
        per.setdefault(ev[0], []).append(ev[1:])
    return per


EXPECTED = [("start",), ("pre", "x"), ("post", "x"), ("pre", "y"), ("post", "y"),
            ("finish", False)]


def expect(per, names, where):
    check(set(per) == set(names),
          f"{where}: callbacks that fired = {sorted(per)}, expected {sorted(names)}")
    for n in names:
        if n in per:
            check(per[n] == EXPECTED, f"{where}: protocol of {n} = {per[n]}")


def scenario_inline():
    # ordinary use: managers built in the with statement
    log = []
    a, b = Rec("a", log), Rec("b", log)
    with add_callbacks(a):
        expect(run(log), ["a"], "inline/outer")
        with add_callbacks(a, b):
            expect(run(log), ["a", "b"], "inline/inner")
        expect(run(log), ["a"], "inline/after inner")
        check(a._callback in Callback.active, "inline: a inactive inside outer context")
    expect(run(log), [], "inline/after all")
    check(not Callback.active, "inline: active not empty at the end")


def scenario_prebuilt():
    # managers built up front, entered later through an ExitStack
    log = []
    a = Rec("a", log)
    outer, inner = add_callbacks(a), add_callbacks(a)
    with ExitStack() as st_outer:
        st_outer.enter_context(outer)
        expect(run(log), ["a"], "prebuilt/outer")
        with ExitStack() as st_inner:
            st_inner.enter_context(inner)
            expect(run(log), ["a"], "prebuilt/inner")
        # still inside ``outer``: a must still be active and must still fire
        check(a._callback in Callback.active,
              "prebuilt: leaving the inner context deactivated a callback of the enclosing context")
        expect(run(log), ["a"], "prebuilt/after inner")
    expect(run(log), [], "prebuilt/after all")
    check(not Callback.active, "prebuilt: active not empty at the end")


def scenario_prebuilt_three_levels():
    # a pipeline object that prepares its three context managers in advance
    log = []
    a, b = Rec("a", log), Rec("b", log)
    cms = [add_callbacks(a), add_callbacks(b), add_callbacks(a, b)]
    with cms[0]:
        with cms[1]:
            with cms[2]:
                expect(run(log), ["a", "b"], "three/innermost")
            check(a._callback in Callback.active and b._callback in Callback.active,
                  "three: leaving the innermost context deactivated callbacks of enclosing contexts")
            expect(run(log), ["a", "b"], "three/after innermost")
        expect(run(log), ["a"], "three/after middle")
    expect(run(log), [], "three/after all")
    check(not Callback.active, "three: active not empty at the end")


def main():
    print("dask from", dask.__file__)
    for sc in (scenario_inline, scenario_prebuilt, scenario_prebuilt_three_levels):
        Callback.active.clear()
        sc()
    Callback.active.clear()
    if problems:
        for p in problems:
            print("  violation:", p)
        print("FAIL")
        return 1
    print("PASS")
    return 0


if __name__ == "__main__":
    sys.exit(main())
