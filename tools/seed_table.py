"""Prints the markdown table of seeded changes and which checks catch them (from seeded/*/meta.json)."""
import glob, json, os
rows = []
for mp in sorted(glob.glob(os.path.join(os.path.dirname(os.path.dirname(os.path.abspath(__file__))), "seeded", "*", "meta.json"))):
    m = json.load(open(mp))
    runs = m.get("checks_run", [])
    res = " → ".join(f"{'caught' if c['caught'] else 'MISSED'} ({c['tier']}, verif {c.get('verif_head','?')})" for c in runs) or m.get("status") or "not yet run"
    rows.append(f"| {m['id']} | {m['property']} | {(m.get('summary') or '').strip()[:160]} | {(m.get('needs') or '').strip()[:160]} | {res} |")
TABLE = "| seed | property | change | needs | result |\n|---|---|---|---|---|\n" + "\n".join(rows)
if __name__ == "__main__":
    print(TABLE)
