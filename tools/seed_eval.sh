#!/bin/bash
# tools/seed_eval.sh <seed id> [tier] — run the property's check against a scratch worktree of /repo's HEAD with the
# seeded patch applied (DASK_REPO), record the outcome in seeded/<id>/meta.json, remove the worktree.
ID=$1; TIER=${2:-quick}; D=/verif/seeded/$ID; WT=/tmp/se_$ID
P=$(/venv/bin/python -c "import json;print(json.load(open('$D/meta.json'))['property'])")
git -C /repo worktree remove --force $WT 2>/dev/null
git -C /repo worktree add -q $WT HEAD || exit 2
git -C $WT apply $D/patch.diff 2>/dev/null || (cd $WT && patch -p1 --fuzz=3 < $D/patch.diff > /dev/null 2>&1) || { echo "patch does not apply to the current HEAD (lines rewritten by a later fix)"; git -C /repo worktree remove --force $WT; exit 3; }
cd /verif
cp evidence/$P.json /tmp/se_$ID.evidence.bak 2>/dev/null
DASK_REPO=$WT timeout 1500 ./check $P --tier $TIER > /tmp/se_$ID.log 2>&1; RC=$?
# the run against the mutated tree must not leave its evidence behind
[ -f /tmp/se_$ID.evidence.bak ] && mv /tmp/se_$ID.evidence.bak evidence/$P.json
grep -a "VIOLATION\|^\[$P\]\|KNOWN-FINDING" /tmp/se_$ID.log | head -5
/venv/bin/python harness/extract.py /repo > /dev/null 2>&1
/venv/bin/python - "$D/meta.json" "$P" "$TIER" "$RC" /tmp/se_$ID.log <<'PY'
import json, sys, subprocess
mp, p, tier, rc, log = sys.argv[1:6]
m = json.load(open(mp))
lines = [l.strip() for l in open(log, errors='replace') if 'VIOLATION' in l or l.startswith('[' + p + ']')]
head = subprocess.check_output(["git", "-C", "/repo", "rev-parse", "--short", "HEAD"], text=True).strip()
vhead = subprocess.check_output(["git", "-C", "/verif", "rev-parse", "--short", "HEAD"], text=True).strip()
m.setdefault("checks_run", [])
# keep the history: an earlier MISSED followed by a later caught documents a strengthened check
m["checks_run"].append({"check": p, "tier": tier, "exit": int(rc), "caught": int(rc) == 1 and any('VIOLATION' in l for l in lines),
                        "output": lines[-2:], "repo_head": head, "verif_head": vhead})
json.dump(m, open(mp, 'w'), indent=1)
print("caught" if m["checks_run"][-1]["caught"] else "MISSED", p, mp)
PY
git -C /repo worktree remove --force $WT
