#!/bin/bash
# Runs dask's pinned suite (BASELINE.json) on a tree (default /repo) with the hook guard OFF and
# reports every stable-pass test that did not pass.  usage: tools/run_suite.sh [tree] [-n workers] [pytest paths...]
TREE=${1:-/repo}; shift
OUT=$(mktemp -d /tmp/suite.XXXXXX)
cd "$TREE" && env -u DASK_VERIF /venv/bin/python -m pytest -q -p no:cacheprovider --timeout=900 --continue-on-collection-errors -n ${SUITE_N:-6} --junitxml=$OUT/j.xml "$@" > $OUT/log.txt 2>&1
SUITE_TREE="$TREE" /venv/bin/python - "$OUT/j.xml" "$@" <<'PY'
import sys, json, xml.etree.ElementTree as ET
base = set(json.load(open('/root/.vp/BASELINE.json'))['stable_pass'])
root = ET.parse(sys.argv[1]).getroot()
passed, bad = set(), {}
for tc in root.iter('testcase'):
    tid = f"{tc.get('classname')}::{tc.get('name')}"
    kids = [c.tag for c in tc if c.tag in ('failure', 'error', 'skipped')]
    if not kids: passed.add(tid)
    else: bad[tid] = kids[0]
seen = passed | set(bad)
restrict = len(sys.argv) > 2
missing = sorted(t for t in base if t not in passed and (not restrict or t in seen))
if 0 < len(missing) <= 25:
    # flaky under load? re-run just those tests once, serially
    import subprocess, os
    ids = [t.split("::")[0].replace(".", "/") + ".py::" + t.split("::", 1)[1] for t in missing]
    out2 = sys.argv[1] + ".retry.xml"
    env = {k: v for k, v in os.environ.items() if k != "DASK_VERIF"}
    subprocess.run(["/venv/bin/python", "-m", "pytest", "-q", "-p", "no:cacheprovider", "--timeout=900", "--junitxml=" + out2] + ids,
                   cwd=os.environ.get("SUITE_TREE", "."), env=env, stdout=subprocess.DEVNULL, stderr=subprocess.DEVNULL)
    try:
        for tc in ET.parse(out2).getroot().iter('testcase'):
            tid = f"{tc.get('classname')}::{tc.get('name')}"
            if not [c for c in tc if c.tag in ('failure', 'error', 'skipped')]:
                passed.add(tid)
        retried = len(missing)
        missing = sorted(t for t in missing if t not in passed)
        print(f"retried {retried} not-passed tests serially: {retried - len(missing)} passed on retry")
    except Exception as e:
        print("retry failed:", e)
print(f"ran={len(seen)} passed={len(passed)} baseline={len(base)} baseline_not_passed={len(missing)}")
for t in missing[:40]: print("  NOT PASSED:", t, bad.get(t, 'not run'))
sys.exit(1 if missing else 0)
PY
rc=$?; tail -3 $OUT/log.txt; rm -rf $OUT; exit $rc
