#!/bin/bash
# Polls /tmp/seedout_Cnn deliveries from seeder sub-agents; verifies each (tools/seed_verify.sh), evaluates it when the
# property's check is READY (tools/seed_eval.sh), logs to /tmp/seed_pipeline.log. Development helper, not a registered check.
cd /verif
while true; do
  for d in /tmp/seedout_C* /tmp/seedout2_C*; do
    [ -f $d/meta.json ] && [ -f $d/patch.diff ] && [ -f $d/demo.py ] || continue
    P=${d##*_}; R=1; case $d in /tmp/seedout2_*) R=2;; esac
    [ -e $d/.tried ] && continue
    [ -d /verif/seeded/$P-$R ] && { mkdir $d/.tried 2>/dev/null; continue; }
    mkdir $d/.tried 2>/dev/null || continue   # atomic claim (several pipeline workers may run)
    sleep 20   # let the seeder finish writing
    echo "=== $(date +%H:%M) verify $P" >> /tmp/seed_pipeline.log
    # rebase the patch onto the current HEAD with fuzz if it does not apply cleanly
    if ! git -C /repo apply --check $d/patch.diff 2>/dev/null; then
      git -C /repo worktree remove --force /tmp/rb_$P 2>/dev/null
      git -C /repo worktree add -q /tmp/rb_$P HEAD && (cd /tmp/rb_$P && patch -p1 --fuzz=3 < $d/patch.diff >> /tmp/seed_pipeline.log 2>&1 && git diff > $d/patch.rebased && cp $d/patch.rebased $d/patch.diff)
      git -C /repo worktree remove --force /tmp/rb_$P 2>/dev/null
    fi
    SEED_OUT=$d SUITE_N=6 timeout 3600 tools/seed_verify.sh $P $P-$R 2>&1 | grep -v WARNING | tail -6 >> /tmp/seed_pipeline.log
    git -C /repo worktree remove --force /tmp/sv_$P-$R 2>/dev/null
    [ $R = 1 ] && git -C /repo worktree remove --force /tmp/seed_$P 2>/dev/null
    [ $R = 2 ] && git -C /repo worktree remove --force /tmp/seed2_$P 2>/dev/null
  done
  for m in /verif/seeded/*/meta.json; do
    ID=$(basename $(dirname $m)); P=${ID%-*}
    grep -q "^READY = True" harness/props/${P,,}.py 2>/dev/null || continue
    grep -q '"check"' $m && continue
    mkdir /tmp/se_claim_$ID 2>/dev/null || continue
    echo "=== $(date +%H:%M) eval $ID" >> /tmp/seed_pipeline.log
    timeout 1500 tools/seed_eval.sh $ID 2>&1 | grep -v WARNING | tail -2 >> /tmp/seed_pipeline.log
  done
  sleep 60
done
