#!/bin/bash
# tools/run_all_par.sh [jobs] [tier] — runs every registered check with standard settings, <jobs> at a time; one line per check.
cd "$(dirname "$0")/.."
J=${1:-6}; TIER=${2:-quick}
/venv/bin/python -c "import json;print('\n'.join(c['property_id'] for c in json.load(open('MANIFEST.json'))['checks']))" |
xargs -P $J -I{} bash -c 's=$(date +%s); out=$(timeout 1200 ./check {} --tier '$TIER' 2>&1); rc=$?; e=$(date +%s); echo "{} rc=$rc $((e-s))s $(echo "$out" | grep -a "^\[{}\]\|VIOLATION" | tail -2 | tr "\n" " ")"'
