#!/bin/bash
# tools/seed_verify.sh Cnn [id]  — verify a seeded change delivered in /tmp/seedout_Cnn by an independent sub-agent:
#   demo passes on the unmodified HEAD of /repo, fails with the patch; the related pinned tests still pass with the patch.
# On success copies it to /verif/seeded/<id>/ and leaves a patched scratch worktree /tmp/sv_<id> for running the checks
# (remove it afterwards: git -C /repo worktree remove --force /tmp/sv_<id>).
P=$1; ID=${2:-$P-1}; OUT=${SEED_OUT:-/tmp/seedout_$P}; WT=/tmp/sv_$ID
[ -f $OUT/patch.diff ] || { echo "no patch in $OUT"; exit 2; }
git -C /repo worktree remove --force $WT 2>/dev/null
git -C /repo worktree add -q $WT HEAD || exit 2
cd $WT
cp $OUT/demo.py $WT/_demo.py
timeout 300 /venv/bin/python _demo.py > /tmp/sv_$ID.before.log 2>&1; B=$?
git apply $OUT/patch.diff || { echo "patch does not apply to current HEAD"; exit 3; }
timeout 300 /venv/bin/python _demo.py > /tmp/sv_$ID.after.log 2>&1; A=$?
echo "demo before=$B after=$A"
[ $B -eq 0 ] && [ $A -ne 0 ] || { echo "demo does not discriminate"; tail -5 /tmp/sv_$ID.before.log /tmp/sv_$ID.after.log; exit 4; }
TESTS=""
for f in $(git diff --name-only); do
  case $f in
    dask/array/_array_expr/*) TESTS="$TESTS dask/array/_array_expr/tests dask/array/tests";;
    dask/array/*) TESTS="$TESTS dask/array/tests";;
    dask/bag/*) TESTS="$TESTS dask/bag/tests";;
    dask/bytes/*) TESTS="$TESTS dask/bytes/tests dask/bag/tests";;
    dask/diagnostics/*) TESTS="$TESTS dask/diagnostics/tests";;
    dask/dataframe/*) TESTS="$TESTS dask/tests";;
    *) if [ -n "$SEED_FULL_SUITE" ]; then TESTS="$TESTS dask/tests dask/array/tests dask/bag/tests dask/bytes/tests dask/diagnostics/tests dask/array/_array_expr/tests"; else
         # core (non-array) module: all non-array suites + the array test files that exercise graph/scheduler/optimisation paths most
         # (the seeder's own full-suite run is recorded in meta.json: seeder_tests_run); SEED_FULL_SUITE=1 forces everything
         TESTS="$TESTS dask/tests dask/bag/tests dask/bytes/tests dask/diagnostics/tests dask/array/_array_expr/tests dask/array/tests/test_array_core.py dask/array/tests/test_optimization.py dask/array/tests/test_atop.py dask/array/tests/test_slicing.py dask/array/tests/test_reductions.py dask/array/tests/test_rechunk.py dask/array/tests/test_random.py"; fi;;
  esac
done
TESTS=$(echo $TESTS | tr ' ' '\n' | sort -u | tr '\n' ' ')
echo "running: $TESTS"
SUITE_N=${SUITE_N:-6} /verif/tools/run_suite.sh $WT $TESTS > /tmp/sv_$ID.tests.log 2>&1; T=$?
grep -a "ran=\|NOT PASSED" /tmp/sv_$ID.tests.log | head
[ $T -eq 0 ] || { echo "pinned tests fail with the patch"; exit 5; }
rm -f $WT/_demo.py
mkdir -p /verif/seeded/$ID
cp $OUT/patch.diff $OUT/demo.py /verif/seeded/$ID/
/venv/bin/python - "$P" "$ID" "$OUT" "$TESTS" <<'PY'
import json, sys, subprocess
p, sid, out, tests = sys.argv[1:5]
try: m = json.load(open(out + '/meta.json'))
except Exception as e: m = {"note": "seeder meta unreadable: %s" % e}
meta = {"id": sid, "property": p, "summary": m.get("summary"), "needs": m.get("needs"),
        "seeder_tests_run": m.get("tests_run"),
        "verified": {"base_commit": subprocess.check_output(["git", "-C", "/repo", "rev-parse", "--short", "HEAD"], text=True).strip(),
                     "demo_exit_without_change": 0, "demo_exit_with_change": "non-zero",
                     "pinned_tests_run_with_change": tests.split(), "pinned_tests_result": "every BASELINE stable-pass test in those directories/files still passes (tools/run_suite.sh)"},
        "checks_run": []}
json.dump(meta, open(f'/verif/seeded/{sid}/meta.json', 'w'), indent=1)
PY
echo "kept as /verif/seeded/$ID ; patched worktree: $WT"
