#!/bin/bash
# tools/run_all.sh [tier] — runs every registered check sequentially with standard settings; prints one line per check.
cd "$(dirname "$0")/.."
TIER=${1:-quick}
for p in $(/venv/bin/python -c "import json;print(' '.join(c['property_id'] for c in json.load(open('MANIFEST.json'))['checks']))"); do
  s=$(date +%s)
  out=$(timeout 900 ./check $p --tier $TIER 2>&1 | grep -a "^\[$p\]\|VIOLATION" | tr '\n' ' ')
  rc=${PIPESTATUS[0]}
  e=$(date +%s)
  echo "$p $((e-s))s $out"
done
