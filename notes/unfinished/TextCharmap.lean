import DaskModel.Model.TextBlocks
/-! C50 (extension): single-byte "charmap" codecs (`latin-1`, `cp1252`, `ascii`, `cp437`, …) of `read_text(encoding=…)`.
`str.encode(codec)` maps every character through the codec's table to ONE byte; a character without an entry is
a UnicodeEncodeError. The table is the codec's own decoding table (`bytes([b]).decode(codec)` for the 256 bytes),
which the harness reads from CPython and hands to the model. -/
namespace Dask.TextBlocks

/-- the total byte function behind a table (characters outside the table are sent outside the byte range, injectively) -/
def charmapFn (tbl : List (Nat × Nat)) (c : Nat) : Nat := (tbl.lookup c).getD (256 + c)

/-- `text.encode(codec)` for a charmap codec with table `tbl` (pairs `(code point, byte)`): every character through the
    table; `none` = UnicodeEncodeError (a character without an entry) -/
def charmapEncode (tbl : List (Nat × Nat)) (t : List Nat) : Option (List Nat) :=
  if t.all (fun c => (tbl.lookup c).isSome) then some (t.map (charmapFn tbl)) else none

end Dask.TextBlocks
