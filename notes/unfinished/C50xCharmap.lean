import DaskModel.Model.TextCharmap
import DaskModel.Props.C50
/-! # C50 (extension) — `read_text(encoding=<single-byte codec>)`

`read_text` cuts the BYTES of the file at the encoded delimiter and `decode` splits the decoded TEXT. For UTF-8 the two
agree by self-synchronisation (`Props/C50.read_text_utf8`). Here: for every single-byte charmap codec (latin-1, cp1252,
ascii, …), i.e. a character-wise injective encoding, splitting commutes with encoding, a border-free delimiter stays
border-free, and the byte lines computed block-wise for every blocksize are the encodings of the reference lines of
the text. -/
namespace Dask.C50x
open Dask.TextBlocks Dask.C50

variable {f : Nat → Nat}

theorem isPrefixOf_map (hf : Function.Injective f) : ∀ (d t : List Nat),
    (d.map f).isPrefixOf (t.map f) = d.isPrefixOf t
  | [], _ => by simp
  | _ :: _, [] => by simp
  | a :: d, b :: t => by
    have ih := isPrefixOf_map hf d t
    by_cases h : a = b
    · subst h; simp only [List.map_cons, List.isPrefixOf, beq_self_eq_true, Bool.true_and]; exact ih
    · have h' : f a ≠ f b := fun e => h (hf e)
      have e1 : (f a == f b) = false := beq_eq_false_iff_ne.mpr h'
      have e2 : (a == b) = false := beq_eq_false_iff_ne.mpr h
      simp only [List.map_cons, List.isPrefixOf, e1, e2, Bool.false_and]

theorem pySplitAux_map (hf : Function.Injective f) (d : List Nat) : ∀ (t : List Nat) (n : Nat) (acc : List Nat),
    pySplitAux (d.map f) n (acc.map f) (t.map f) = (pySplitAux d n acc t).map (List.map f)
  | [], n, acc => by cases n <;> simp [pySplitAux]
  | c :: cs, n + 1, acc => by simpa [pySplitAux] using pySplitAux_map hf d cs n acc
  | c :: cs, 0, acc => by
    have hp := isPrefixOf_map hf d (c :: cs)
    have h1 := pySplitAux_map hf d cs (d.length - 1) []
    have h2 := pySplitAux_map hf d cs 0 (c :: acc)
    simp only [List.map_cons, List.map_nil] at hp h1 h2 ⊢
    simp only [pySplitAux, hp, List.length_map]
    split
    · simp [h1]
    · simpa using h2

/-- **splitting commutes with a single-byte encoding**: `text.encode(codec).split(d.encode(codec)) =
    [p.encode(codec) for p in text.split(d)]` -/
theorem charmap_split_commutes (hf : Function.Injective f) (d t : List Nat) :
    pySplit (d.map f) (t.map f) = (pySplit d t).map (List.map (List.map f)) := by
  have := pySplitAux_map hf d t 0 []
  cases d <;> simp_all [pySplit]

theorem lastPart_map (parts : List (List Nat)) :
    lastPart (parts.map (List.map f)) = (lastPart parts).map (List.map f) := by
  simp only [lastPart, List.length_map, ← List.map_drop, List.filter_map]
  congr 1
  apply List.filter_congr
  intro p _
  cases p <;> simp

/-- the reference lines (split after each delimiter, no empty trailing element) of the encoded file are the encodings
    of the reference lines of the text -/
theorem refLines_map (hf : Function.Injective f) (d t : List Nat) :
    refLines (d.map f) (t.map f) = (refLines d t).map (List.map (List.map f)) := by
  simp only [refLines, charmap_split_commutes hf]
  cases pySplit d t with
  | none => rfl
  | some parts =>
    simp only [Option.map_some, Option.some.injEq, List.map_append, lastPart_map, List.map_map, ← List.map_dropLast]
    congr 1
    apply List.map_congr_left
    intro p _
    simp

theorem beq_map (hf : Function.Injective f) (a b : List Nat) : (a.map f == b.map f) = (a == b) := by
  by_cases h : a = b
  · subst h; simp
  · have h' : a.map f ≠ b.map f := fun e => h ((List.map_inj_right (fun x y e => hf e)).mp e)
    rw [beq_eq_false_iff_ne.mpr h, beq_eq_false_iff_ne.mpr h']

/-- a border-free delimiter stays border-free under a single-byte encoding -/
theorem borderFree_map (hf : Function.Injective f) (d : List Nat) (h : BorderFree d) : BorderFree (d.map f) := by
  unfold BorderFree hasBorder at *
  simpa only [List.length_map, ← List.map_take, ← List.map_drop, beq_map hf] using h

/-- **`read_text_charmap`**: for every text, delimiter (non-empty, border-free) and blocksize, the BYTE lines `read_text`
    computes block-wise from the file encoded with a single-byte codec - and the lines of `blocksize=None` - are exactly
    the encodings of the text split after each delimiter (no empty trailing element). -/
theorem read_text_charmap (hf : Function.Injective f) (d t : List Nat) (hne : d ≠ []) (hbf : BorderFree d)
    (b : Nat) (hb : 0 < b) (hsz : t.length < 2 ^ 53) :
    readTextLines ieee (d.map f) (t.map f) (some b) = (refLines d t).map (List.map (List.map f)) ∧
    readTextLines ieee (d.map f) (t.map f) none = (refLines d t).map (List.map (List.map f)) := by
  have hne' : d.map f ≠ [] := by simpa using hne
  obtain ⟨h1, h2⟩ := lines_blocksize_independent_ieee (d.map f) (t.map f) hne' (borderFree_map hf d hbf) b hb
    (by simpa using hsz)
  exact ⟨by rw [h1, h2, refLines_map hf], by rw [h2, refLines_map hf]⟩

/-- an encodable text is encoded character by character through the table -/
theorem charmapEncode_eq_map (tbl : List (Nat × Nat)) (t bs : List Nat) (h : charmapEncode tbl t = some bs) :
    bs = t.map (charmapFn tbl) := by
  unfold charmapEncode at h
  split at h
  · exact (Option.some.inj h).symm
  · cases h

/-- the statement on the real codec: if text and delimiter are encodable with the table and the table's byte function is
    injective, the block-wise byte lines are the encoded reference lines of the text -/
theorem read_text_charmap_encoded (tbl : List (Nat × Nat)) (hf : Function.Injective (charmapFn tbl))
    (d t ed et : List Nat) (hd : charmapEncode tbl d = some ed) (ht : charmapEncode tbl t = some et)
    (hne : d ≠ []) (hbf : BorderFree d) (b : Nat) (hb : 0 < b) (hsz : t.length < 2 ^ 53) :
    readTextLines ieee ed et (some b) = (refLines d t).map (List.map (List.map (charmapFn tbl))) := by
  rw [charmapEncode_eq_map tbl d ed hd, charmapEncode_eq_map tbl t et ht]
  exact (read_text_charmap hf d t hne hbf b hb hsz).1

example : readTextLines ieee ([233, 124].map (· + 1)) ([97, 233, 124, 233, 233, 124, 98].map (· + 1)) (some 3) =
    (refLines [233, 124] [97, 233, 124, 233, 233, 124, 98]).map (List.map (List.map (· + 1))) :=
  (read_text_charmap (f := (· + 1)) (fun _ _ e => Nat.succ.inj e) _ _ (by decide) (by unfold BorderFree; decide) 3
    (by decide) (by decide)).1

end Dask.C50x
