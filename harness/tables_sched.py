"""Extractor tables / fingerprints of group sched (C01-C05, C52)."""
from tables import fp

fp("dask/local.py", "start_state_from_dask", "execute_task", "batch_execute_tasks", "release_data", "finish_task",
   "nested_get", "get_async", "get_sync", "SynchronousExecutor")
fp("dask/threaded.py", "get", "pack_exception")
fp("dask/multiprocessing.py", "get", "pack_exception", "remote_exception")
fp("dask/callbacks.py", "Callback", "unpack_callbacks", "local_callbacks", "normalize_callback", "add_callbacks")
fp("dask/cache.py", "Cache")
fp("dask/diagnostics/profile.py", "Profiler")
