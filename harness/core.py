"""Check runner shared by every property.

Flow of one run (see DESIGN.md section 2.4):

  extract -> lake build (property modules + driver) -> axiom audit
          -> corpus replay -> correspondence (function level and API level)
  all green           -> evidence, exit 0
  anything red        -> failing-input search on the real code; VIOLATION line
                         (with `no-failing-input-found` when nothing concrete was found)

Property modules live in harness/props/cNN.py and expose

  LEAN_MODULES : list[str]            Lean modules holding the property theorems
  DRIVER       : str                  name of the group driver executable (lake target, e.g. "dm_dfpart")
  CASES        : dict[str, fn(ctx, inp)]   run ONE case (model + real code + oracle)
  generate(ctx): iterator of (section, inp)   seeded generator of cases
  optional  TABLES : list[str]         extractor tables the property depends on
            search(ctx) : iterator of (section, inp)  extra cases used by the failing-input search
            TRUSTED : list[str]        extra trusted-base lines
"""
from __future__ import annotations

import fcntl
import hashlib
import importlib
import json
import os
import random
import re
import signal
import subprocess
import sys
import time
import traceback

HERE = os.path.dirname(os.path.abspath(__file__))
VERIF = os.path.dirname(HERE)
LEAN_DIR = os.path.join(VERIF, "lean")
REPO = os.environ.get("DASK_REPO", "/repo")
BIN_DIR = os.path.join(LEAN_DIR, ".lake", "build", "bin")
ALLOWED_AXIOMS = {"propext", "Classical.choice", "Quot.sound"}

sys.path.insert(0, HERE)
from sexp import enc, dec, Sym  # noqa: E402


class ModelUnavailable(Exception):
    pass


class CaseTimeout(BaseException):
    pass


def _on_alarm(signum, frame):
    raise CaseTimeout()


def jsonable(x):
    """Canonical JSON-able form (tuples -> lists, sets sorted, numpy scalars -> python)."""
    if x is None or isinstance(x, (bool, str)):
        return x
    if isinstance(x, int):
        return int(x)
    if isinstance(x, float):
        return x if x == x and abs(x) != float("inf") else repr(x)
    if isinstance(x, (list, tuple)):
        return [jsonable(e) for e in x]
    if isinstance(x, (set, frozenset)):
        return sorted((jsonable(e) for e in x), key=repr)
    if isinstance(x, dict):
        return {str(k): jsonable(v) for k, v in x.items()}
    if isinstance(x, bytes):
        return {"__bytes__": list(x)}
    if hasattr(x, "tolist"):
        return jsonable(x.tolist())
    if hasattr(x, "__index__"):
        return int(x)
    return repr(x)


class Ctx:
    def __init__(self, prop, tier, seed):
        self.prop = prop
        self.tier = tier
        self.seed = seed
        self.rng = random.Random(f"{prop}-{seed}")
        self.t0 = time.time()
        self.deadline = self.t0 + (float(os.environ.get("VERIF_QUICK_S", 70)) if tier == "quick"
                                   else float(os.environ.get("VERIF_THOROUGH_S", 780)))
        self.evaluations = 0
        self.seen = set()
        self.nontrivial = set()
        self.branches = {}
        self.sections = {}
        self.samples = []
        self.disagreements = []   # model != implementation
        self.failures = []        # property fails on the REAL code (concrete input)
        self.errors = []          # harness/section crashed
        self.model_ok = False
        self.driver = None
        self._proc = None
        self.scale = 1.0
        self.cur_section = None
        self.cur_input = None
        self.notes = {}
        self.known_sigs = set()

    # ---- budgets -------------------------------------------------------
    def n(self, quick, thorough=None):
        """Number of cases for the current tier."""
        if thorough is None:
            thorough = quick * 10
        v = quick if self.tier == "quick" else thorough
        return max(1, int(v * self.scale))

    def thorough(self):
        return self.tier == "thorough"

    def out_of_time(self):
        return time.time() > self.deadline

    # ---- Lean driver ---------------------------------------------------
    def _start(self):
        if not self.model_ok or not self.driver or not os.path.exists(self.driver):
            raise ModelUnavailable("Lean driver not built")
        self._proc = subprocess.Popen([self.driver], stdin=subprocess.PIPE, stdout=subprocess.PIPE,
                                      text=True, bufsize=1, encoding="utf-8")

    def lean(self, *expr):
        """Send one request `(op args...)` to the Lean model, return the decoded answer."""
        if self._proc is None or self._proc.poll() is not None:
            self._start()
        line = enc(list(expr) if len(expr) != 1 or not isinstance(expr[0], (list, tuple)) else expr[0])
        try:
            self._proc.stdin.write(line + "\n")
            self._proc.stdin.flush()
            out = self._proc.stdout.readline()
        except BrokenPipeError:
            out = ""
        if not out:
            self._proc = None
            raise ModelUnavailable(f"driver died on {line[:200]}")
        return dec(out)

    def lean_many(self, exprs):
        return [self.lean(e) for e in exprs]

    def close(self):
        if self._proc is not None:
            try:
                self._proc.stdin.close()
                self._proc.wait(timeout=5)
            except Exception:
                self._proc.kill()
            self._proc = None

    # ---- bookkeeping ---------------------------------------------------
    def begin(self, section, inp):
        self.cur_section = section
        self.cur_input = inp
        self.evaluations += 1
        self.sections[section] = self.sections.get(section, 0) + 1
        key = hashlib.sha1((section + json.dumps(jsonable(inp), sort_keys=True, default=repr)).encode()).hexdigest()
        self.cur_key = key
        self.seen.add(key)
        if len(self.samples) < 12 and self.sections[section] <= 2:
            self.samples.append({"section": section, "input": jsonable(inp)})

    def branch(self, name):
        """Record that the current case hit a named (non-default) branch: makes it non-trivial."""
        self.branches[name] = self.branches.get(name, 0) + 1
        self.nontrivial.add(self.cur_key)

    def note(self, key, val=1):
        self.notes[key] = self.notes.get(key, 0) + val

    def disagree(self, what, model, impl, inp=None):
        self.disagreements.append({"section": self.cur_section, "what": what,
                                   "input": jsonable(self.cur_input if inp is None else inp),
                                   "model": jsonable(model), "impl": jsonable(impl)})

    def fail(self, what, sig=None, observed=None, expected=None, inp=None):
        """The property itself fails on the real code for the current input."""
        self.failures.append({"section": self.cur_section, "what": what, "sig": sig,
                              "input": jsonable(self.cur_input if inp is None else inp),
                              "observed": jsonable(observed), "expected": jsonable(expected)})

    def eq(self, what, model, impl):
        """Model/implementation comparison helper."""
        if jsonable(model) != jsonable(impl):
            self.disagree(what, model, impl)
            return False
        return True


# ----------------------------------------------------------------------
# build / audit
# ----------------------------------------------------------------------

def sh(cmd, cwd=None, timeout=None, env=None):
    p = subprocess.run(cmd, cwd=cwd, stdout=subprocess.PIPE, stderr=subprocess.STDOUT, text=True,
                       timeout=timeout, env=env)
    return p.returncode, p.stdout


class BuildLock:
    def __init__(self, name="all"):
        self.name = name

    def __enter__(self):
        os.makedirs(os.path.join(LEAN_DIR, ".lake"), exist_ok=True)
        self.f = open(os.path.join(LEAN_DIR, ".lake", f"build.{self.name}.lock"), "w")
        fcntl.flock(self.f, fcntl.LOCK_EX)
        return self

    def __exit__(self, *a):
        fcntl.flock(self.f, fcntl.LOCK_UN)
        self.f.close()


def lean_build(targets):
    """Build the given Lean modules / executables. Returns (ok, log)."""
    lock = next((t for t in targets if t.startswith("dm_")), "all")
    with BuildLock(lock):
        rc, out = sh(["lake", "build"] + list(targets), cwd=LEAN_DIR, timeout=3000)
    return rc == 0, out


AUDIT_TEMPLATE = """import Lean
{imports}
open Lean Elab Command in
run_cmd do
  let env ← getEnv
  let mut idxs : Array ModuleIdx := #[]
  for modName in [{mods}] do
    let some idx := env.getModuleIdx? modName | throwError "no module {{modName}}"
    idxs := idxs.push idx
  -- one pass over the environment for all listed modules
  for (n, ci) in env.constants.map₁.toList do
    if let some i := env.getModuleIdxFor? n then
      if idxs.contains i then
        if let .thmInfo _ := ci then
          if !n.isInternalDetail then
            let axs ← Lean.collectAxioms n
            logInfo m!"THM {{n}} AXIOMS {{axs.toList}}"
"""


def audit(modules, prop):
    """Enumerate every theorem of the property modules with the axioms it depends on."""
    src = AUDIT_TEMPLATE.format(imports="\n".join(f"import {m}" for m in modules),
                                mods=", ".join("`" + m for m in modules))
    d = os.path.join(LEAN_DIR, ".lake", "audit")
    os.makedirs(d, exist_ok=True)
    path = os.path.join(d, f"Audit_{prop}_{os.getpid()}.lean")
    with open(path, "w") as f:
        f.write(src)
    try:
        rc, out = sh(["lake", "env", "lean", path], cwd=LEAN_DIR, timeout=1200)
    finally:
        try:
            os.remove(path)
        except OSError:
            pass
    thms, auto = {}, {}
    for m in re.finditer(r"THM (\S+) AXIOMS \[(.*?)\]", out, flags=re.S):
        axs = [a.strip() for a in m.group(2).replace("\n", " ").split(",") if a.strip()]
        if AUTO_LEMMA.search(m.group(1)):
            # equation / induction lemmas Lean generates on demand for definitions: audited, not counted as obligations
            auto[m.group(1)] = axs
        else:
            thms[m.group(1)] = axs
    problems = []
    if rc != 0:
        problems.append("audit file failed to elaborate: " + out[-400:])
    for t, axs in list(thms.items()) + list(auto.items()):
        bad = [a for a in axs if a not in ALLOWED_AXIOMS]
        if bad:
            problems.append(f"theorem {t} depends on non-standard axioms {bad}")
    return thms, problems


AUTO_LEMMA = re.compile(r"\.(eq_def|eq_\d+|induct|induct_unfolding|fun_cases|fun_cases_unfolding|congr_simp|sizeOf_spec|injEq|inj|match_\d+\.\w+|proof_\d+|_proof_\d+|_unary\S*|_mutual\S*)$")
FORBIDDEN = re.compile(r"\b(sorry|admit|native_decide|bv_decide|implemented_by|unsafe)\b|^\s*axiom\s|maxHeartbeats 0", re.M)


def strip_comments(src):
    src = re.sub(r"/-.*?-/", "", src, flags=re.S)
    src = re.sub(r"--.*", "", src)
    return src


def import_closure(modules):
    """Files of the DaskModel modules reachable through `import DaskModel.…` from the given modules."""
    todo, seen = list(modules), {}
    while todo:
        m = todo.pop()
        if m in seen or not (m.startswith("DaskModel") or m.startswith("Drivers")):
            continue
        path = os.path.join(LEAN_DIR, *m.split(".")) + ".lean"
        if not os.path.exists(path):
            continue
        with open(path) as f:
            src = f.read()
        seen[m] = (path, src)
        todo += re.findall(r"^\s*(?:public\s+)?import\s+(\S+)", src, flags=re.M)
    return seen


def grep_forbidden(modules):
    """Comment-stripped grep for forbidden tokens over the import closure of the property's modules."""
    hits = []
    for m, (path, src) in sorted(import_closure(modules).items()):
        for mt in FORBIDDEN.finditer(strip_comments(src)):
            hits.append(f"{os.path.relpath(path, LEAN_DIR)}: {mt.group(0).strip()}")
    return hits


# ----------------------------------------------------------------------
# known findings
# ----------------------------------------------------------------------

def load_findings(prop):
    p = os.path.join(VERIF, "known_findings.json")
    if not os.path.exists(p):
        return []
    with open(p) as f:
        data = json.load(f)
    return [e for e in data.get("entries", []) if e.get("property") == prop and e.get("kind") == "finding"]


# ----------------------------------------------------------------------
# main
# ----------------------------------------------------------------------

def setup_repo_path():
    """Make `import dask` resolve to /repo's working tree, with import stubs appended."""
    if REPO not in sys.path:
        sys.path.insert(0, REPO)
    os.environ["PYTHONPATH"] = REPO + (os.pathsep + os.environ["PYTHONPATH"] if os.environ.get("PYTHONPATH") else "")
    os.environ.setdefault("DASK_VERIF", "1")


def enable_stubs():
    """pyarrow / cachey import stubs (DESIGN.md 2.8). Call after `import pandas`."""
    stub = os.path.join(VERIF, "pystubs")
    if stub not in sys.path:
        sys.path.append(stub)


_DD = None


def import_dd():
    """Import dask.dataframe from /repo through the pyarrow stub (pandas-backed engine only)."""
    global _DD
    if _DD is None:
        import pandas  # noqa: F401  (must be imported before the stub becomes visible)
        enable_stubs()
        import dask
        dask.config.set({"dataframe.convert-string": False, "scheduler": "sync"})
        import dask.dataframe as dd
        _DD = dd
    return _DD


def run_cases(ctx, mod, it, limit_time=True):
    for section, inp in it:
        if limit_time and ctx.out_of_time():
            ctx.note("stopped_at_deadline")
            break
        if sum(1 for f in ctx.failures if f.get("sig") not in ctx.known_sigs) >= 25:
            ctx.note("stopped_after_25_fresh_failures")
            break
        fn = mod.CASES.get(section)
        if fn is None:
            ctx.errors.append({"section": section, "error": "unknown section"})
            continue
        ctx.begin(section, inp)
        limit = float(getattr(mod, "CASE_TIMEOUT_S", 10))
        try:
            signal.signal(signal.SIGALRM, _on_alarm)
            signal.setitimer(signal.ITIMER_REAL, limit)
            try:
                fn(ctx, inp)
            finally:
                signal.setitimer(signal.ITIMER_REAL, 0)
        except CaseTimeout:
            # the real code (or the model) did not return: for a terminating reference this is a failure
            ctx.fail(f"case did not finish within {limit:.0f} s (hang / non-termination)", sig="hang")
            ctx._proc = None if ctx._proc is None else (ctx._proc.kill() or None)
            ctx.note("case_timeouts")
            if ctx.notes.get("case_timeouts", 0) >= 3:
                break
        except ModelUnavailable as e:
            ctx.errors.append({"section": section, "input": jsonable(inp), "error": "model unavailable: " + str(e)})
            ctx.note("model_unavailable")
        except Exception as e:  # a crash of a case is a broken correspondence, never silently dropped
            ctx.errors.append({"section": section, "input": jsonable(inp),
                               "error": f"{type(e).__name__}: {e}",
                               "trace": traceback.format_exc()[-1500:]})


def corpus_cases(prop):
    d = os.path.join(VERIF, "corpus", prop)
    if not os.path.isdir(d):
        return
    for fn in sorted(os.listdir(d)):
        if fn.endswith(".json"):
            with open(os.path.join(d, fn)) as f:
                rec = json.load(f)
            recs = rec if isinstance(rec, list) else [rec]
            for r in recs:
                yield r["section"], r["input"]


def main(argv=None):
    import argparse
    ap = argparse.ArgumentParser()
    ap.add_argument("prop")
    ap.add_argument("--tier", default=os.environ.get("VERIF_TIER", "quick"))
    ap.add_argument("--replay")
    ap.add_argument("--no-build", action="store_true")
    args = ap.parse_args(argv)
    prop = args.prop.upper()
    tier = args.tier if args.tier in ("quick", "thorough") else "quick"
    try:
        seed = int(os.environ.get("VERIF_SEED", "0"))
    except ValueError:
        seed = 0
    setup_repo_path()
    import warnings
    warnings.filterwarnings("ignore")
    mod = importlib.import_module("props." + prop.lower())
    ctx = Ctx(prop, tier, seed)
    ctx.known_sigs = {e["sig"] for e in load_findings(prop)}
    broken = []   # names of theorems / correspondences / tables that no longer check

    # 1. extractor: regenerate Generated/*.lean from the current source
    import extract
    try:
        ext = extract.run(REPO)
    except Exception as e:
        ext = {"problems": {"*": f"extractor crashed: {type(e).__name__}: {e}"}, "changed": [], "fingerprints": {}}
    for tab in getattr(mod, "TABLES", []):
        if tab in ext["problems"] or "*" in ext["problems"]:
            broken.append(f"extractor cannot re-derive table {tab}: {ext['problems'].get(tab) or ext['problems'].get('*')}")

    # 2. build proofs + driver against the regenerated tables
    modules = list(mod.LEAN_MODULES)
    drv = mod.DRIVER
    ctx.driver = os.path.join(BIN_DIR, drv)
    if args.no_build and os.path.exists(ctx.driver):
        ok, log = True, ""
    else:
        ok, log = lean_build(modules + [drv])
    thms = {}
    if not ok:
        errs = re.findall(r"error: (.*)", log)
        broken.append("lake build failed: " + "; ".join(errs[:6])[:1500])
        # the driver may still be buildable without the proofs
        ok2, _ = lean_build([drv])
        ctx.model_ok = ok2
    else:
        ctx.model_ok = True
        # 3. audit
        thms, problems = audit(modules, prop)
        broken += problems
        hits = grep_forbidden(modules + ["Drivers." + drv[3:]])
        if hits:
            broken.append("forbidden tokens in Lean sources: " + "; ".join(hits[:10]))
        if not thms:
            broken.append("no theorems found in " + ",".join(modules))
        if tier == "thorough" and not os.environ.get("VERIF_NO_LEANCHECKER"):
            # independent re-check of the compiled theorem modules by the toolchain's kernel re-checker
            with BuildLock(drv):
                rc, out = sh(["lake", "env", "leanchecker"] + modules, cwd=LEAN_DIR, timeout=3000)
            ctx.note("leanchecker_rc", rc)
            if rc != 0:
                broken.append("leanchecker rejected the compiled modules: " + out[-300:])
    discharged = sum(1 for t, axs in thms.items() if all(a in ALLOWED_AXIOMS for a in axs))

    if args.replay:
        with open(args.replay) as f:
            rec = json.load(f)
        items = rec.get("failures") or rec.get("disagreements") or [rec]
        run_cases(ctx, mod, [(r["section"], r["input"]) for r in items if "section" in r], limit_time=False)
        print(json.dumps({"failures": ctx.failures, "disagreements": ctx.disagreements, "errors": ctx.errors}, indent=1))
        ctx.close()
        return 0 if not (ctx.failures or ctx.disagreements or ctx.errors) else 1

    # 4. corpus, then generated cases (the case budget starts now: build/audit time is not charged to it)
    ctx.deadline = time.time() + (float(os.environ.get("VERIF_QUICK_S", 55)) if tier == "quick"
                                  else float(os.environ.get("VERIF_THOROUGH_S", 720)))
    run_cases(ctx, mod, corpus_cases(prop), limit_time=False)
    run_cases(ctx, mod, mod.generate(ctx))

    # 5. failing-input search when something is red and no concrete failure is known yet
    red = bool(broken or ctx.disagreements or ctx.errors)
    searched = 0
    if red and not ctx.failures:
        ctx.deadline = time.time() + (60 if tier == "quick" else 300)
        before = ctx.evaluations
        ctx.scale = 4.0
        ctx.rng = random.Random(f"{prop}-{seed}-search")
        it = mod.search(ctx) if hasattr(mod, "search") else mod.generate(ctx)
        nerr = len(ctx.errors)
        run_cases(ctx, mod, it)
        del ctx.errors[nerr + 20:]
        searched = ctx.evaluations - before
    ctx.close()

    # 6. classify failures against the committed known findings
    findings = load_findings(prop)
    known_sigs = {e["sig"]: e for e in findings}
    known_hits, fresh = {}, []
    for f in ctx.failures:
        if f.get("sig") in known_sigs:
            known_hits.setdefault(f["sig"], f)
        else:
            fresh.append(f)
    # disagreements/errors explained by a known finding (same signature recorded by the case) are not fresh
    wall = time.time() - t_start
    violation = bool(fresh) or red
    replay_path = None
    os.makedirs(os.path.join(VERIF, "replays"), exist_ok=True)
    if violation:
        replay_path = os.path.join(VERIF, "replays", f"{prop}-{tier}-{seed}.json")
        with open(replay_path, "w") as f:
            json.dump({"property": prop, "tier": tier, "seed": seed,
                       "failures": fresh[:20],
                       "broken": broken,
                       "disagreements": ctx.disagreements[:20],
                       "errors": ctx.errors[:10],
                       "searched_cases": searched,
                       "note": ("concrete failing input on the real code" if fresh else
                                "no failing input found: the named theorem/correspondence no longer checks")},
                      f, indent=1, default=repr)

    # 7. evidence
    trusted = ["Lean 4.33.0 kernel", "axioms: propext, Classical.choice, Quot.sound only (audited per run)",
               "hand-written Lean model tied to /repo by harness/props/%s.py (differential correspondence)" % prop.lower(),
               "extractor harness/extract.py (AST pattern matching) for generated tables",
               "CPython/NumPy/pandas as reference oracles"] + list(getattr(mod, "TRUSTED", []))
    ev = {
        "property_id": prop, "tier": tier, "seed": seed, "level": "proof",
        "coverage": {
            "obligations": max(len(thms), 1) if thms else 1,
            "discharged": discharged,
            "checker_cmd": f"cd lean && lake build {' '.join(modules)} {drv} && lake env lean <Audit: collectAxioms over every theorem of {' '.join(modules)}>",
            "trusted_base": trusted,
            "theorems": sorted(thms.keys()),
            "evaluations": ctx.evaluations,
            "distinct": len(ctx.seen),
            "distinct_nontrivial": len(ctx.nontrivial),
            "rule": getattr(mod, "RULE", "seeded generators of harness/props/%s.py; a case is non-trivial when it reaches a named non-default branch of the model/implementation (see branch_histogram)" % prop.lower()),
            "samples": ctx.samples[:8] or [{"note": "no cases"}],
            "sections": ctx.sections,
            "branch_histogram": ctx.branches,
            "notes": ctx.notes,
            "fingerprint_changed": ext.get("changed", []),
            "broken": broken,
            "disagreements": len(ctx.disagreements),
            "harness_errors": len(ctx.errors),
            "known_findings_seen": sorted(known_hits.keys()),
            "search_cases": searched,
        },
        "assumptions": list(getattr(mod, "ASSUMPTIONS", [])),
        "wall_s": round(wall, 2),
        "violations": len(fresh) + (1 if (red and not fresh) else 0),
    }
    os.makedirs(os.path.join(VERIF, "evidence"), exist_ok=True)
    with open(os.path.join(VERIF, "evidence", f"{prop}.json"), "w") as f:
        json.dump(ev, f, indent=1, default=repr)

    for sig, f in sorted(known_hits.items()):
        print(f"KNOWN-FINDING: property={prop} {known_sigs[sig]['text']} [sig={sig}]")
    print(f"[{prop}] tier={tier} seed={seed} theorems={len(thms)} discharged={discharged} cases={ctx.evaluations} "
          f"distinct_nontrivial={len(ctx.nontrivial)} disagreements={len(ctx.disagreements)} "
          f"failures={len(ctx.failures)} (known {len(ctx.failures) - len(fresh)}) errors={len(ctx.errors)} wall={wall:.1f}s")
    if violation:
        for b in broken[:5]:
            print("  broken:", b[:300])
        for d in ctx.disagreements[:3]:
            print("  disagreement:", json.dumps(d, default=repr)[:400])
        for e in ctx.errors[:3]:
            print("  error:", json.dumps({k: v for k, v in e.items() if k != "trace"}, default=repr)[:400])
        for f in fresh[:3]:
            print("  failure:", json.dumps(f, default=repr)[:500])
        tail = "" if fresh else " no-failing-input-found"
        print(f"VIOLATION property={prop} replay={replay_path}{tail}")
        return 1
    return 0


t_start = time.time()

if __name__ == "__main__":
    sys.exit(main())
