"""S-expression encoding/decoding for the Lean driver line protocol."""
from __future__ import annotations


class Sym(str):
    """A bare symbol (unquoted atom)."""
    __slots__ = ()

    def __repr__(self):
        return f"Sym({str(self)!r})"


def enc(x) -> str:
    if x is None:
        return "none"
    if x is True:
        return "true"
    if x is False:
        return "false"
    if isinstance(x, Sym):
        return str(x)
    if isinstance(x, int):
        return str(int(x))
    if isinstance(x, str):
        out = ['"']
        for c in x:
            if c == '"':
                out.append('\\"')
            elif c == "\\":
                out.append("\\\\")
            elif c == "\n":
                out.append("\\n")
            elif c == "\r":
                out.append("\\r")
            elif c == "\t":
                out.append("\\t")
            else:
                out.append(c)
        out.append('"')
        return "".join(out)
    if isinstance(x, (list, tuple)):
        return "(" + " ".join(enc(e) for e in x) + ")"
    if hasattr(x, "__index__"):
        return str(int(x))
    raise TypeError(f"cannot encode {type(x)}: {x!r}")


def dec(s: str):
    """Parse one s-expression. ints -> int, symbols -> Sym, strings -> str, lists -> list."""
    pos = 0
    n = len(s)

    def skip():
        nonlocal pos
        while pos < n and s[pos] in " \n\t\r":
            pos += 1

    def one():
        nonlocal pos
        skip()
        if pos >= n:
            raise ValueError("eof")
        c = s[pos]
        if c == "(":
            pos += 1
            out = []
            while True:
                skip()
                if pos >= n:
                    raise ValueError("eof in list")
                if s[pos] == ")":
                    pos += 1
                    return out
                out.append(one())
        if c == '"':
            pos += 1
            buf = []
            while True:
                c = s[pos]
                if c == '"':
                    pos += 1
                    return "".join(buf)
                if c == "\\":
                    d = s[pos + 1]
                    buf.append({"n": "\n", "r": "\r", "t": "\t"}.get(d, d))
                    pos += 2
                else:
                    buf.append(c)
                    pos += 1
        start = pos
        while pos < n and s[pos] not in '() \n\t\r"':
            pos += 1
        tok = s[start:pos]
        try:
            return int(tok)
        except ValueError:
            if tok == "none":
                return None
            if tok == "true":
                return True
            if tok == "false":
                return False
            return Sym(tok)

    return one()
