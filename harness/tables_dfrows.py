"""Extractor tables / fingerprints of group dfrows (C36 C37 C42 C43 C46)."""
from tables import fp

# C46
fp("dask/dataframe/dask_expr/_cumulative.py", "TakeLast.operation", "CumulativeFinalize._layer", "cumulative_wrapper",
   "cumulative_wrapper_intermediate", "CumulativeAggregations._lower")
fp("dask/dataframe/methods.py", "_cum_aggregate_apply", "cumsum_aggregate", "cumprod_aggregate", "cummin_aggregate",
   "cummax_aggregate", "fillna_check")
fp("dask/dataframe/dask_expr/_expr.py", "CreateOverlappingPartitions._layer", "_combined_parts", "MapOverlap._lower",
   "Shift.before", "Shift.after", "Diff.before", "Diff.after", "FFill.before", "FFill.after", "BFill.before", "BFill.after")
fp("dask/dataframe/rolling.py", "overlap_chunk")
fp("dask/dataframe/dask_expr/_rolling.py", "RollingReduction._lower", "RollingReduction._is_blockwise_op")

# C36
fp("dask/dataframe/dask_expr/_expr.py", "Blockwise._task", "Blockwise._blockwise_arg", "Blockwise._broadcast_dep",
   "Blockwise._divisions", "Filter", "Projection", "Assign", "are_co_aligned", "MaybeAlignPartitions._lower")

# C37
fp("dask/dataframe/dask_expr/_reductions.py", "TreeReduce._layer", "TreeReduce.split_every", "ApplyConcatApply._lower",
   "Reduction.chunk", "Reduction.combine", "Reduction.aggregate", "Sum", "Max", "Count", "Mean._lower",
   "Max.chunk", "Max.combine", "Max._element", "Any", "All", "IdxMin", "ValueCounts", "NLargest", "NSmallest",
   "ReductionConstantDim.chunk", "ReductionConstantDim.combine", "Len", "_concat_partials")
fp("dask/dataframe/core.py", "idxmaxmin_chunk", "idxmaxmin_row", "idxmaxmin_combine", "idxmaxmin_agg")
fp("dask/dataframe/methods.py", "value_counts_combine", "value_counts_aggregate")
# C37 extension round (Model/CoMoment.lean)
fp("dask/dataframe/core.py", "_cov_corr_chunk", "_cov_corr_combine", "_cov_corr_agg")
fp("dask/dataframe/dask_expr/_reductions.py", "Cov", "Var.reduction_chunk", "Var.reduction_combine", "Var.reduction_aggregate",
   "Unique.combine", "Unique.aggregate")
fp("dask/dataframe/dask_expr/_describe.py", "DescribeNumeric._lower")
fp("dask/dataframe/dask_expr/_collection.py", "FrameBase.sem", "Series.nunique")

# C43
fp("dask/_expr.py", "Expr.simplify", "Expr.simplify_once", "Expr.lower_once", "Expr.lower_completely", "optimize_until")
fp("dask/dataframe/dask_expr/_expr.py", "Projection._simplify_down", "Filter._simplify_up", "Assign._simplify_down",
   "Assign._simplify_up", "Assign._remove_common_columns", "plain_column_projection", "determine_column_projection",
   "is_filter_pushdown_available", "Blockwise._simplify_up", "optimize_blockwise_fusion",
   "rewrite_filters", "_get_predicate_components", "_convert_mapping", "_replace_common_or_components",
   "Head._simplify_down", "ResetIndex._simplify_up", "Partitions._simplify_down")

# C42
fp("dask/dataframe/dask_expr/_expr.py", "Blockwise._meta", "Projection._meta", "Assign._meta")
fp("dask/dataframe/dispatch.py", "make_meta", "meta_nonempty")
fp("dask/dataframe/utils.py", "_scalar_from_dtype")
fp("dask/dataframe/backends.py", "_nonempty_series")
