"""Extractor tables / fingerprints of group reduce (C22 C28 C30 C31 C32 C33)."""
from tables import fp

# C22
fp("dask/array/_reductions_generic.py", "reduction", "_tree_reduce", "partial_reduce")
fp("dask/array/reductions.py", "_arg_combine", "arg_chunk", "arg_reduction", "prefixscan_blelloch",
   "_cumreduction_carry", "cumreduction", "topk", "argtopk", "chunk_min", "chunk_max", "_empty_along",
   "mean_chunk", "mean_combine", "mean_agg", "moment_combine", "moment_agg")
fp("dask/array/chunk.py", "topk", "topk_aggregate", "argtopk", "argtopk_aggregate")

# C32
fp("dask/array/percentile.py", "_percentile", "percentile", "merge_percentiles", "nanpercentile")

# C33
fp("dask/array/ma.py", "filled", "_wrap_masked", "masked_equal", "masked_where", "getmaskarray", "masked_array",
   "_chunk_count", "count")
fp("dask/array/reductions.py", "_cumsum_merge", "_cumprod_merge")
fp("dask/array/backends.py", "_numel_masked")

# C28
fp("dask/array/random.py", "_spawn_bitgens", "_wrap_func", "_choice_validate_params", "_apply_random_func",
   "_apply_random", "Generator.choice", "RandomState.choice", "default_rng", "Generator.permutation",
   "RandomState.permutation", "_shuffle", "_choice_rng", "_choice_rs", "Generator.integers", "RandomState.randint",
   "Generator.multinomial", "Generator.multivariate_hypergeometric", "RandomState.seed")
fp("dask/utils.py", "random_state_data")

# C31
fp("dask/array/routines.py", "_tensordot", "tensordot", "dot", "vdot", "_chunk_sum", "_sum_wo_cat", "_matmul", "matmul", "outer")
fp("dask/array/einsumfuncs.py", "einsum", "chunk_einsum")
fp("dask/array/linalg.py", "_cumsum_blocks", "tsqr", "sfqr", "qr", "svd")
fp("dask/array/core.py", "unify_chunks")

# C30
fp("dask/array/_array_expr/_expr.py", "ArrayExpr.optimize", "ArrayExpr.rechunk", "unify_chunks_expr", "Concatenate.chunks",
   "FinalizeComputeArray._simplify_down")
fp("dask/array/_array_expr/_rechunk.py", "Rechunk.chunks", "Rechunk._lower", "TasksRechunk._lower")
fp("dask/array/_array_expr/_blockwise.py", "Blockwise._lower", "Elemwise._lower")
fp("dask/array/_array_expr/_reductions.py", "_tree_reduce", "PartialReduce.chunks", "PartialReduce._layer")
fp("dask/_expr.py", "Expr.simplify", "Expr.simplify_once", "Expr.lower_once", "Expr.lower_completely", "optimize_until")
