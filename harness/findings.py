"""Locked helper to edit /verif/known_findings.json (the file is NEVER written by a check at run time).

  findings.py add --property C49 --kind finding --sig 'sample:k>len:ValueError' --text '...'
  findings.py add --property C17 --kind fixed --sig '...' --commit <sha> --text '...'
  findings.py list
"""
import argparse
import fcntl
import json
import os

PATH = os.path.join(os.path.dirname(os.path.dirname(os.path.abspath(__file__))), "known_findings.json")


def main():
    ap = argparse.ArgumentParser()
    sub = ap.add_subparsers(dest="cmd", required=True)
    a = sub.add_parser("add")
    a.add_argument("--property", required=True)
    a.add_argument("--kind", required=True, choices=["finding", "fixed"])
    a.add_argument("--sig", required=True, help="specific signature: input class + symptom, as produced by ctx.fail(sig=...)")
    a.add_argument("--text", required=True, help="what fails (specific input / call site)")
    a.add_argument("--commit", default=None)
    a.add_argument("--replay", default=None, help="concrete failing input (python expression or JSON)")
    sub.add_parser("list")
    args = ap.parse_args()
    with open(PATH + ".lock", "w") as lk:
        fcntl.flock(lk, fcntl.LOCK_EX)
        data = json.load(open(PATH)) if os.path.exists(PATH) else {"entries": []}
        if args.cmd == "list":
            for e in data["entries"]:
                print(e["kind"], e["property"], e["sig"], "-", e["text"][:100])
            return
        data["entries"] = [e for e in data["entries"] if not (e["property"] == args.property and e["sig"] == args.sig)]
        e = {"property": args.property, "kind": args.kind, "sig": args.sig, "text": args.text}
        if args.commit:
            e["commit"] = args.commit
        if args.replay:
            e["replay"] = args.replay
        if args.kind == "fixed":
            e["line"] = f"fixed: property={args.property} {args.commit} {args.text}"
        data["entries"].append(e)
        data["entries"].sort(key=lambda e: (e["property"], e["sig"]))
        json.dump(data, open(PATH, "w"), indent=1)


if __name__ == "__main__":
    main()
