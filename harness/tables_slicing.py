"""Extractor tables / fingerprints of group slicing (C20, C21, C26, C29)."""
from tables import fp

fp("dask/array/slicing.py", "normalize_slice", "_slice_1d", "new_blockdim", "posify_index", "check_index",
   "slice_slices_and_integers", "normalize_index", "replace_ellipsis")

fp("dask/array/slicing.py", "parse_assignment_indices", "setitem_array", "setitem", "take")
fp("dask/array/core.py", "Array.__setitem__", "Array.__getitem__")

fp("dask/array/core.py", "slices_from_chunks", "store", "load_store_chunk", "load_chunk", "to_npy_stack", "from_npy_stack")
fp("dask/array/optimization.py", "fuse_slice", "normalize_slice")

fp("dask/array/overlap.py", "_overlap_internal_chunks", "overlap_internal", "trim_internal", "_trim", "periodic", "reflect",
   "nearest", "constant", "boundaries", "ensure_minimum_chunksize", "overlap", "map_overlap", "sliding_window_view",
   "coerce_depth", "coerce_boundary")
fp("dask/layers.py", "ArrayOverlapLayer._construct_graph", "_expand_keys_around_center", "fractional_slice")

fp("dask/array/_shuffle.py", "_shuffle", "_validate_indexer", "concatenate_arrays")
fp("dask/array/chunk.py", "slice_with_int_dask_array", "slice_with_int_dask_array_aggregate", "getitem")
fp("dask/array/core.py", "_vindex", "_vindex_array", "_numpy_vindex", "_vindex_slice_and_transpose", "_vindex_merge",
   "normalize_arg")
fp("dask/array/slicing.py", "sanitize_index")
fp("dask/array/slicing.py", "slice_with_newaxes", "slice_wrap_lists", "slice_array", "slice_with_int_dask_array",
   "slice_with_int_dask_array_on_axis", "slice_with_bool_dask_array")

fp("dask/array/core.py", "Array.__new__", "Array.__dask_keys__", "Array._reset_cache", "Array._key_array", "Array.numblocks",
   "Array.npartitions", "Array.shape", "Array.ndim", "Array.size", "Array._chunks", "Array._name", "Array.compute_chunk_sizes",
   "Array.to_delayed", "handle_out", "BlockView.__getitem__")
