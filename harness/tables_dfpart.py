"""Extractor tables / fingerprints of group dfpart."""
from tables import fp

fp("dask/dataframe/io/io.py", "sorted_division_locations")
