"""Extractor tables / fingerprints of group dfpart (C38 C39 C40 C41 C44 C45 C47)."""
import ast

from tables import ExtractError, fp, parse, table

# C45
fp("dask/dataframe/io/io.py", "sorted_division_locations")
fp("dask/dataframe/partitionquantiles.py", "process_val_weights", "merge_and_compress_summaries", "percentiles_summary")
fp("dask/dataframe/dask_expr/_quantiles.py", "RepartitionQuantiles._layer")
fp("dask/dataframe/dask_expr/io/io.py", "FromPandas._divisions_and_locations")
# C44
fp("dask/dataframe/dask_expr/_repartition.py", "Repartition._lower", "Repartition._divisions", "Repartition.npartitions",
   "RepartitionToFewer._compute_partition_boundaries", "RepartitionToFewer._layer", "RepartitionToFewer._divisions",
   "RepartitionToMore._nsplits", "RepartitionToMore._layer", "RepartitionDivisions._layer", "_clean_new_division_boundaries",
   "RepartitionSize._partition_boundaries", "RepartitionSize._nsplits", "RepartitionSize._layer")
fp("dask/dataframe/core.py", "split_evenly", "check_divisions")
fp("dask/utils.py", "iter_chunks")
fp("dask/dataframe/methods.py", "boundary_slice")
# C41
fp("dask/dataframe/dask_expr/_indexing.py", "LocSlice._divisions", "LocSlice._layer", "LocSlice.start", "LocSlice.stop",
   "LocSlice.istart", "LocSlice.istop", "LocSlice._lower", "LocIndexer._loc", "LocIndexer._loc_slice", "LocList._layer_information",
   "LocList._lower", "LocElement._divisions", "LocElement._lower", "LocElement._layer", "LocIndexer._loc_element", "_get_partitions")
fp("dask/dataframe/dask_expr/_shuffle.py", "BaseSetIndexSortValues._divisions", "BaseSetIndexSortValues.npartitions")
fp("dask/dataframe/dask_expr/_concat.py", "Concat._monotonic_divisions")
fp("dask/dataframe/dask_expr/_expr.py", "Partitions._divisions", "Partitions._simplify_down", "PartitionsFiltered.divisions",
   "Head._simplify_up", "Tail._simplify_up")
fp("dask/dataframe/indexing.py", "_partition_of_index_value", "_partitions_of_index_values")
# C40
fp("dask/dataframe/shuffle.py", "shuffle_group", "shuffle_group_2", "shuffle_group_get", "set_partitions_pre", "partitioning_index")
fp("dask/dataframe/dask_expr/_shuffle.py", "SimpleShuffle._layer", "TaskShuffle._layer", "DiskShuffle._layer",
   "DiskShuffle._shuffle_group", "SortValues._lower", "SetIndex._lower", "AssignPartitioningIndex.operation")
fp("dask/utils.py", "digit", "insert")
fp("dask/dataframe/dask_expr/_shuffle.py", "Shuffle._lower", "RearrangeByColumn._lower", "SimpleShuffle._shuffle_group",
   "SetPartition._lower", "_calculate_divisions", "BaseSetIndexSortValues._divisions", "SortValues._divisions",
   "_SetIndexPost.operation")
fp("dask/dataframe/dask_expr/_reductions.py", "DropDuplicates", "Unique")
fp("dask/dataframe/dask_expr/_util.py", "_get_shuffle_preferring_order")
fp("dask/dataframe/shuffle.py", "collect")
# C38
fp("dask/dataframe/dask_expr/_groupby.py", "SingleAggregation.chunk", "SingleAggregation.aggregate", "GroupByReduction",
   "IdxMin", "IdxMax", "Mean", "Var", "NUnique", "nunique_df_aggregate", "nunique_df_combine", "Median", "Cov",
   "GroupByCumulative._lower", "GroupByCumulativeFinalizer._layer", "GroupByCumsum", "GroupByCumprod", "GroupByCumcount",
   "GroupByBFill", "groupby_slice_fill")
fp("dask/dataframe/groupby.py", "_groupby_aggregate", "_apply_chunk", "_cum_agg_aligned", "_cum_agg_filled", "_cumcount_aggregate",
   "_var_chunk", "_var_agg", "_nunique_df_chunk", "_nunique_df_combine", "_cov_chunk", "_cov_agg", "_cov_finalizer", "_value_counts",
   "_value_counts_aggregate", "_groupby_slice_transform", "_groupby_slice_apply", "_groupby_slice_shift")
fp("dask/dataframe/dask_expr/_reductions.py", "ApplyConcatApply._lower", "ShuffleReduce._lower", "TreeReduce._layer")
# C39
fp("dask/dataframe/dask_expr/_merge.py", "Merge._lower", "Merge.is_broadcast_join", "Merge.broadcast_side",
   "Merge._is_single_partition_broadcast", "BroadcastJoin._layer", "HashJoinP2P._layer")
fp("dask/dataframe/multi.py", "merge_chunk", "_split_partition", "pair_partitions", "merge_asof_padded")
fp("dask/dataframe/dask_expr/_merge_asof.py", "MergeAsof._lower", "MergeAsofIndexed._layer", "compute_tails", "compute_heads",
   "prefix_reduction", "suffix_reduction", "most_recent_tail", "most_recent_head")
fp("dask/dataframe/dask_expr/_concat.py", "Concat._lower", "Concat._simplify_up", "Concat._divisions", "StackPartitionInterleaved._layer")
# C39 extension: the alignment step (Model/AlignDivs.lean)
fp("dask/dataframe/dask_expr/_expr.py", "calc_divisions_for_align", "maybe_align_partitions", "_single_partition_common_divisions",
   "MaybeAlignPartitions._divisions", "MaybeAlignPartitions._lower", "OpAlignPartitions._lower")
# C47
fp("dask/dataframe/io/csv.py", "pandas_read_text", "coerce_dtypes", "text_blocks_to_pandas", "_read_csv", "read_pandas", "to_csv",
   "_header_row", "block_mask", "block_mask_last", "_write_csv")


def _method_name(node):
    """`M.sum` -> "sum"; `staticmethod(_f)` -> "_f"; anything else -> unparsed text"""
    if isinstance(node, ast.Attribute) and isinstance(node.value, ast.Name) and node.value.id == "M":
        return node.attr
    if isinstance(node, ast.Call) and isinstance(node.func, ast.Name) and node.func.id == "staticmethod" and len(node.args) == 1:
        return ast.unparse(node.args[0])
    return ast.unparse(node)


@table("GroupbyAggs")
def groupby_aggs(repo):
    """`groupby_chunk` / `groupby_aggregate` of every `SingleAggregation` subclass of dask_expr/_groupby.py:
    the pair (what is applied to each group of a partition, what is applied to each group of the concatenated
    partials). The C38 theorems apply to the pairs listed as monoid homomorphisms in Props/C38.lean."""
    tree = parse(repo, "dask/dataframe/dask_expr/_groupby.py")
    classes = {n.name: n for n in tree.body if isinstance(n, ast.ClassDef)}

    def derives(c, seen=()):
        for b in c.bases:
            nm = ast.unparse(b)
            if nm == "SingleAggregation":
                return True
            if nm in classes and nm not in seen and derives(classes[nm], seen + (nm,)):
                return True
        return False
    rows = []
    for name, c in classes.items():
        if not derives(c):
            continue
        attrs = {}
        for st in c.body:
            if isinstance(st, ast.Assign) and len(st.targets) == 1 and isinstance(st.targets[0], ast.Name) \
                    and st.targets[0].id in ("groupby_chunk", "groupby_aggregate"):
                attrs[st.targets[0].id] = _method_name(st.value)
        if "groupby_chunk" in attrs:
            rows.append((name, attrs["groupby_chunk"], attrs.get("groupby_aggregate", attrs["groupby_chunk"])))
    if not rows:
        raise ExtractError("no SingleAggregation subclass with groupby_chunk found")
    names = {r[0] for r in rows}
    for need in ("Sum", "Min", "Max", "First", "Last", "Count", "Size"):
        if need not in names:
            raise ExtractError(f"aggregation class {need} not found")
    rows.sort()
    body = ",\n  ".join(f'("{a}", "{b}", "{c}")' for a, b, c in rows)
    return ("namespace Dask.Generated\n\n/-- (class, groupby_chunk, groupby_aggregate) -/\n"
            f"def groupbyAggs : List (String × String × String) := [\n  {body}]\n\nend Dask.Generated\n")


@table("GroupbyCums")
def groupby_cums(repo):
    """(`chunk`, `aggregate`, `initial`) of every `GroupByCumulative` subclass of dask_expr/_groupby.py: the scan applied to
    each partition, the operation that combines a partition's cells with the carried running value, and its identity.
    Props/C38.lean pins them to the operations of `cumulative_eq_global` (cumsum/cumprod/cumcount)."""
    tree = parse(repo, "dask/dataframe/dask_expr/_groupby.py")
    rows = []
    for c in tree.body:
        if isinstance(c, ast.ClassDef) and any(ast.unparse(b) == "GroupByCumulative" for b in c.bases):
            attrs = {}
            for st in c.body:
                if isinstance(st, ast.Assign) and len(st.targets) == 1 and isinstance(st.targets[0], ast.Name):
                    attrs[st.targets[0].id] = st.value
            try:
                initial = ast.literal_eval(attrs["initial"])
                rows.append((c.name, _method_name(attrs["chunk"]), _method_name(attrs["aggregate"]), int(initial)))
            except (KeyError, ValueError) as e:
                raise ExtractError(f"{c.name}: chunk/aggregate/initial not found as class attributes ({e})")
    if {r[0] for r in rows} != {"GroupByCumsum", "GroupByCumprod", "GroupByCumcount"}:
        raise ExtractError(f"GroupByCumulative subclasses changed: {sorted(r[0] for r in rows)}")
    rows.sort()
    body = ",\n  ".join(f'("{a}", "{b}", "{c}", {d if d >= 0 else "(" + str(d) + ")"})' for a, b, c, d in rows)
    return ("namespace Dask.Generated\n\n/-- (class, chunk, aggregate, initial) -/\n"
            f"def groupbyCums : List (String × String × String × Int) := [\n  {body}]\n\nend Dask.Generated\n")
