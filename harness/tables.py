"""Table definitions for the extractor. Each group keeps its own file harness/tables_<group>.py,
which registers tables with `@table("Name")` (-> lean/DaskModel/Generated/Name.lean) and modelled
functions with `fp(rel_path, qualname, ...)` (fingerprints). This module just imports them all."""
from __future__ import annotations

import glob
import importlib
import os

from extract import ExtractError, FINGERPRINTS, find_def, lean_str, parse, table  # noqa: F401


def fp(rel, *qualnames):
    for q in qualnames:
        FINGERPRINTS[f"{rel}::{q}"] = None


for _p in sorted(glob.glob(os.path.join(os.path.dirname(os.path.abspath(__file__)), "tables_*.py"))):
    importlib.import_module(os.path.basename(_p)[:-3])
