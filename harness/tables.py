"""Table definitions for the extractor (one function per generated Lean file)."""
from __future__ import annotations

import ast

from extract import ExtractError, FINGERPRINTS, find_def, lean_str, parse, table  # noqa: F401


def fp(rel, *qualnames):
    for q in qualnames:
        FINGERPRINTS[f"{rel}::{q}"] = None
