"""Extractor tables / fingerprints of group token (C11–C15)."""
import ast

from tables import ExtractError, find_def, fp, lean_str, parse, table

# ---- fingerprints of the modelled functions ----------------------------------------------------
fp("dask/tokenize.py", "_tokenize", "tokenize", "_sort_key", "normalize_dict", "normalize_set", "_normalize_seq_func",
   "normalize_seq", "normalize_object", "register_numpy")
fp("dask/_task_spec.py", "GraphNode.__eq__", "Alias.__dask_tokenize__", "Alias.__eq__", "Alias.__call__",
   "DataNode.__dask_tokenize__", "DataNode.__call__", "Task.__hash__", "Task._get_token", "Task.__dask_tokenize__",
   "Task.__call__", "NestedContainer._element_tokens", "NestedContainer.__dask_tokenize__", "NestedContainer.__hash__",
   "NestedContainer.to_container", "Dict._element_tokens", "Dict.constructor", "TaskRef.__eq__", "TaskRef.__hash__")
fp("dask/base.py", "unpack_collections", "compute", "persist", "optimize", "collections_to_expr")
fp("dask/_expr.py", "_HLGExprSequence._tune_down", "_HLGExprSequence.__dask_keys__", "_ExprSequence.__dask_keys__",
   "_ExprSequence._simplify_down", "HLGFinalizeCompute._simplify_down", "FinalizeCompute._simplify_down")
fp("dask/delayed.py", "unpack_collections", "finalize", "to_task_dask", "tokenize", "delayed", "call_function",
   "Delayed.__getattr__", "Delayed.__iter__", "Delayed._get_binary_operator", "DelayedLeaf.__call__", "DelayedAttr.__call__")


def _name_of(node):
    if isinstance(node, ast.Name):
        return node.id
    if isinstance(node, ast.Attribute):
        return _name_of(node.value) + "." + node.attr
    if isinstance(node, ast.Call) and isinstance(node.func, ast.Name) and node.func.id == "type" and len(node.args) == 1:
        a = node.args[0]
        if isinstance(a, ast.Constant) and a.value is None:
            return "NoneType"
        if isinstance(a, ast.Name):
            return "type(" + a.id + ")"
    raise ExtractError("unexpected element in _IDENTITY_DISPATCH: " + ast.dump(node))


def _first_return_tag(fn):
    """The string constant that heads the tuple returned by `fn` (`return "dict", …`)."""
    tags = []
    for node in ast.walk(fn):
        if isinstance(node, ast.Return) and isinstance(node.value, ast.Tuple) and node.value.elts:
            e = node.value.elts[0]
            if isinstance(e, ast.Constant) and isinstance(e.value, str):
                tags.append(e.value)
    return tags


@table("TokenDispatch")
def token_dispatch(repo):
    tree = parse(repo, "dask/tokenize.py")
    ident = None
    for node in tree.body:
        if isinstance(node, ast.Assign) and len(node.targets) == 1 and isinstance(node.targets[0], ast.Name) \
                and node.targets[0].id == "_IDENTITY_DISPATCH":
            if not isinstance(node.value, ast.Tuple):
                raise ExtractError("_IDENTITY_DISPATCH is not a tuple literal")
            ident = [_name_of(e) for e in node.value.elts]
    if ident is None:
        raise ExtractError("_IDENTITY_DISPATCH not found")
    dict_tags = _first_return_tag(find_def(tree, "normalize_dict"))
    set_tags = _first_return_tag(find_def(tree, "normalize_set"))
    seq_tags = _first_return_tag(find_def(tree, "_normalize_seq_func"))
    if sorted(set(dict_tags)) != ["__seen", "dict"]:
        raise ExtractError(f"normalize_dict return tags {dict_tags}")
    if set_tags != ["set"]:
        raise ExtractError(f"normalize_set return tags {set_tags}")
    if seq_tags != ["__seen"]:
        raise ExtractError(f"_normalize_seq_func return tags {seq_tags}")
    # normalize_seq returns (type(seq).__name__, _normalize_seq_func(seq)) and is registered for (tuple, list)
    seq = find_def(tree, "normalize_seq")
    ret = [n for n in ast.walk(seq) if isinstance(n, ast.Return)]
    ok = (len(ret) == 1 and isinstance(ret[0].value, ast.Tuple) and len(ret[0].value.elts) == 2
          and ast.unparse(ret[0].value.elts[0]) == "type(seq).__name__"
          and ast.unparse(ret[0].value.elts[1]) == "_normalize_seq_func(seq)")
    if not ok:
        raise ExtractError("normalize_seq no longer returns (type(seq).__name__, _normalize_seq_func(seq))")
    deco = [ast.unparse(d) for d in seq.decorator_list]
    if deco != ["normalize_token.register((tuple, list))"]:
        raise ExtractError(f"normalize_seq registered as {deco}")
    # the sort key of dict items / set elements
    sk = find_def(tree, "_sort_key")
    ret = [n for n in ast.walk(sk) if isinstance(n, ast.Return)]
    if len(ret) != 1 or ast.unparse(ret[0].value) != "(str(obj), type(obj).__name__)":
        raise ExtractError("_sort_key no longer returns (str(obj), type(obj).__name__)")
    for fn, pat in (("normalize_dict", "sorted(d.items(), key=lambda kv: _sort_key(kv[0]))"),
                    ("normalize_set", "sorted(s, key=_sort_key)")):
        src = ast.unparse(find_def(tree, fn))
        if pat not in src:
            raise ExtractError(f"{fn} no longer sorts with {pat}")
    # ndarray normaliser: order of the ravel and shape of the returned tuple
    reg = find_def(tree, "register_numpy")
    arr = find_def(reg, "normalize_array")
    src = ast.unparse(arr)
    orders = sorted(set(n.value.value for n in ast.walk(arr)
                        if isinstance(n, ast.keyword) and n.arg == "order" and isinstance(n.value, ast.Constant)))
    if len(orders) != 1:
        raise ExtractError(f"normalize_array ravels with orders {orders}")
    rets = sorted(ast.unparse(n.value) for n in ast.walk(arr) if isinstance(n, ast.Return))
    if rets != ["(data, x.dtype, x.shape)", "(x.item(), x.dtype)", "normalize_object(x)"]:
        raise ExtractError(f"normalize_array returns {rets}")
    sep = [n.func.value.value for n in ast.walk(arr)
           if isinstance(n, ast.Call) and isinstance(n.func, ast.Attribute) and n.func.attr == "join"
           and isinstance(n.func.value, ast.Constant)]
    if sorted(sep, key=repr) != sorted(["-", b"-"], key=repr):
        raise ExtractError(f"normalize_array joins with {sep}")
    if "data = (data, hash_buffer_hex(lengths))" not in src or "lengths = np.fromiter(map(len, x.flat), dtype='i8', count=x.size)" not in src:
        raise ExtractError("normalize_array no longer hashes the element lengths of object arrays")
    out = ["namespace Dask.Generated.TokenDispatch",
           "/-- `_IDENTITY_DISPATCH` of dask/tokenize.py: classes whose normal form is the value itself -/",
           "def identityDispatch : List String := [" + ", ".join(lean_str(s) for s in ident) + "]",
           "def dictTag : String := " + lean_str("dict"),
           "def setTag : String := " + lean_str(set_tags[0]),
           "def seenTag : String := " + lean_str(seq_tags[0]),
           "/-- `normalize_seq` is registered for exactly these classes and tags with `type(seq).__name__` -/",
           "def seqClasses : List String := [" + lean_str("tuple") + ", " + lean_str("list") + "]",
           "/-- memory order used by `normalize_array` when hashing a non-object array -/",
           "def ravelOrder : String := " + lean_str(orders[0]),
           "def joinSep : String := " + lean_str("-"),
           "end Dask.Generated.TokenDispatch", ""]
    return "\n".join(out)


@table("TaskSpecIdentity")
def task_spec_identity(repo):
    """Shape of what every node class hands to tokenize (dask/_task_spec.py)."""
    tree = parse(repo, "dask/_task_spec.py")

    def returns(qual):
        fn = find_def(tree, qual)
        return [ast.unparse(n.value) for n in ast.walk(fn) if isinstance(n, ast.Return) and n.value is not None]

    want = {
        "Alias.__dask_tokenize__": ["(type(self).__name__, self.key, self.target)"],
        "DataNode.__dask_tokenize__": ["(type(self).__name__, tokenize(self.value))"],
        "Task.__dask_tokenize__": ["self._get_token()"],
        "Task.__hash__": ["hash(self._get_token())"],
        "NestedContainer.__dask_tokenize__": ["(type(self).__name__, self.klass, self._element_tokens())"],
        "NestedContainer.__hash__": ["hash(tokenize(self))"],
        "NestedContainer._element_tokens": ["tokens"],
        "Dict._element_tokens": ["sorted((tokenize(kv) for kv in batched(self.args, 2, strict=True)))"],
        "NestedContainer.to_container": ["constructor(args)"],
        "Dict.constructor": ["dict(batched(args, 2, strict=True))"],
    }
    for qual, exp in want.items():
        got = returns(qual)
        if got != exp:
            raise ExtractError(f"{qual} returns {got}, expected {exp}")
    gt = ast.unparse(find_def(tree, "Task._get_token"))
    if "tokenize((type(self).__name__, self.func, self.args, self.kwargs))" not in gt:
        raise ExtractError("Task._get_token no longer tokenizes (type name, func, args, kwargs)")
    eq = ast.unparse(find_def(tree, "GraphNode.__eq__"))
    if "type(value) is not type(self)" not in eq or "return tokenize(self) == tokenize(value)" not in eq:
        raise ExtractError("GraphNode.__eq__ is no longer `same class and same token`")
    # NestedContainer._element_tokens: tokens = [tokenize(a) for a in self.args]; sorted only `if self.klass is <k>`
    et = find_def(tree, "NestedContainer._element_tokens")
    src = ast.unparse(et)
    if "tokens = [tokenize(a) for a in self.args]" not in src:
        raise ExtractError("NestedContainer._element_tokens no longer tokenizes every argument in order")
    sorted_for = []
    for node in ast.walk(et):
        if isinstance(node, ast.If):
            t = node.test
            body = [ast.unparse(b) for b in node.body]
            if (isinstance(t, ast.Compare) and ast.unparse(t.left) == "self.klass" and len(t.ops) == 1
                    and isinstance(t.ops[0], ast.Is) and isinstance(t.comparators[0], ast.Name)
                    and body == ["tokens.sort()"] and not node.orelse):
                sorted_for.append(t.comparators[0].id)
            else:
                raise ExtractError("unexpected branch in NestedContainer._element_tokens: " + ast.unparse(t))
    if "sort" in src.replace("tokens.sort()", "", len(sorted_for)):
        raise ExtractError("NestedContainer._element_tokens sorts outside the recognised branch")
    classes = []
    for cname in ("List", "Tuple", "Set", "Dict"):
        cls = find_def(tree, cname)
        klass = None
        for st in cls.body:
            if isinstance(st, ast.Assign) and any(isinstance(t, ast.Name) and t.id == "klass" for t in st.targets) \
                    and isinstance(st.value, ast.Name):
                klass = st.value.id
        if klass is None:
            raise ExtractError(f"{cname}.klass not found")
        classes.append((cname, klass))
    out = ["namespace Dask.Generated.TaskSpecIdentity",
           "/-- container class ↦ `klass` -/",
           "def containerClasses : List (String × String) := [" + ", ".join(f"({lean_str(a)}, {lean_str(b)})" for a, b in classes) + "]",
           "/-- `klass` values for which `NestedContainer._element_tokens` sorts the element tokens -/",
           "def sortedKlasses : List String := [" + ", ".join(lean_str(k) for k in sorted_for) + "]",
           "end Dask.Generated.TaskSpecIdentity", ""]
    return "\n".join(out)


@table("NamedSchedulers")
def named_schedulers(repo):
    """`named_schedulers` of dask/base.py: scheduler name -> get function (dotted), from the dict literal and its updates."""
    tree = parse(repo, "dask/base.py")
    pairs = []

    def take(d):
        if not isinstance(d, ast.Dict):
            raise ExtractError("named_schedulers is not built from dict literals")
        for k, v in zip(d.keys, d.values):
            if not (isinstance(k, ast.Constant) and isinstance(k.value, str)):
                raise ExtractError("named_schedulers key is not a string literal")
            pairs.append((k.value, ast.unparse(v)))
    for node in ast.walk(tree):
        if isinstance(node, ast.AnnAssign) and isinstance(node.target, ast.Name) and node.target.id == "named_schedulers":
            take(node.value)
        elif isinstance(node, ast.Assign) and any(isinstance(t, ast.Name) and t.id == "named_schedulers" for t in node.targets):
            take(node.value)
        elif (isinstance(node, ast.Call) and isinstance(node.func, ast.Attribute) and node.func.attr == "update"
              and isinstance(node.func.value, ast.Name) and node.func.value.id == "named_schedulers"):
            if len(node.args) != 1:
                raise ExtractError("named_schedulers.update with unexpected arguments")
            take(node.args[0])
    if not pairs:
        raise ExtractError("named_schedulers not found")
    gs = ast.unparse(find_def(tree, "get_scheduler"))
    for pat in ("scheduler = scheduler.lower()", "if scheduler in named_schedulers:", "return named_schedulers[scheduler]",
                "if get:", "if callable(scheduler):", "isinstance(scheduler, Executor)", "if cls is not None:",
                "if not all((c.__dask_scheduler__ == get for c in collections)):"):
        if pat not in gs:
            raise ExtractError(f"get_scheduler no longer contains `{pat}`")
    out = ["namespace Dask.Generated.NamedSchedulers",
           "/-- `named_schedulers`: name ↦ get function -/",
           "def namedSchedulers : List (String × String) := [" + ", ".join(f"({lean_str(a)}, {lean_str(b)})" for a, b in pairs) + "]",
           "end Dask.Generated.NamedSchedulers", ""]
    return "\n".join(out)


fp("dask/base.py", "get_scheduler")


fp("dask/optimization.py", "default_fused_keys_renamer")
fp("dask/base.py", "get_collection_names")


@table("FusedKeyRenamer")
def fused_key_renamer(repo):
    """`default_fused_keys_renamer` of dask/optimization.py: default length limit, room reserved for the digest suffix,
    and the shape of `_enforce_max_key_limit` (the digest is taken from the FULL name, before the name is cut)."""
    tree = parse(repo, "dask/optimization.py")
    fn = find_def(tree, "default_fused_keys_renamer")
    args = fn.args
    names = [a.arg for a in args.args]
    if names != ["keys", "max_fused_key_length"] or len(args.defaults) != 1 or not isinstance(args.defaults[0], ast.Constant):
        raise ExtractError("default_fused_keys_renamer(keys, max_fused_key_length=<constant>) expected")
    default = args.defaults[0].value
    if not isinstance(default, int):
        raise ExtractError(f"default max_fused_key_length is {default!r}")
    # if max_fused_key_length: max_fused_key_length -= <reserve>
    reserve = None
    for node in fn.body:
        if (isinstance(node, ast.If) and ast.unparse(node.test) == "max_fused_key_length" and len(node.body) == 1
                and isinstance(node.body[0], ast.AugAssign) and isinstance(node.body[0].op, ast.Sub)
                and ast.unparse(node.body[0].target) == "max_fused_key_length" and isinstance(node.body[0].value, ast.Constant)):
            reserve = node.body[0].value.value
    if not isinstance(reserve, int):
        raise ExtractError("`if max_fused_key_length: max_fused_key_length -= <constant>` not found")
    enf = find_def(fn, "_enforce_max_key_limit")
    body = [n for n in enf.body if not (isinstance(n, ast.Expr) and isinstance(n.value, ast.Constant))]
    if (len(body) != 2 or not isinstance(body[0], ast.If) or not isinstance(body[1], ast.Return)
            or ast.unparse(body[1].value) != "key_name"
            or ast.unparse(body[0].test) != "max_fused_key_length and len(key_name) > max_fused_key_length" or body[0].orelse):
        raise ExtractError("_enforce_max_key_limit: `if limit and len(key_name) > limit: …; return key_name` expected")
    stmts = body[0].body
    if len(stmts) != 2 or not all(isinstance(st, ast.Assign) and len(st.targets) == 1 for st in stmts):
        raise ExtractError("_enforce_max_key_limit: two assignments (digest, cut name) expected")
    h, cut = stmts
    if ast.unparse(h.targets[0]) != "name_hash" or ast.unparse(cut.targets[0]) != "key_name":
        raise ExtractError("_enforce_max_key_limit: the digest must be taken before the name is cut")
    # the digest is a function of the full name: `key_name` occurs in it, never sliced
    uses = [n for n in ast.walk(h.value) if isinstance(n, ast.Name) and n.id == "key_name"]
    sliced = [n for n in ast.walk(h.value) if isinstance(n, ast.Subscript) and any(
        isinstance(m, ast.Name) and m.id == "key_name" for m in ast.walk(n.value))]
    if not uses or sliced:
        raise ExtractError("_enforce_max_key_limit: the digest is not computed from the full key name")
    src = ast.unparse(h.value)
    if src != "hashlib.md5(key_name.encode(errors='surrogatepass'), usedforsecurity=False).hexdigest()":
        raise ExtractError(f"_enforce_max_key_limit: unexpected digest expression {src}")
    import re
    mcut = re.fullmatch(r"f'\{key_name\[:max\(max_fused_key_length - (\d+), 0\)\]\}-\{name_hash\}'", ast.unparse(cut.value))
    if not mcut:
        raise ExtractError(f"_enforce_max_key_limit: unexpected cut expression {ast.unparse(cut.value)}")
    room = int(mcut.group(1))
    whole = ast.unparse(fn)
    for pat in ("it = reversed(keys)", "first_key = next(it)", "names = {utils.key_split(k) for k in it}",
                "names.discard(first_name)", "names = sorted(names)", "names.append(first_key)", "names.append(first_key[0])",
                "concatenated_name = '-'.join(names)", "return _enforce_max_key_limit(concatenated_name)",
                "return (_enforce_max_key_limit(concatenated_name),) + first_key[1:]"):
        if pat not in whole:
            raise ExtractError(f"default_fused_keys_renamer no longer contains `{pat}`")
    out = ["namespace Dask.Generated.FusedKeyRenamer",
           "/-- default `max_fused_key_length` -/",
           f"def defaultMaxLen : Nat := {default}",
           "/-- `max_fused_key_length -= slack`: names up to `max - slack` characters are kept as they are -/",
           f"def slack : Nat := {reserve}",
           "/-- a name that is cut keeps `max - slack - room` characters -/",
           f"def room : Nat := {room}",
           "/-- length of the digest (hex digits of md5 over the FULL name) -/",
           "def digestLen : Nat := 32",
           "end Dask.Generated.FusedKeyRenamer", ""]
    return "\n".join(out)


fp("dask/tokenize.py", "register_pandas", "_normalize_pickle", "_normalize_dataclass", "normalize_partial", "normalize_ordered_dict",
   "_normalize_pure_object", "normalize_bound_method", "normalize_builtin_function_or_method", "normalize_literal",
   "normalize_compose")


def _registrations(body, lazy):
    """(class expression, function name, lazy module) for every `normalize_token.register(...)` in a statement list"""
    out = []
    for node in body:
        if isinstance(node, ast.FunctionDef):
            for d in node.decorator_list:
                if (isinstance(d, ast.Call) and isinstance(d.func, ast.Attribute) and d.func.attr == "register"
                        and ast.unparse(d.func.value) == "normalize_token"):
                    if len(d.args) != 1 or d.keywords:
                        raise ExtractError("normalize_token.register with unexpected arguments: " + ast.unparse(d))
                    out.append((ast.unparse(d.args[0]), node.name, lazy))
                elif (isinstance(d, ast.Call) and isinstance(d.func, ast.Attribute) and d.func.attr == "register_lazy"
                      and ast.unparse(d.func.value) == "normalize_token"):
                    if len(d.args) != 1 or not isinstance(d.args[0], ast.Constant):
                        raise ExtractError("normalize_token.register_lazy with unexpected arguments")
                    out += _registrations(node.body, d.args[0].value)
        elif isinstance(node, ast.Expr) and isinstance(node.value, ast.Call):
            c = node.value
            if isinstance(c.func, ast.Attribute) and c.func.attr == "register" and ast.unparse(c.func.value) == "normalize_token":
                if len(c.args) != 2:
                    raise ExtractError("normalize_token.register(call form) with unexpected arguments")
                out.append((ast.unparse(c.args[0]), ast.unparse(c.args[1]), lazy))
    return out


@table("TokenRegistry")
def token_registry(repo):
    """every class registered with `normalize_token` in dask/tokenize.py, in source order"""
    tree = parse(repo, "dask/tokenize.py")
    regs = _registrations(tree.body, "")
    if not regs:
        raise ExtractError("no registrations found")
    # registrations hidden in other statements (loops, conditionals) would escape the list above
    n_all = sum(1 for n in ast.walk(tree) if isinstance(n, ast.Attribute) and n.attr == "register"
                and ast.unparse(n.value) == "normalize_token")
    if n_all != len(regs):
        raise ExtractError(f"{n_all} uses of normalize_token.register, {len(regs)} recognised")
    out = ["namespace Dask.Generated.TokenRegistry",
           "/-- `(class expression, normaliser, lazily registered for module)` -/",
           "def registry : List (String × String × String) := ["
           + ", ".join(f"({lean_str(a)}, {lean_str(b)}, {lean_str(c)})" for a, b, c in regs) + "]",
           "end Dask.Generated.TokenRegistry", ""]
    return "\n".join(out)
