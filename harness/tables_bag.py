"""Extractor tables / fingerprints of group bag (C48, C49, C50)."""
from tables import fp

# C50
fp("dask/bytes/core.py", "read_bytes", "read_block_from_file")
fp("dask/bag/text.py", "read_text", "file_to_blocks", "decode", "attach_path")

# C49
fp("dask/bag/random.py", "sample", "choices", "_sample_reduce", "_weighted_sampling_without_replacement", "_sample",
   "_finalize_sample", "_sample_map_partitions", "_sample_with_replacement", "_sample_with_replacement_map_partitions",
   "_geometric")
fp("dask/bag/core.py", "Bag.random_sample", "random_sample", "random_state_data_python", "Bag.reduction",
   "empty_safe_apply", "empty_safe_aggregate")
