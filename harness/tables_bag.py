"""Extractor tables / fingerprints of group bag (C48, C49, C50)."""
from tables import fp

# C50
fp("dask/bytes/core.py", "read_bytes", "read_block_from_file")
fp("dask/bag/text.py", "read_text", "file_to_blocks", "decode", "attach_path")

# C49
fp("dask/bag/random.py", "sample", "choices", "_sample_reduce", "_weighted_sampling_without_replacement", "_sample",
   "_finalize_sample", "_sample_map_partitions", "_sample_with_replacement", "_sample_with_replacement_map_partitions",
   "_geometric")
fp("dask/bag/core.py", "Bag.random_sample", "random_sample", "random_state_data_python", "Bag.reduction",
   "empty_safe_apply", "empty_safe_aggregate")

# C48
fp("dask/bag/core.py", "Bag.fold", "Bag.foldby", "Bag.frequencies", "Bag.topk", "Bag.distinct", "Bag.take", "Bag.accumulate",
   "accumulate_part", "Bag.groupby", "groupby_tasks", "groupby_disk", "partition", "collect", "make_group", "Bag.product",
   "Bag.join", "bag_zip", "concat", "from_sequence", "repartition_npartitions", "_split_partitions",
   "_repartition_from_boundaries", "split", "_reduce", "_reduce_or_initial", "merge_frequencies", "merge_distinct",
   "chunk_distinct", "safe_take", "Bag.map", "Bag.filter", "Bag.remove", "Bag.pluck", "Bag.flatten", "Bag.map_partitions")
fp("dask/bag/chunk.py", "groupby_tasks_group_hash", "foldby_combine2", "var_chunk", "var_aggregate")
# review round: newly modelled / newly tied functions
fp("dask/bag/core.py", "Bag.mean", "Bag.var", "Bag.std", "Bag.repartition", "repartition_size", "total_mem_usage",
   "Bag.to_delayed", "from_delayed", "Bag.to_dataframe", "to_dataframe", "Item.from_delayed", "Item.to_delayed",
   "lazify_task", "_count_references", "_alias_target", "lazify", "optimize", "_partition_as_data")
fp("dask/utils.py", "iter_chunks")
fp("dask/utils.py", "digit", "insert")
