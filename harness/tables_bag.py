"""Extractor tables / fingerprints of group bag (C48, C49, C50)."""
from tables import fp

# C50
fp("dask/bytes/core.py", "read_bytes", "read_block_from_file")
fp("dask/bag/text.py", "read_text", "file_to_blocks", "decode", "attach_path")
