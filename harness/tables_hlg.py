"""Extractor tables / fingerprints of group hlg (C10 C19 C25 C35).

`FuseRules`  <- dask/blockwise.py::_fuse_annotations + _can_fuse_annotations
    The rule table `annotation key -> combiner` is re-derived structurally from the AST on every run:

        xs = [a["key"] for a in args if "key" in a]
        if xs:
            annotations["key"] = <combiner>(xs)

    with the combiner recognised as
        max(xs)                                             -> Rule.max
        toolz.merge_with(max, *xs)                          -> Rule.mergeWithMax
        list(set.intersection(*[set(w) for w in xs]))       -> Rule.setIntersection
        all(xs)                                             -> Rule.all
    Anything else (min, union, any, a missing guard, a different base merge) is NOT guessed: ExtractError.
"""
from __future__ import annotations

import ast

from tables import ExtractError, find_def, fp, lean_str, parse, table

fp("dask/blockwise.py", "_get_coord_mapping", "_make_blockwise_graph", "_lol_product", "Blockwise._cull_dependencies",
   "Blockwise.cull", "Blockwise.get_output_keys", "broadcast_dimensions", "_make_dims", "rewrite_blockwise",
   "_optimize_blockwise", "optimize_blockwise", "fuse_roots", "_fuse_annotations", "_can_fuse_annotations", "blockwise")
fp("dask/highlevelgraph.py", "HighLevelGraph.cull", "Layer.cull")
fp("dask/_task_spec.py", "cull")


def _name(n):
    return n.id if isinstance(n, ast.Name) else None


def _is_call(n, fname):
    """`fname(...)` or `mod.fname(...)`"""
    if not isinstance(n, ast.Call):
        return False
    f = n.func
    return (isinstance(f, ast.Name) and f.id == fname) or (isinstance(f, ast.Attribute) and f.attr == fname)


def _collect_stmt(st):
    """`xs = [a["key"] for a in args if "key" in a]` -> (xs, key) or None"""
    if not (isinstance(st, ast.Assign) and len(st.targets) == 1 and isinstance(st.targets[0], ast.Name)):
        return None
    v = st.value
    if not (isinstance(v, ast.ListComp) and len(v.generators) == 1):
        return None
    g = v.generators[0]
    if not (_name(g.target) and _name(g.iter) == "args" and len(g.ifs) == 1):
        return None
    a = _name(g.target)
    e = v.elt
    if not (isinstance(e, ast.Subscript) and _name(e.value) == a and isinstance(e.slice, ast.Constant)
            and isinstance(e.slice.value, str)):
        return None
    key = e.slice.value
    c = g.ifs[0]
    if not (isinstance(c, ast.Compare) and len(c.ops) == 1 and isinstance(c.ops[0], ast.In)
            and isinstance(c.left, ast.Constant) and c.left.value == key and _name(c.comparators[0]) == a):
        return None
    return st.targets[0].id, key


def _combiner(expr, xs):
    """classify the right-hand side of `annotations[key] = expr`"""
    # max(xs)
    if _is_call(expr, "max") and len(expr.args) == 1 and _name(expr.args[0]) == xs and not expr.keywords:
        return "max"
    # all(xs)
    if _is_call(expr, "all") and len(expr.args) == 1 and _name(expr.args[0]) == xs and not expr.keywords:
        return "all"
    # toolz.merge_with(max, *xs)
    if (_is_call(expr, "merge_with") and len(expr.args) == 2 and _name(expr.args[0]) == "max"
            and isinstance(expr.args[1], ast.Starred) and _name(expr.args[1].value) == xs and not expr.keywords):
        return "mergeWithMax"
    # list(set.intersection(*[set(w) for w in xs]))
    if _is_call(expr, "list") and len(expr.args) == 1:
        inner = expr.args[0]
        if (isinstance(inner, ast.Call) and isinstance(inner.func, ast.Attribute) and inner.func.attr == "intersection"
                and _name(inner.func.value) == "set" and len(inner.args) == 1 and isinstance(inner.args[0], ast.Starred)):
            lc = inner.args[0].value
            if (isinstance(lc, ast.ListComp) and len(lc.generators) == 1 and not lc.generators[0].ifs
                    and _name(lc.generators[0].iter) == xs and _is_call(lc.elt, "set") and len(lc.elt.args) == 1
                    and _name(lc.elt.args[0]) == _name(lc.generators[0].target)):
                return "setIntersection"
    return None


def fuse_rules(repo):
    """[(key, combiner)] in source order + the `fusable` key set of `_can_fuse_annotations`."""
    tree = parse(repo, "dask/blockwise.py")
    fn = find_def(tree, "_fuse_annotations")
    body = [s for s in fn.body if not (isinstance(s, ast.Expr) and isinstance(s.value, ast.Constant))]
    if not (fn.args.vararg and fn.args.vararg.arg == "args" and not fn.args.args and not fn.args.kwonlyargs):
        raise ExtractError("_fuse_annotations: signature is not (*args)")
    # base: annotations = toolz.merge(*args)
    b0 = body[0]
    if not (isinstance(b0, ast.Assign) and _name(b0.targets[0]) and _is_call(b0.value, "merge")
            and len(b0.value.args) == 1 and isinstance(b0.value.args[0], ast.Starred)
            and _name(b0.value.args[0].value) == "args"):
        raise ExtractError("_fuse_annotations: base is not `annotations = toolz.merge(*args)`")
    ann = b0.targets[0].id
    last = body[-1]
    if not (isinstance(last, ast.Return) and _name(last.value) == ann):
        raise ExtractError("_fuse_annotations: does not end with `return annotations`")
    rest = body[1:-1]
    if len(rest) % 2:
        raise ExtractError("_fuse_annotations: statements do not pair up as (collect, guarded assignment)")
    rules = []
    for i in range(0, len(rest), 2):
        cs = _collect_stmt(rest[i])
        if cs is None:
            raise ExtractError(f"_fuse_annotations: statement {i + 1} is not `xs = [a[k] for a in args if k in a]`")
        xs, key = cs
        g = rest[i + 1]
        if not (isinstance(g, ast.If) and _name(g.test) == xs and not g.orelse and len(g.body) == 1):
            raise ExtractError(f"_fuse_annotations: rule for {key!r} is not guarded by `if {xs}:`")
        a = g.body[0]
        if not (isinstance(a, ast.Assign) and len(a.targets) == 1 and isinstance(a.targets[0], ast.Subscript)
                and _name(a.targets[0].value) == ann and isinstance(a.targets[0].slice, ast.Constant)
                and a.targets[0].slice.value == key):
            raise ExtractError(f"_fuse_annotations: rule for {key!r} does not assign annotations[{key!r}]")
        comb = _combiner(a.value, xs)
        if comb is None:
            raise ExtractError(f"_fuse_annotations: combiner for {key!r} not recognised: {ast.unparse(a.value)}")
        rules.append((key, comb))
    # fusable keys of _can_fuse_annotations
    fn2 = find_def(tree, "_can_fuse_annotations")
    fusable = None
    for st in ast.walk(fn2):
        if isinstance(st, ast.Assign) and _name(st.targets[0]) == "fusable" and isinstance(st.value, ast.Set):
            if all(isinstance(e, ast.Constant) and isinstance(e.value, str) for e in st.value.elts):
                fusable = sorted(e.value for e in st.value.elts)
    if fusable is None:
        raise ExtractError("_can_fuse_annotations: `fusable = {...}` literal not found")
    return rules, fusable


fp("dask/array/core.py", "broadcast_shapes", "common_blockdim", "unify_chunks", "elemwise", "is_scalar_for_elemwise",
   "_elemwise_handle_where", "_enforce_dtype", "handle_out", "map_blocks", "Array.__dask_keys__", "Array.numblocks",
   "Array.shape", "Array.chunks", "broadcast_chunks")
fp("dask/array/blockwise.py", "blockwise")
fp("dask/array/ufunc.py", "ufunc.__call__", "wrap_elemwise")
fp("dask/array/gufunc.py", "apply_gufunc", "_parse_gufunc_signature", "_validate_normalize_axes")
fp("dask/array/optimization.py", "fuse_slice", "normalize_slice", "_optimize_slices")
fp("dask/array/rechunk.py", "rechunk")


def ufunc_table(repo):
    """[(dask name, numpy name, kind)] from the module-level assignments of dask/array/ufunc.py:
        name = ufunc(np.X)            -> kind "ufunc"
        name = wrap_elemwise(np.X)    -> kind "wrap"
        a = b = ufunc(np.X)           -> both names
        name = other_name             -> alias of an already extracted entry"""
    tree = parse(repo, "dask/array/ufunc.py")
    out, by_name = [], {}
    for st in tree.body:
        if not isinstance(st, ast.Assign):
            continue
        v = st.value
        targets = [t.id for t in st.targets if isinstance(t, ast.Name)]
        if not targets:
            continue
        if (isinstance(v, ast.Call) and isinstance(v.func, ast.Name) and v.func.id in ("ufunc", "wrap_elemwise")
                and len(v.args) == 1 and isinstance(v.args[0], ast.Attribute) and _name(v.args[0].value) == "np"):
            for t in targets:
                e = (t, v.args[0].attr, "ufunc" if v.func.id == "ufunc" else "wrap")
                out.append(e)
                by_name[t] = e
        elif isinstance(v, ast.Name) and v.id in by_name:
            for t in targets:
                e = (t, by_name[v.id][1], by_name[v.id][2])
                out.append(e)
                by_name[t] = e
    if len(out) < 80:
        raise ExtractError(f"dask/array/ufunc.py: only {len(out)} ufunc assignments recognised")
    return out


@table("UfuncTable")
def _ufunc_table(repo):
    rows = ufunc_table(repo)
    lines = ["namespace Dask.Generated.UfuncTable",
             "/-- `dask.array.ufunc`: (dask name, wrapped NumPy name) -/",
             "def table : List (String × String) := ["
             + ", ".join(f"({lean_str(d)}, {lean_str(n)})" for d, n, _ in rows) + "]",
             "end Dask.Generated.UfuncTable", ""]
    return "\n".join(lines)


@table("FuseRules")
def _fuse_rules_table(repo):
    rules, fusable = fuse_rules(repo)
    lines = ["import DaskModel.Model.Annot",
             "namespace Dask.Generated.FuseRules",
             "open Dask.Annot",
             "/-- `_fuse_annotations`: annotation key ↦ combiner, in source order -/",
             "def rules : List (String × Rule) := ["
             + ", ".join(f"({lean_str(k)}, Rule.{c})" for k, c in rules) + "]",
             "/-- `_can_fuse_annotations`: the keys that may differ between fused layers -/",
             "def fusable : List String := [" + ", ".join(lean_str(k) for k in fusable) + "]",
             "end Dask.Generated.FuseRules", ""]
    return "\n".join(lines)
