"""Extractor tables / fingerprints of group stores (C17 config, C18 byte/time helpers, C51 rewrite, C53 lock)."""
from __future__ import annotations

import ast

from tables import ExtractError, fp, lean_str, parse, table

# ---------------------------------------------------------------------------------------------
# C17: dask/config.py
# ---------------------------------------------------------------------------------------------
fp("dask/config.py", "canonical_name", "update", "merge", "collect_env", "interpret_value", "get",
   "set.__init__", "set.__exit__", "set._assign", "check_deprecations", "serialize", "deserialize",
   "update_defaults", "refresh", "collect", "pop", "expand_environment_variables")


def _toplevel_value(tree, name):
    """value node of the LAST top-level `name = ...` / `name: T = ...` statement"""
    found = None
    for node in tree.body:
        if isinstance(node, ast.Assign) and len(node.targets) == 1 and isinstance(node.targets[0], ast.Name) \
                and node.targets[0].id == name:
            found = node.value
        elif isinstance(node, ast.AnnAssign) and isinstance(node.target, ast.Name) and node.target.id == name \
                and node.value is not None:
            found = node.value
    if found is None:
        raise ExtractError(f"top-level assignment to {name} not found")
    return found


@table("ConfigTables")
def config_tables(repo):
    tree = parse(repo, "dask/config.py")
    node = _toplevel_value(tree, "deprecations")
    if not isinstance(node, ast.Dict):
        raise ExtractError("dask.config.deprecations is no longer a dict literal")
    try:
        depr = ast.literal_eval(node)
    except Exception as e:
        raise ExtractError(f"dask.config.deprecations is not a literal: {e}")
    rows = []
    for k, v in depr.items():
        if not isinstance(k, str) or not (v is None or isinstance(v, str)):
            raise ExtractError("dask.config.deprecations: expected {str: str | None}")
        rows.append(f"  ({lean_str(k)}, {'none' if v is None else 'some ' + lean_str(v)})")
    body = ",\n".join(rows)
    return ("namespace Dask.Generated.ConfigTables\n\n"
            "/-- `dask.config.deprecations` (deprecated key ↦ new key, `none` = removed) -/\n"
            f"def deprecations : List (String × Option String) := [\n{body}]\n\n"
            "end Dask.Generated.ConfigTables\n")


# ---------------------------------------------------------------------------------------------
# C53 / C51
# ---------------------------------------------------------------------------------------------
fp("dask/utils.py", "SerializableLock.__init__", "SerializableLock.__getstate__", "SerializableLock.__setstate__",
   "SerializableLock.acquire", "SerializableLock.release")
fp("dask/rewrite.py", "head", "args", "Traverser.next", "Traverser.skip", "Traverser.copy", "RewriteRule.__init__",
   "RewriteRule._apply", "RuleSet.add", "RuleSet.iter_matches", "RuleSet._rewrite", "_bottom_up", "_match",
   "_process_match", "_instantiates", "_substitute", "RuleSet.rewrite", "_top_level")

@table("RewriteTables")
def rewrite_tables(repo):
    """`strategies = {"top_level": _top_level, "bottom_up": _bottom_up}` and the default of `RuleSet.rewrite(strategy=)`"""
    tree = parse(repo, "dask/rewrite.py")
    node = _toplevel_value(tree, "strategies")
    if not isinstance(node, ast.Dict):
        raise ExtractError("dask.rewrite.strategies is no longer a dict literal")
    rows = []
    for k, v in zip(node.keys, node.values):
        if not (isinstance(k, ast.Constant) and isinstance(k.value, str) and isinstance(v, ast.Name)):
            raise ExtractError("dask.rewrite.strategies: expected {str: function name}")
        rows.append((k.value, v.id))
    from tables import find_def
    fn = find_def(tree, "RuleSet.rewrite")
    names = [a.arg for a in fn.args.args]
    if names != ["self", "task", "strategy"] or len(fn.args.defaults) != 1 or \
            not (isinstance(fn.args.defaults[0], ast.Constant) and isinstance(fn.args.defaults[0].value, str)):
        raise ExtractError("RuleSet.rewrite: expected (self, task, strategy='<name>')")
    body = [n for n in fn.body if not (isinstance(n, ast.Expr) and isinstance(n.value, ast.Constant))]
    if len(body) != 1 or not isinstance(body[0], ast.Return) or ast.unparse(body[0].value) != "strategies[strategy](self, task)":
        raise ExtractError("RuleSet.rewrite: body is no longer `return strategies[strategy](self, task)`")
    return ("namespace Dask.Generated.RewriteTables\n\n"
            "/-- `dask.rewrite.strategies`: strategy name ↦ name of the function implementing it -/\n"
            "def strategies : List (String × String) := [" +
            ", ".join(f"({lean_str(k)}, {lean_str(v)})" for k, v in rows) + "]\n\n"
            "/-- default of `RuleSet.rewrite(task, strategy=…)` -/\n"
            f"def defaultStrategy : String := {lean_str(fn.args.defaults[0].value)}\n\n"
            "end Dask.Generated.RewriteTables\n")


# ---------------------------------------------------------------------------------------------
# C18: dask/utils.py  format_bytes / parse_bytes / parse_timedelta tables
# ---------------------------------------------------------------------------------------------
fp("dask/utils.py", "format_bytes", "parse_bytes", "parse_timedelta", "key_split", "natural_sort_key", "format_time",
   "typename", "funcname")


def _const_int(node):
    """int literal or a**b / a*b / a+b of int literals (the shapes used by the size tables)"""
    if isinstance(node, ast.Constant) and isinstance(node.value, int) and not isinstance(node.value, bool):
        return node.value
    if isinstance(node, ast.BinOp) and isinstance(node.op, (ast.Pow, ast.Mult, ast.Add)):
        a, b = _const_int(node.left), _const_int(node.right)
        return a ** b if isinstance(node.op, ast.Pow) else a * b if isinstance(node.op, ast.Mult) else a + b
    raise ExtractError(f"not a constant integer expression: {ast.dump(node)[:80]}")


def _const_num(node):
    if isinstance(node, ast.Constant) and isinstance(node.value, float):
        return node.value
    return _const_int(node)


def _replay_table(tree, names, main):
    """Replays, in order, the module-level statements that build the dict `main` (helper dicts in `names`):
    a dict literal of constant numbers, `X = {dictcomp}`, `X.update({dictcomp})`, `X.update(Y)`.
    Only the names in `names` and the comprehension variables k, v may occur. Anything else: ExtractError."""
    allowed = set(names) | {"k", "v"}
    ns = {}
    seen = False
    for node in tree.body:
        target = None
        if isinstance(node, ast.Assign) and len(node.targets) == 1 and isinstance(node.targets[0], ast.Name):
            target = node.targets[0].id
        elif isinstance(node, ast.Expr) and isinstance(node.value, ast.Call) and isinstance(node.value.func, ast.Attribute) \
                and isinstance(node.value.func.value, ast.Name) and node.value.func.attr == "update":
            target = node.value.func.value.id
        if target not in names:
            continue
        seen = True
        if isinstance(node, ast.Assign) and isinstance(node.value, ast.Dict):
            d = {}
            for k, v in zip(node.value.keys, node.value.values):
                if not (isinstance(k, ast.Constant) and isinstance(k.value, str)):
                    raise ExtractError(f"{target}: non-literal key")
                d[k.value] = _const_num(v)
            ns[target] = d
            continue
        for sub in ast.walk(node):
            if isinstance(sub, ast.Name) and sub.id not in allowed:
                raise ExtractError(f"{target}: unexpected name {sub.id!r} in table construction")
            if isinstance(sub, (ast.Call,)) and not isinstance(sub.func, ast.Attribute):
                raise ExtractError(f"{target}: unexpected call in table construction")
            if isinstance(sub, ast.Attribute) and sub.attr not in ("items", "lower", "upper", "update"):
                raise ExtractError(f"{target}: unexpected attribute {sub.attr!r} in table construction")
        if isinstance(node, ast.Assign) and not isinstance(node.value, ast.DictComp):
            raise ExtractError(f"{target}: expected a dict comprehension")
        code = compile(ast.Module(body=[node], type_ignores=[]), "<table>", "exec")
        exec(code, {"__builtins__": {}}, ns)  # only dict/str operations on the literals above can run here
    if not seen or main not in ns:
        raise ExtractError(f"table {main} not found")
    return ns[main]


def _format_bytes_shape(tree):
    from tables import find_def
    fn = find_def(tree, "format_bytes")
    body = [n for n in fn.body if not (isinstance(n, ast.Expr) and isinstance(n.value, ast.Constant))]
    if len(body) != 2 or not isinstance(body[0], ast.For) or not isinstance(body[1], ast.Return):
        raise ExtractError("format_bytes: expected `for prefix, k in (...): if ...: return ...` then `return f'{n} B'`")
    loop, last = body
    if not (isinstance(loop.iter, ast.Tuple) and all(isinstance(e, ast.Tuple) and len(e.elts) == 2 for e in loop.iter.elts)):
        raise ExtractError("format_bytes: prefix table is not a tuple of pairs")
    prefixes = []
    for e in loop.iter.elts:
        if not (isinstance(e.elts[0], ast.Constant) and isinstance(e.elts[0].value, str)):
            raise ExtractError("format_bytes: prefix is not a string literal")
        prefixes.append((e.elts[0].value, _const_int(e.elts[1])))
    if len(loop.body) != 1 or not isinstance(loop.body[0], ast.If) or loop.body[0].orelse:
        raise ExtractError("format_bytes: loop body is not a single `if`")
    test = loop.body[0].test
    ok = (isinstance(test, ast.Compare) and len(test.ops) == 1 and isinstance(test.ops[0], ast.GtE)
          and isinstance(test.left, ast.Name) and test.left.id == "n"
          and isinstance(test.comparators[0], ast.BinOp) and isinstance(test.comparators[0].op, ast.Mult)
          and isinstance(test.comparators[0].left, ast.Name) and test.comparators[0].left.id == "k"
          and isinstance(test.comparators[0].right, ast.Constant) and isinstance(test.comparators[0].right.value, float))
    if not ok:
        raise ExtractError("format_bytes: band test is not `n >= k * <float>`")
    factor = test.comparators[0].right.value
    ret = loop.body[0].body
    if len(ret) != 1 or not isinstance(ret[0], ast.Return) or not isinstance(ret[0].value, ast.JoinedStr):
        raise ExtractError("format_bytes: band branch is not `return f'...'`")
    parts = ret[0].value.values
    ok = (len(parts) == 4 and isinstance(parts[0], ast.FormattedValue) and isinstance(parts[0].value, ast.BinOp)
          and isinstance(parts[0].value.op, ast.Div) and isinstance(parts[0].format_spec, ast.JoinedStr)
          and isinstance(parts[1], ast.Constant) and parts[1].value == " "
          and isinstance(parts[2], ast.FormattedValue) and isinstance(parts[2].value, ast.Name) and parts[2].value.id == "prefix"
          and isinstance(parts[3], ast.Constant) and isinstance(parts[3].value, str))
    if not ok:
        raise ExtractError("format_bytes: band branch is not f'{n / k:.<d>f} {prefix}<unit>'")
    spec = "".join(p.value for p in parts[0].format_spec.values if isinstance(p, ast.Constant))
    import re
    m = re.fullmatch(r"\.(\d+)f", spec)
    if not m:
        raise ExtractError(f"format_bytes: unexpected format spec {spec!r}")
    lp = last.value
    ok = (isinstance(lp, ast.JoinedStr) and len(lp.values) == 2 and isinstance(lp.values[0], ast.FormattedValue)
          and isinstance(lp.values[0].value, ast.Name) and lp.values[0].value.id == "n" and lp.values[0].format_spec is None
          and isinstance(lp.values[1], ast.Constant))
    if not ok:
        raise ExtractError("format_bytes: fallback is not f'{n} <unit>'")
    return prefixes, factor, int(m.group(1)), parts[3].value, lp.values[1].value


def _ratio(v):
    if isinstance(v, float):
        n, d = v.as_integer_ratio()
        if n < 0:
            raise ExtractError("negative multiplier")
        return n, d
    return int(v), 1


@table("ByteTables")
def byte_tables(repo):
    tree = parse(repo, "dask/utils.py")
    prefixes, factor, decimals, unit, plain = _format_bytes_shape(tree)
    fnum, fden = factor.as_integer_ratio()
    byte_sizes = _replay_table(tree, ["byte_sizes"], "byte_sizes")
    td = _replay_table(tree, ["timedelta_sizes", "tds2"], "timedelta_sizes")
    if not all(isinstance(v, int) and v > 0 for v in byte_sizes.values()):
        raise ExtractError("byte_sizes: expected positive integer multipliers")
    out = ["namespace Dask.Generated.ByteTables\n",
           "/-- the `(prefix, k)` table of `format_bytes`, in the order it is scanned -/",
           "def formatPrefixes : List (String × Nat) := [" +
           ", ".join(f"({lean_str(p)}, {k})" for p, k in prefixes) + "]\n",
           f"/-- the band factor `{factor!r}` of `n >= k * {factor!r}` as the exact value of that binary64 number -/",
           f"def factorNum : Nat := {fnum}", f"def factorDen : Nat := {fden}\n",
           "/-- number of decimals of the `f` format spec, unit suffix, and the suffix of the plain branch -/",
           f"def formatDecimals : Nat := {decimals}", f"def formatUnit : String := {lean_str(unit)}",
           f"def formatPlainSuffix : String := {lean_str(plain)}\n",
           "/-- `dask.utils.byte_sizes` after its three construction statements (lower-cased unit ↦ multiplier) -/",
           "def byteSizes : List (String × Nat) := [\n" +
           ",\n".join(f"  ({lean_str(k)}, {v})" for k, v in byte_sizes.items()) + "]\n",
           "/-- `dask.utils.timedelta_sizes` (unit ↦ multiplier as the exact ratio num/den of the int / binary64 value) -/",
           "def timedeltaSizes : List (String × (Nat × Nat)) := [\n" +
           ",\n".join("  ({}, ({}, {}))".format(lean_str(k), *_ratio(v)) for k, v in td.items()) + "]\n",
           "end Dask.Generated.ByteTables\n"]
    return "\n".join(out)
