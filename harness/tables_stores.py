"""Extractor tables / fingerprints of group stores (C17 config, C18 byte/time helpers, C51 rewrite, C53 lock)."""
from __future__ import annotations

import ast

from tables import ExtractError, fp, lean_str, parse, table

# ---------------------------------------------------------------------------------------------
# C17: dask/config.py
# ---------------------------------------------------------------------------------------------
fp("dask/config.py", "canonical_name", "update", "merge", "collect_env", "interpret_value", "get",
   "set.__init__", "set.__exit__", "set._assign", "check_deprecations", "serialize", "deserialize")


def _toplevel_value(tree, name):
    """value node of the LAST top-level `name = ...` / `name: T = ...` statement"""
    found = None
    for node in tree.body:
        if isinstance(node, ast.Assign) and len(node.targets) == 1 and isinstance(node.targets[0], ast.Name) \
                and node.targets[0].id == name:
            found = node.value
        elif isinstance(node, ast.AnnAssign) and isinstance(node.target, ast.Name) and node.target.id == name \
                and node.value is not None:
            found = node.value
    if found is None:
        raise ExtractError(f"top-level assignment to {name} not found")
    return found


@table("ConfigTables")
def config_tables(repo):
    tree = parse(repo, "dask/config.py")
    node = _toplevel_value(tree, "deprecations")
    if not isinstance(node, ast.Dict):
        raise ExtractError("dask.config.deprecations is no longer a dict literal")
    try:
        depr = ast.literal_eval(node)
    except Exception as e:
        raise ExtractError(f"dask.config.deprecations is not a literal: {e}")
    rows = []
    for k, v in depr.items():
        if not isinstance(k, str) or not (v is None or isinstance(v, str)):
            raise ExtractError("dask.config.deprecations: expected {str: str | None}")
        rows.append(f"  ({lean_str(k)}, {'none' if v is None else 'some ' + lean_str(v)})")
    body = ",\n".join(rows)
    return ("namespace Dask.Generated.ConfigTables\n\n"
            "/-- `dask.config.deprecations` (deprecated key ↦ new key, `none` = removed) -/\n"
            f"def deprecations : List (String × Option String) := [\n{body}]\n\n"
            "end Dask.Generated.ConfigTables\n")
