"""Extractor tables / fingerprints of group graph (C06 C07 C08 C09 C16)."""
from tables import fp

# C07
fp("dask/core.py", "_toposort", "toposort", "getcycle", "isdag", "reverse_dict")

# C08
fp("dask/_task_spec.py", "convert_legacy_task", "convert_legacy_graph", "Task.__call__", "Task.__init__", "Alias.__call__",
   "DataNode.__call__", "NestedContainer.__init__", "NestedContainer.to_container", "Dict.constructor", "Dict.__init__",
   "Task.__getstate__", "Task.__setstate__", "NestedContainer.__getstate__", "NestedContainer.__setstate__",
   "execute_graph", "_identity_cast", "GraphNode._verify_values")
fp("dask/core.py", "get", "keys_in_tasks", "get_dependencies")

# C09
fp("dask/optimization.py", "cull", "inline", "inline_functions", "fuse_linear", "fuse", "functions_of",
   "default_fused_keys_renamer", "default_fused_linear_keys_renamer")
fp("dask/core.py", "subs")
fp("dask/_task_spec.py", "cull", "fuse_linear_task_spec", "resolve_aliases", "GraphNode.fuse", "Task.substitute",
   "Alias.substitute", "NestedContainer.substitute", "Dict.substitute", "TaskRef.substitute", "DataNode.substitute",
   "_execute_subgraph")

# C06
fp("dask/order.py", "order", "_connecting_to_roots", "ndependencies")

# C16
fp("dask/graph_manipulation.py", "checkpoint", "_checkpoint_one", "_build_map_layer", "bind", "_bind_one", "clone", "wait_on",
   "chunks.bind", "chunks.checkpoint")
fp("dask/highlevelgraph.py", "Layer.clone")
fp("dask/blockwise.py", "Blockwise.clone")
fp("dask/base.py", "clone_key")
