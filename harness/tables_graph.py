"""Extractor tables / fingerprints of group graph (C06 C07 C08 C09 C16)."""
from tables import fp

# C07
fp("dask/core.py", "_toposort", "toposort", "getcycle", "isdag", "reverse_dict")

# C08
fp("dask/_task_spec.py", "convert_legacy_task", "convert_legacy_graph", "Task.__call__", "Task.__init__", "Alias.__call__",
   "DataNode.__call__", "NestedContainer.__init__", "NestedContainer.to_container", "Dict.constructor", "Dict.__init__",
   "Task.__getstate__", "Task.__setstate__", "NestedContainer.__getstate__", "NestedContainer.__setstate__",
   "execute_graph", "_identity_cast", "GraphNode._verify_values")
fp("dask/core.py", "get", "keys_in_tasks", "get_dependencies")

# C09
fp("dask/optimization.py", "cull", "inline", "inline_functions", "fuse_linear", "fuse", "functions_of",
   "default_fused_keys_renamer", "default_fused_linear_keys_renamer")
fp("dask/core.py", "subs")
fp("dask/_task_spec.py", "cull", "fuse_linear_task_spec", "resolve_aliases", "GraphNode.fuse", "Task.substitute",
   "Alias.substitute", "NestedContainer.substitute", "Dict.substitute", "TaskRef.substitute", "DataNode.substitute",
   "_execute_subgraph")

# C06
fp("dask/order.py", "order", "_connecting_to_roots", "ndependencies")

# C16
fp("dask/graph_manipulation.py", "checkpoint", "_checkpoint_one", "_build_map_layer", "bind", "_bind_one", "clone", "wait_on",
   "chunks.bind", "chunks.checkpoint")
fp("dask/highlevelgraph.py", "Layer.clone")
fp("dask/blockwise.py", "Blockwise.clone")
fp("dask/base.py", "clone_key")


# ---------------------------------------------------------------------------------------------
# C08: slot lists used by Task.__getstate__/__setstate__ (get_all_slots = sorted(set(slots over the mro)))
# ---------------------------------------------------------------------------------------------
import ast as _ast

from tables import ExtractError, lean_str, parse, table


def _class_slots(tree, name):
    for node in tree.body:
        if isinstance(node, _ast.ClassDef) and node.name == name:
            has = any(isinstance(s, _ast.Assign) and any(isinstance(t, _ast.Name) and t.id == "__slots__" for t in s.targets)
                      and isinstance(s.value, _ast.Call) and getattr(s.value.func, "id", None) == "tuple"
                      and len(s.value.args) == 1 and getattr(s.value.args[0], "id", None) == "__annotations__"
                      for s in node.body)
            ann = [s.target.id for s in node.body if isinstance(s, _ast.AnnAssign) and isinstance(s.target, _ast.Name)]
            bases = [b.id for b in node.bases if isinstance(b, _ast.Name)]
            if not has:
                if ann:
                    raise ExtractError(f"class {name}: annotations but no `__slots__ = tuple(__annotations__)`")
                return [], bases
            return ann, bases
    raise ExtractError(f"class {name} not found in dask/_task_spec.py")


@table("TaskSpecSlots")
def task_spec_slots(repo):
    tree = parse(repo, "dask/_task_spec.py")
    known = {}

    def all_slots(name, seen=()):
        if name in ("Iterable", "Mapping", "MutableMapping", "Container", "object"):
            return set()
        if name in seen:
            raise ExtractError("cyclic class hierarchy")
        own, bases = known.setdefault(name, _class_slots(tree, name))
        out = set(own)
        for b in bases:
            out |= all_slots(b, seen + (name,))
        return out
    rows = []
    for cls in ("Task", "NestedContainer", "List", "Tuple", "Set", "Dict"):
        sl = sorted(all_slots(cls))
        rows.append(f"def slots{cls} : List String := [" + ", ".join(lean_str(x) for x in sl) + "]")
    # shape of NestedContainer.__getstate__/__setstate__: the kwarg that is dropped and restored
    from tables import find_def
    gs = find_def(tree, "NestedContainer.__getstate__")
    dropped = [n.args[0].value for n in _ast.walk(gs) if isinstance(n, _ast.Call) and isinstance(n.func, _ast.Attribute)
               and n.func.attr == "pop" and n.args and isinstance(n.args[0], _ast.Constant)]
    ss = find_def(tree, "NestedContainer.__setstate__")
    restored = [n.slice.value for n in _ast.walk(ss) if isinstance(n, _ast.Subscript) and isinstance(n.slice, _ast.Constant)]
    if dropped != ["constructor"] or restored != ["constructor"]:
        raise ExtractError(f"NestedContainer state handling changed: pops {dropped}, restores {restored}")
    return ("namespace Dask.Generated.TaskSpecSlots\n"
            "/-- `cls.get_all_slots()` = sorted(set(__slots__ over the mro)) -/\n" + "\n".join(rows) + "\n"
            "/-- the kwarg `NestedContainer.__getstate__` drops and `__setstate__` restores -/\n"
            f"def droppedKwarg : String := {lean_str(dropped[0])}\n"
            "end Dask.Generated.TaskSpecSlots\n")
