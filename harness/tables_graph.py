"""Extractor tables / fingerprints of group graph (C06 C07 C08 C09 C16)."""
from tables import fp

# C07
fp("dask/core.py", "_toposort", "toposort", "getcycle", "isdag", "reverse_dict")
