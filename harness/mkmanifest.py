"""Regenerates MANIFEST.json from the metadata of harness/props/cNN.py (run after adding a property)."""
import importlib
import json
import os
import sys

HERE = os.path.dirname(os.path.abspath(__file__))
VERIF = os.path.dirname(HERE)
sys.path.insert(0, HERE)

props = [json.loads(l) for l in open(os.path.join(VERIF, "properties.jsonl"))]
na_path = os.path.join(HERE, "not_applicable.json")
na_reasons = json.load(open(na_path)) if os.path.exists(na_path) else {}
checks, na, engines = [], [], {}
for p in props:
    pid = p["id"]
    path = os.path.join(HERE, "props", pid.lower() + ".py")
    ready = os.path.exists(path) and "\nREADY = True" in open(path).read()
    if not ready or pid in na_reasons:
        na.append({"property_id": pid, "reason": na_reasons.get(pid, "check not built yet (see DESIGN.md section 5 for the plan)")})
        continue
    m = importlib.import_module("props." + pid.lower())
    engines.setdefault(m.DRIVER, []).append(pid)
    checks.append({
        "property_id": pid,
        "quick_cmd": f"./check {pid} --tier quick",
        "thorough_cmd": f"./check {pid} --tier thorough",
        "evidence_file": f"evidence/{pid}.json",
        "replay_cmd_template": f"./check {pid} --replay {{path}}",
        "engine": m.DRIVER,
        "level_claimed": {
            "category": "proof",
            "text": getattr(m, "LEVEL_TEXT", "Lean 4 theorems about a hand-written model of the anchored logic, tied to /repo by a differential correspondence check on every run."),
            "design_ref": getattr(m, "DESIGN_REF", f"DESIGN.md section 5, {pid}"),
        },
        "level_note": getattr(m, "LEVEL_NOTE", "Trusted: Lean kernel + standard axioms; the correspondence harness; CPython/NumPy/pandas as oracles."),
        "technique": getattr(m, "TECHNIQUE", "Lean 4 proof over an executable model + differential correspondence with the implementation"),
    })
manifest = {
    "version": 1,
    "setup_cmd": "./setup.sh",
    "hooks": {
        "guard": "DASK_VERIF",
        "enable": "DASK_VERIF=1 in the environment of the check (set by harness/core.py); no source hooks are currently installed",
        "baseline_off_cmd": "cd /repo && env -u DASK_VERIF /venv/bin/python -m pytest -ra -q -p no:cacheprovider --timeout=900 --continue-on-collection-errors",
        "source_commits": json.load(open(os.path.join(HERE, "source_commits.json"))) if os.path.exists(os.path.join(HERE, "source_commits.json")) else [],
        "add_only": True,
    },
    "engines": [{"name": k, "path": f"lean/Drivers/{k[3:]}.lean", "serves_properties": v,
                 "kind_free_text": "native Lean 4 executable: the executable model behind a line protocol; theorems in lean/DaskModel/Props"} for k, v in sorted(engines.items())],
    "checks": checks,
    "not_applicable": na,
    "notes": "Every check: extractor -> lake build of the property's theorem modules + driver -> axiom audit -> corpus -> function-level and API-level correspondence -> failing-input search when anything is red. See DESIGN.md.",
}
json.dump(manifest, open(os.path.join(VERIF, "MANIFEST.json"), "w"), indent=1)
print(f"{len(checks)} checks, {len(na)} not claimed")
