"""Extractor tables / fingerprints of group chunks (C23, C24, C27, C34)."""
from tables import fp

fp("dask/array/core.py", "normalize_chunks", "auto_chunks", "blockdims_from_blockshape",
   "_convert_int_chunk_to_tuple", "round_to", "_compute_multiplier")
fp("dask/array/rechunk.py", "cumdims_label", "_breakpoints", "_intersect_1d", "old_to_new", "intersect_chunks",
   "rechunk", "plan_rechunk", "divide_to_width", "merge_to_number", "find_merge_rechunk",
   "find_split_rechunk", "estimate_graph_size", "_compute_rechunk", "_balance_chunksizes")
fp("dask/array/creation.py", "arange", "linspace", "eye", "diag", "diagonal", "tri", "indices", "meshgrid", "fromfunction")
fp("dask/array/chunk.py", "arange", "linspace")
fp("dask/array/wrap.py", "_parse_wrap_args", "wrap_func_shape_as_first_arg", "wrap_func_like", "full", "full_like")
fp("dask/array/reshape.py", "reshape_rechunk", "_calc_lower_dimension_chunks", "_smooth_chunks", "_cal_max_chunk_size",
   "expand_tuple", "contract_tuple", "reshape")
fp("dask/array/core.py", "concatenate", "stack", "block")
fp("dask/array/creation.py", "repeat", "tile", "pad", "pad_edge", "pad_reuse", "pad_stats", "get_pad_shapes_chunks", "expand_pad_value")
fp("dask/array/routines.py", "flip", "rot90", "roll", "diff", "tril", "triu", "take", "squeeze", "expand_dims", "transpose", "swapaxes")
fp("dask/array/_shuffle.py", "shuffle", "_shuffle", "_calculate_new_chunksizes", "_rechunk_other_dimensions")
fp("dask/array/routines.py", "_bincount_agg", "bincount", "digitize", "_searchsorted_block", "searchsorted", "_block_hist",
   "histogram", "histogram2d", "histogramdd", "_unique_internal", "unique", "isin", "_isin_kernel", "argwhere", "nonzero",
   "flatnonzero", "count_nonzero", "unravel_index", "ravel_multi_index", "aligned_coarsen_chunks", "coarsen", "compress", "extract")
