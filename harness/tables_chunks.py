"""Extractor tables / fingerprints of group chunks (C23, C24, C27, C34)."""
from tables import fp

fp("dask/array/core.py", "normalize_chunks", "auto_chunks", "blockdims_from_blockshape",
   "_convert_int_chunk_to_tuple", "round_to", "_compute_multiplier")
fp("dask/array/rechunk.py", "cumdims_label", "_breakpoints", "_intersect_1d", "old_to_new", "intersect_chunks",
   "rechunk", "plan_rechunk", "divide_to_width", "merge_to_number", "find_merge_rechunk",
   "find_split_rechunk", "estimate_graph_size", "_compute_rechunk", "_balance_chunksizes")
fp("dask/array/creation.py", "arange", "linspace", "eye", "diag", "diagonal", "tri", "indices", "meshgrid", "fromfunction")
fp("dask/array/chunk.py", "arange", "linspace")
fp("dask/array/chunk.py", "arange_block", "linspace_block")   # C34: the per-block functions since the arange/linspace repairs
fp("dask/array/wrap.py", "_parse_wrap_args", "wrap_func_shape_as_first_arg", "wrap_func_like", "full", "full_like")
fp("dask/array/creation.py", "_get_like_function_shapes_chunks", "empty_like", "ones_like", "zeros_like", "full_like")   # C34 extension: Model/CreationLike.lean
fp("dask/array/reshape.py", "reshape_rechunk", "_calc_lower_dimension_chunks", "_smooth_chunks", "_cal_max_chunk_size",
   "expand_tuple", "contract_tuple", "reshape")
fp("dask/array/core.py", "concatenate", "stack", "block")
fp("dask/array/creation.py", "repeat", "tile", "pad", "pad_edge", "pad_reuse", "pad_stats", "get_pad_shapes_chunks", "expand_pad_value")
fp("dask/array/routines.py", "flip", "rot90", "roll", "diff", "tril", "triu", "take", "squeeze", "expand_dims", "transpose", "swapaxes")
fp("dask/array/_shuffle.py", "shuffle", "_shuffle", "_calculate_new_chunksizes", "_rechunk_other_dimensions")
# C24 review round: functions newly inside the model
fp("dask/array/_shuffle.py", "_validate_indexer", "concatenate_arrays", "_getitem")
fp("dask/array/slicing.py", "take")
fp("dask/array/core.py", "broadcast_to")
fp("dask/array/routines.py", "_take_dask_array_from_numpy")
fp("dask/array/numpy_compat.py", "moveaxis")
fp("dask/array/creation.py", "_pad_reuse_pieces", "tri")
fp("dask/array/routines.py", "_bincount_agg", "bincount", "digitize", "_searchsorted_block", "searchsorted", "_block_hist",
   "histogram", "histogram2d", "histogramdd", "_unique_internal", "unique", "isin", "_isin_kernel", "argwhere", "nonzero",
   "flatnonzero", "count_nonzero", "unravel_index", "ravel_multi_index", "aligned_coarsen_chunks", "coarsen", "compress", "extract")
fp("dask/array/routines.py", "_partition", "_block_histogramdd_rect", "_block_histogramdd_multiarg", "_unravel_index_kernel",
   "isnonzero", "_linspace")
fp("dask/array/chunk.py", "coarsen")


# ---------------------------------------------------------------------------------------------
# C24 (_shuffle) / C23 (auto_chunks): array.chunk-size-tolerance as an exact fraction
# ---------------------------------------------------------------------------------------------
import os as _os
import re as _re
from fractions import Fraction as _Fraction

from tables import ExtractError, table


@table("ChunkTolerance")
def chunk_tolerance(repo):
    """`array: chunk-size-tolerance: 1.25` of dask/dask.yaml, as numerator/denominator"""
    path = _os.path.join(repo, "dask", "dask.yaml")
    with open(path) as f:
        text = f.read()
    m = _re.search(r"(?m)^array:\s*\n((?:[ \t]+.*\n|\s*\n)+)", text)
    if not m:
        raise ExtractError("dask.yaml: top-level `array:` section not found")
    m2 = _re.search(r"(?m)^[ \t]+chunk-size-tolerance:\s*([0-9]+(?:\.[0-9]+)?)\s*(?:#.*)?$", m.group(1))
    if not m2:
        raise ExtractError("dask.yaml: array.chunk-size-tolerance is not a plain decimal literal")
    fr = _Fraction(m2.group(1))
    if fr < 1:
        raise ExtractError("array.chunk-size-tolerance < 1")
    return ("namespace Dask.Generated.ChunkTolerance\n\n"
            f"/-- `array.chunk-size-tolerance` = {m2.group(1)} (dask/dask.yaml) as a fraction -/\n"
            f"def tolNum : Nat := {fr.numerator}\n"
            f"def tolDen : Nat := {fr.denominator}\n\n"
            "/-- the tolerance is at least one (what `_shuffle`'s grouping loop relies on) -/\n"
            "theorem tol_ge_one : tolDen ≤ tolNum := by decide\n\n"
            "theorem tolDen_pos : 0 < tolDen := by decide\n\n"
            "end Dask.Generated.ChunkTolerance\n")
