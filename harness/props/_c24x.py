"""C24 extension — da.pad(mode="edge") (creation.py::pad_edge) vs Model/PadEdge.lean (Props/C24xPadEdge.lean).

Section `edge`: 1-d — the list of blocks of the real result (chunks and values) vs `padEdgeBlocks`, np.pad vs `npPadEdge`,
raising cases (empty axis, non-zero width) on all three sides; 2-d — the real result vs `padEdge2` (the loop over both
axes with the array's column chunks) and vs `npPadEdge2`, the chunks of every axis vs the one-axis chunk plan."""
from __future__ import annotations

from sexp import Sym

from props._chunks_util import comps, rand_comp, rand_comp_zeros


def _arr(shape, seed=0):
    import numpy as np
    n = int(np.prod(shape)) if len(shape) else 1
    return ((np.arange(n, dtype="i8") * 7 + seed) % 31 - 5).reshape(shape)


def _dec(ans):
    """`(ok blocks)` / `(raised)` -> list / "raised" """
    if isinstance(ans, list) and ans and ans[0] == Sym("ok"):
        return ans[1]
    if isinstance(ans, list) and ans and ans[0] == Sym("raised"):
        return "raised"
    raise ValueError(f"unexpected answer {ans!r}")


def _plan_chunks(cs, l, r):
    return ([l] if l else []) + list(cs) + ([r] if r else [])


def _split(xs, cs):
    out, s = [], 0
    for c in cs:
        out.append(xs[s:s + c])
        s += c
    return out


def case_edge(ctx, inp):
    import numpy as np
    import dask.array as da
    if inp["kind"] == "1d":
        cs, l, r = inp["cs"], inp["l"], inp["r"]
        x = _arr((sum(cs),), inp.get("seed", 0))
        d = da.from_array(x, chunks=(tuple(cs),))
        plan, spec = (_dec(a) for a in ctx.lean(Sym("pad_edge"), _split(x.tolist(), cs), l, r))
        try:
            e = np.pad(x, (l, r), mode="edge")
        except ValueError:
            e = None
        ctx.eq("np.pad(mode=edge) vs npPadEdge", spec if spec == "raised" else spec[0], "raised" if e is None else e.tolist())
        try:
            res = da.pad(d, (l, r), mode="edge")
        except ValueError as ex:
            res = None
            if e is not None:
                ctx.fail("pad(edge): dask raised ValueError, NumPy did not",
                         sig=("pad:edge:empty-array-several-blocks:zero-width:ValueError" if x.size == 0 and l == 0 and r == 0 else None),
                         observed=str(ex)[:200], expected=e.tolist())
                return
        ctx.eq("pad_edge raises / does not raise vs padEdgeBlocks", "raised" if plan == "raised" else "ok", "raised" if res is None else "ok")
        if res is None:
            ctx.branch("edge:1d:raised-empty-axis")
            return
        if plan == "raised":
            return
        if e is None:
            ctx.fail("pad(edge): NumPy raises (empty axis, non-zero width), dask returned an array", observed=list(res.shape))
            return
        g = np.asarray(res.compute(scheduler="sync"))
        if g.shape != e.shape or g.dtype != e.dtype or not np.array_equal(g, e):
            ctx.fail("pad(edge) 1-d: result differs from NumPy", observed=g.tolist(), expected=e.tolist())
            return
        real = [np.asarray(res.blocks[i].compute(scheduler="sync")).tolist() for i in range(len(res.chunks[0]))]
        ctx.eq("pad(edge) 1-d: chunks vs the proved chunk plan", list(res.chunks[0]), _plan_chunks(cs, l, r))
        ctx.eq("pad(edge) 1-d: the list of blocks vs padEdgeBlocks", plan, real)
        tag = "edge:1d"
        if l == 0 and r == 0:
            tag += ":no-pad"
        elif l == 0 or r == 0:
            tag += ":one-side"
        ctx.branch(tag)
        if 0 in cs:
            ctx.branch("edge:1d:zero-length-chunk" + (":at-the-edge" if cs[0] == 0 or cs[-1] == 0 else ""))
        if sum(cs) == 1:
            ctx.branch("edge:1d:single-element")
        return
    # ---- 2-d ----
    rc, cc, (l0, r0), (l1, r1) = inp["rc"], inp["cc"], inp["w0"], inp["w1"]
    x = _arr((sum(rc), sum(cc)), inp.get("seed", 0))
    d = da.from_array(x, chunks=(tuple(rc), tuple(cc)))
    row_blocks = _split(x.tolist(), rc)
    plan, spec = (_dec(a) for a in ctx.lean(Sym("pad_edge2"), row_blocks, l0, r0, cc, l1, r1))
    try:
        e = np.pad(x, ((l0, r0), (l1, r1)), mode="edge")
    except ValueError:
        e = None
    ctx.eq("np.pad 2-d (mode=edge) vs npPadEdge2", spec, "raised" if e is None else e.tolist())
    try:
        res = da.pad(d, ((l0, r0), (l1, r1)), mode="edge")
    except ValueError as ex:
        res = None
        if e is not None:
            ctx.fail("pad(edge) 2-d: dask raised ValueError, NumPy did not", observed=str(ex)[:200], expected=e.tolist())
            return
    ctx.eq("pad_edge 2-d raises / does not raise vs padEdge2", "raised" if plan == "raised" else "ok", "raised" if res is None else "ok")
    if e is None:
        if res is not None:
            ctx.fail("pad(edge) 2-d: NumPy raises (empty axis, non-zero width), dask returned an array", observed=list(res.shape))
        ctx.branch("edge:2d:raised-empty-axis")
        return
    if res is None or plan == "raised":
        return
    g = np.asarray(res.compute(scheduler="sync"))
    if g.shape != e.shape or g.dtype != e.dtype or not np.array_equal(g, e):
        ctx.fail("pad(edge) 2-d: result differs from NumPy", observed=g.tolist(), expected=e.tolist())
        return
    ctx.eq("pad(edge) 2-d: values vs padEdge2 (the loop over both axes)", plan, g.tolist())
    want = [_plan_chunks(rc, l0, r0), _plan_chunks(cc, l1, r1)]
    got = [list(c) for c in res.chunks]
    if x.size == 0:
        # concatenate keeps zero-width pads when every input is empty: compare without the zero-length chunks
        want, got = [[c for c in w if c] for w in want], [[c for c in w if c] for w in got]
    ctx.eq("pad(edge) 2-d: chunks of both axes vs the proved one-axis chunk plan", got, want)
    # every block of the real result is the corresponding window of the plan
    if len(res.chunks[0]) * len(res.chunks[1]) <= 36:
        r0s = 0
        for i, a in enumerate(res.chunks[0]):
            c0s = 0
            for j, b in enumerate(res.chunks[1]):
                blk = np.asarray(res.blocks[i, j].compute(scheduler="sync"))
                if blk.shape != (a, b) or not np.array_equal(blk, e[r0s:r0s + a, c0s:c0s + b]):
                    ctx.fail("pad(edge) 2-d: a block of the result is not the window its chunks declare",
                             observed=[i, j, blk.tolist()], expected=e[r0s:r0s + a, c0s:c0s + b].tolist())
                    return
                c0s += b
            r0s += a
    nz = sum(1 for w in (l0, r0, l1, r1) if w)
    ctx.branch("edge:2d:" + ("corner" if (l0 or r0) and (l1 or r1) else "one-axis" if nz else "no-pad"))
    if 0 in rc or 0 in cc:
        ctx.branch("edge:2d:zero-length-chunk")


def gen_edge(ctx):
    rng = ctx.rng
    # regression (fixed 4c1db67): an empty array in several empty blocks, zero widths
    yield "edge", {"kind": "1d", "cs": [0, 0], "l": 0, "r": 0}
    yield "edge", {"kind": "1d", "cs": [0, 0], "l": 1, "r": 0}
    yield "edge", {"kind": "1d", "cs": [0], "l": 0, "r": 2}
    yield "edge", {"kind": "1d", "cs": [0, 1, 0], "l": 2, "r": 2}
    yield "edge", {"kind": "2d", "rc": [1, 0, 1], "cc": [0, 0], "w0": [1, 2], "w1": [0, 0]}
    # every chunking of n <= 3 (5 thorough) with zero-length chunks inserted at either end, widths 0..2
    top = 3 if not ctx.thorough() else 5
    for n in range(1, top + 1):
        for cs in comps(n):
            for pre, post in ([(0, 0), (1, 0), (0, 1)] if not ctx.thorough() else [(0, 0), (1, 0), (0, 1), (1, 1), (2, 0)]):
                full = [0] * pre + list(cs) + [0] * post
                for l, r in [(0, 0), (2, 0), (0, 1), (1, 2)]:
                    if (pre or post) and (l, r) == (0, 0):
                        continue
                    yield "edge", {"kind": "1d", "cs": full, "l": l, "r": r}
    for _ in range(ctx.n(60, 900)):
        n = rng.randint(0, 9) if rng.random() < 0.12 else rng.randint(1, 9)
        cs = rand_comp_zeros(rng, n) if rng.random() < 0.35 or n == 0 else rand_comp(rng, n)
        z = rng.random()
        l = 0 if z < 0.2 else rng.randint(1, 7)
        r = 0 if 0.1 < z < 0.3 else rng.randint(1, 7)
        yield "edge", {"kind": "1d", "cs": cs or [0], "l": l, "r": r, "seed": rng.randint(0, 30)}
    for _ in range(ctx.n(70, 1000)):
        n0 = rng.randint(1, 5)
        n1 = 0 if rng.random() < 0.06 else rng.randint(1, 5)
        zc = rng.random() < 0.3
        rc = rand_comp_zeros(rng, n0) if zc else rand_comp(rng, n0)
        cc = (rand_comp_zeros(rng, n1) if zc or n1 == 0 else rand_comp(rng, n1)) or [0]
        w = [rng.choice([0, 0, 1, 2, 3, 4]) for _ in range(4)]
        yield "edge", {"kind": "2d", "rc": rc, "cc": cc, "w0": w[:2], "w1": w[2:], "seed": rng.randint(0, 30)}
