"""Helpers shared by the dfpart property modules (C38 C39 C40 C41 C44 C45 C47): frame builders with exact
partition contents, partition extraction, the `Truthful` oracle, generators."""
from __future__ import annotations


def dd():
    from core import import_dd
    return import_dd()


def frame_from_parts(parts_keys, divisions=None, cols=None, index_name=None):
    """dask frame whose partition i has index `parts_keys[i]` and a column `v` = global row number.
    `cols`: optional {name: [per-row values over all rows]}. `divisions`: tuple or None (unknown)."""
    import pandas as pd
    parts, pos = [], 0
    for ks in parts_keys:
        data = {"v": list(range(pos, pos + len(ks)))}
        for name, vals in (cols or {}).items():
            data[name] = list(vals[pos:pos + len(ks)])
        p = pd.DataFrame(data, index=pd.Index(list(ks), dtype="int64", name=index_name))
        p["v"] = p["v"].astype("int64")
        parts.append(p)
        pos += len(ks)
    meta = parts[0].iloc[:0] if parts else pd.DataFrame({"v": pd.Series([], dtype="int64")})
    if cols:
        full = pd.concat(parts)
        parts = [p.astype(full.dtypes.to_dict()) for p in parts]
        meta = full.iloc[:0]
    kw = {"divisions": tuple(divisions)} if divisions is not None else {}
    return dd().from_map(_Getter(parts), list(range(len(parts))), meta=meta, **kw)


class _Getter:
    """picklable/tokenizable partition getter. The token is a process-wide serial number, NOT id(self): ids are reused
    after garbage collection, and dask keeps module-level caches keyed by expression names (divisions_lru,
    mem_usages_lru): a recycled id made a later frame inherit the cached divisions / presorted flag of an earlier one
    (seen as a flaky 'not globally ordered' in the C40 history stream)."""

    _serial = __import__("itertools").count()

    def __init__(self, parts):
        self.parts = parts
        self.serial = next(_Getter._serial)

    def __call__(self, i):
        return self.parts[i].copy()

    def __dask_tokenize__(self):
        return ("_dfpart_getter", self.serial)


def partitions(d):
    """the partitions the lowered graph really produces, in order (pandas objects)"""
    import dask
    dl = d.to_delayed()
    return list(dask.compute(*dl, scheduler="sync")) if dl else []


def truthful(divs, parts):
    """None if `parts` (pandas objects) are described truthfully by known divisions `divs`, else a reason"""
    if len(divs) != len(parts) + 1:
        return f"npartitions {len(parts)} != len(divisions)-1 = {len(divs) - 1}"
    if any(a > b for a, b in zip(divs, divs[1:])):
        return "divisions not sorted"
    last = len(parts) - 1
    for i, p in enumerate(parts):
        if len(p) == 0:
            continue
        idx = p.index
        lo, hi = idx.min(), idx.max()
        if lo < divs[i]:
            return f"partition {i} has index {lo!r} below its division {divs[i]!r}"
        if i < last and not hi < divs[i + 1]:
            return f"partition {i} has index {hi!r} not below the next division {divs[i + 1]!r}"
        if i == last and not hi <= divs[i + 1]:
            return f"last partition has index {hi!r} above the last division {divs[i + 1]!r}"
    return None


def rand_divisions(rng, nparts, lo=0, hi=30, single_last=None):
    """strictly increasing division vector of nparts+1 values; optionally the last two equal"""
    if single_last is None:
        single_last = nparts >= 2 and rng.random() < 0.2
    k = nparts + 1 - (1 if single_last else 0)
    k = min(k, hi - lo + 1)
    vals = sorted(rng.sample(range(lo, hi + 1), k))
    if single_last:
        vals.append(vals[-1])
    return vals


def rand_truthful_parts(rng, divs, maxrows=5, p_empty=0.25, dup=True):
    """random sorted keys per partition inside [divs[i], divs[i+1]) (last closed)"""
    n = len(divs) - 1
    out = []
    for i in range(n):
        lo, hi = divs[i], divs[i + 1]
        top = hi if i == n - 1 else hi - 1
        if top < lo or rng.random() < p_empty:
            out.append([])
            continue
        m = rng.randint(1, maxrows)
        ks = sorted(rng.randint(lo, top) for _ in range(m))
        if not dup:
            ks = sorted(set(ks))
        # put values exactly at the boundaries often
        if rng.random() < 0.5:
            ks[0] = lo
        if rng.random() < 0.3:
            ks[-1] = top
            ks.sort()
        out.append(ks)
    return out


def rand_sorted_index(rng, n, hi):
    return sorted(rng.randint(0, hi) for _ in range(n))


def exc_name(e):
    return f"{type(e).__name__}: {str(e)[:160]}"


def frame_from_cuts(df, cuts):
    """dask frame (unknown divisions) whose partitions are df.iloc[cuts[i]:cuts[i+1]] — order kept, empty
    partitions allowed; `cuts` starts at 0 and ends at len(df)"""
    parts = [df.iloc[a:b] for a, b in zip(cuts, cuts[1:])]
    return dd().from_map(_Getter(parts), list(range(len(parts))), meta=df.iloc[:0])


def rand_cuts(rng, n, maxparts=5, p_empty=0.2):
    k = rng.randint(1, maxparts)
    inner = sorted(rng.randint(0, n) for _ in range(k - 1))
    if rng.random() > p_empty:
        inner = sorted(set(inner) - {0, n})
    return [0] + inner + [n]


def _unname(x):
    x = x.copy()
    x.index = x.index.set_names([None] * x.index.nlevels)
    return x


def same_pandas(got, exp, sort=True, rtol=1e-9, names=True):
    """None if equal (values, index, column names; dtypes ignored; optional order-insensitive), else a short reason"""
    import pandas as pd
    try:
        if isinstance(exp, pd.DataFrame):
            if not isinstance(got, pd.DataFrame):
                return f"type {type(got).__name__} != DataFrame"
            if sort:
                got = got.sort_index(kind="stable")
                exp = exp.sort_index(kind="stable")
            if not names:
                got, exp = _unname(got), _unname(exp)
            pd.testing.assert_frame_equal(got, exp, check_dtype=False, check_index_type=False, check_column_type=False,
                                          check_categorical=False, check_freq=False, rtol=rtol, check_like=False)
        elif isinstance(exp, pd.Series):
            if not isinstance(got, pd.Series):
                return f"type {type(got).__name__} != Series"
            if sort:
                got = got.sort_index(kind="stable")
                exp = exp.sort_index(kind="stable")
            if not names:
                got, exp = _unname(got), _unname(exp)
            pd.testing.assert_series_equal(got, exp, check_dtype=False, check_index_type=False, check_categorical=False,
                                           check_freq=False, rtol=rtol, check_names=names)
        else:
            if got != got and exp != exp:
                return None
            if abs(float(got) - float(exp)) > rtol * max(1.0, abs(float(exp))):
                return f"{got!r} != {exp!r}"
        return None
    except AssertionError as e:
        return str(e).replace("\n", " ")[:300]
