"""Helpers shared by the dfpart property modules (C38 C39 C40 C41 C44 C45 C47): frame builders with exact
partition contents, partition extraction, the `Truthful` oracle, generators."""
from __future__ import annotations


def dd():
    from core import import_dd
    return import_dd()


def frame_from_parts(parts_keys, divisions=None, cols=None, index_name=None):
    """dask frame whose partition i has index `parts_keys[i]` and a column `v` = global row number.
    `cols`: optional {name: [per-row values over all rows]}. `divisions`: tuple or None (unknown)."""
    import pandas as pd
    parts, pos = [], 0
    for ks in parts_keys:
        data = {"v": list(range(pos, pos + len(ks)))}
        for name, vals in (cols or {}).items():
            data[name] = list(vals[pos:pos + len(ks)])
        p = pd.DataFrame(data, index=pd.Index(list(ks), dtype="int64", name=index_name))
        p["v"] = p["v"].astype("int64")
        parts.append(p)
        pos += len(ks)
    meta = parts[0].iloc[:0] if parts else pd.DataFrame({"v": pd.Series([], dtype="int64")})
    if cols:
        full = pd.concat(parts)
        parts = [p.astype(full.dtypes.to_dict()) for p in parts]
        meta = full.iloc[:0]
    kw = {"divisions": tuple(divisions)} if divisions is not None else {}
    return dd().from_map(_Getter(parts), list(range(len(parts))), meta=meta, **kw)


class _Getter:
    """picklable/tokenizable partition getter"""

    def __init__(self, parts):
        self.parts = parts

    def __call__(self, i):
        return self.parts[i].copy()

    def __dask_tokenize__(self):
        return ("_dfpart_getter", id(self))


def partitions(d):
    """the partitions the lowered graph really produces, in order (pandas objects)"""
    import dask
    dl = d.to_delayed()
    return list(dask.compute(*dl, scheduler="sync")) if dl else []


def truthful(divs, parts):
    """None if `parts` (pandas objects) are described truthfully by known divisions `divs`, else a reason"""
    if len(divs) != len(parts) + 1:
        return f"npartitions {len(parts)} != len(divisions)-1 = {len(divs) - 1}"
    if any(a > b for a, b in zip(divs, divs[1:])):
        return "divisions not sorted"
    last = len(parts) - 1
    for i, p in enumerate(parts):
        if len(p) == 0:
            continue
        idx = p.index
        lo, hi = idx.min(), idx.max()
        if lo < divs[i]:
            return f"partition {i} has index {lo!r} below its division {divs[i]!r}"
        if i < last and not hi < divs[i + 1]:
            return f"partition {i} has index {hi!r} not below the next division {divs[i + 1]!r}"
        if i == last and not hi <= divs[i + 1]:
            return f"last partition has index {hi!r} above the last division {divs[i + 1]!r}"
    return None


def rand_divisions(rng, nparts, lo=0, hi=30, single_last=None):
    """strictly increasing division vector of nparts+1 values; optionally the last two equal"""
    if single_last is None:
        single_last = nparts >= 2 and rng.random() < 0.2
    k = nparts + 1 - (1 if single_last else 0)
    k = min(k, hi - lo + 1)
    vals = sorted(rng.sample(range(lo, hi + 1), k))
    if single_last:
        vals.append(vals[-1])
    return vals


def rand_truthful_parts(rng, divs, maxrows=5, p_empty=0.25, dup=True):
    """random sorted keys per partition inside [divs[i], divs[i+1]) (last closed)"""
    n = len(divs) - 1
    out = []
    for i in range(n):
        lo, hi = divs[i], divs[i + 1]
        top = hi if i == n - 1 else hi - 1
        if top < lo or rng.random() < p_empty:
            out.append([])
            continue
        m = rng.randint(1, maxrows)
        ks = sorted(rng.randint(lo, top) for _ in range(m))
        if not dup:
            ks = sorted(set(ks))
        # put values exactly at the boundaries often
        if rng.random() < 0.5:
            ks[0] = lo
        if rng.random() < 0.3:
            ks[-1] = top
            ks.sort()
        out.append(ks)
    return out


def rand_sorted_index(rng, n, hi):
    return sorted(rng.randint(0, hi) for _ in range(n))


def exc_name(e):
    return f"{type(e).__name__}: {str(e)[:160]}"
