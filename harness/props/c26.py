"""C26 — overlap computations match the unchunked stencil.

Model:    lean/DaskModel/Model/ArrOverlap.lean (overlap/trim chunk arithmetic, block windows of overlap_internal,
          _trim, ensure_minimum_chunksize, boundary index maps)
Theorems: lean/DaskModel/Props/C26.lean
Tie:      function level  _overlap_internal_chunks, the chunks trim_internal declares, ensure_minimum_chunksize,
                          the blocks of overlap_internal / trim_internal on position-valued arrays, boundaries();
          API level       trim(overlap(x)) == x for every boundary kind; map_overlap (random linear stencils of radius
                          <= depth, per-axis depths and boundaries, asymmetric depths, chunks smaller than the depth
                          with allow_rechunk) vs NumPy pad-apply-trim; sliding_window_view vs NumPy.
"""
from __future__ import annotations

import itertools

from sexp import Sym

from props import _c26x
from props._slicing_util import compositions, random_chunks, unsym

PROP = "C26"
READY = True
DRIVER = "dm_slicing"
LEAN_MODULES = ["DaskModel.Props.C26", "DaskModel.Props.C26xNd"]
CASE_TIMEOUT_S = 40
LEVEL_TEXT = (
    "Lean 4 theorems (any chunk list, asymmetric depth, no size bound) over transliterations of "
    "_overlap_internal_chunks / trim_internal, of the block windows of ArrayOverlapLayer (previous block's last dl "
    "cells ++ block ++ next block's first dr cells), of _trim, of overlap() with a boundary (pad block each side, "
    "share d cells, cut the two pad blocks off) and of ensure_minimum_chunksize: trimming the declared overlap chunks "
    "gives back the chunks; when every chunk is at least as long as the depth, trim ∘ overlap = id on the blocks and "
    "each overlapped block has the declared size (guard shown necessary); for every function whose output at a cell "
    "depends on at most dl cells before and dr after it, map-over-overlapped-blocks-then-trim equals the function "
    "on the whole axis (map_overlap_eq_global, boundary 'none') and, for a boundary other than 'none', equals "
    "pad – apply – trim on the whole axis for ANY pad cells (map_overlap_boundary_eq_global); the pads themselves: the "
    "Python slices periodic / reflect / nearest cut (incl. reflect's depth == 1 special case) are, for every 1 <= d <= n, "
    "the closed-form wrap / mirror / edge index maps (boundary_slices_are_index_maps), which coincide cell by cell with "
    "the index maps of np.pad wrap / symmetric / edge / constant (boundary_index_maps_eq_np_pad); sliding_window_view "
    "over the right-overlapped blocks concatenates to NumPy's windows of the whole axis "
    "(sliding_window_view_eq_global, guard shown necessary); ensure_minimum_chunksize keeps the total, makes every "
    "chunk >= size and raises only when the axis is shorter than size; with several array arguments the trim follows "
    "the depth/boundary of the FIRST argument of highest rank (trim_follows_first_highest_rank, diffed at function "
    "level through the declared and computed extents). N-d (extension round, Props/C26xNd): with n-d arrays as "
    "functions from index lists and blocks as separable gathers X[np.ix_(L1..Lk)] whose per-axis source lists are the "
    "1-d models, for every number of axes, per-axis asymmetric depths and a boundary kind per axis (chunks >= depth): "
    "the 1-d extended block b IS the slice [lo - d-, hi + d+) of the (padded) axis (overlap_1d_block, "
    "overlap_1d_block_boundary); the extended block (b1..bk) holds exactly the hyper-rectangle of the padded global "
    "array, corners included (overlap_nd_block, overlap_nd_block_content); _trim of it is the original block "
    "(trim_overlap_nd_id); for every function local within the per-axis depths (any g of the clipped window), mapping over "
    "the extended block and trimming gives cell by cell the function on the padded global array at the block's own "
    "cells pad + lo + c (map_overlap_nd_eq_global, globalIdx_is_block_offset). Validated, not proved: that boundaries() / "
    "np.pad compute these index maps (diffed cell by cell), rechunking (C23), map_overlap's argument handling (several "
    "arrays, drop_axis/new_axis, trim=False). The way ArrayOverlapLayer really builds a block — one concatenate_shaped "
    "of up to 3^k pieces (_expand_keys_around_center x fractional_slice, diagonal neighbours for corners) — is modelled "
    "piece by piece (ndPieces, assemble) and proved to be that product block (overlap_nd_gather, no size hypothesis); "
    "every real piece of every block of 2-d / 3-d arrays is diffed against the model's (section ndblocks)."
)
LEVEL_NOTE = (
    "Trusted: Lean kernel; the hand-written model ArrOverlap (diffed on every run against the real helpers and against "
    "the computed blocks of overlap_internal / trim_internal / overlap(boundary) / sliding_window_view); NumPy "
    "(np.pad, slicing, sliding_window_view on one block) as the reference; rechunk (C23)."
)
TECHNIQUE = "Lean 4 proof (list surgery on blocks, loop invariant for ensure_minimum_chunksize) + differential correspondence with dask.array.overlap and NumPy"
ASSUMPTIONS = [
    "concatenate_shaped places the piece at grid position (p1..pk) at the offsets given by the piece extents along each axis (modelled by `assemble`/`locate`; every extended block of 2-d / 3-d arrays diffed)",
    "np.pad(mode=wrap/symmetric/edge/constant) is the reference for boundary=periodic/reflect/nearest/<value>",
    "chunk.trim(x3, 2*d) on the overlapped padded array removes exactly the two overlapped pad blocks (checked block by block in section ovb)",
    "sorted(seq, key=k)[-1] is the element with the largest key (keys pairwise distinct): modelled as a running maximum",
    "map_blocks takes the lazy chunks of an output axis from the first argument that has the axis (hence per-array depths are only consistent when a lower-rank argument in front of the governing one agrees with it on shared axes)",
]
TRUSTED = ["dask.array.rechunk (property C23)", "np.lib.stride_tricks.sliding_window_view on one block"]

KINDS = {"periodic": "wrap", "reflect": "symmetric", "nearest": "edge"}


def _depth_arg(d):
    """JSON depth -> python (int or (dl, dr) tuple)"""
    return tuple(d) if isinstance(d, list) else d


def _lr(d):
    return (d[0], d[1]) if isinstance(d, (list, tuple)) else (d, d)


def _blocks_of(arr):
    import numpy as np
    out = {}
    for idx in itertools.product(*[range(len(c)) for c in arr.chunks]):
        out[idx] = np.asarray(arr.blocks[idx].compute(scheduler="sync"))
    return out


def _split(lengths):
    out, acc = [], 0
    for l in lengths:
        out.append(list(range(acc, acc + l)))
        acc += l
    return out


# --------------------------------------------------------------------------------------
# function level
# --------------------------------------------------------------------------------------

def case_chunks(ctx, inp):
    """_overlap_internal_chunks and the chunks trim_internal declares; trim(overlap chunks) = chunks."""
    import numpy as np
    import dask.array as da
    from dask.array.overlap import _overlap_internal_chunks, trim_internal
    chunks = [tuple(c) for c in inp["chunks"]]
    depth = {i: _depth_arg(d) for i, d in enumerate(inp["depth"])}
    real = _overlap_internal_chunks(chunks, depth)
    for ax, c in enumerate(chunks):
        dl, dr = _lr(depth[ax])
        ctx.eq("_overlap_internal_chunks", unsym(ctx.lean(Sym("overlapchunks"), dl, dr, list(c))), [int(v) for v in real[ax]])
    g = da.zeros(tuple(sum(c) for c in real), chunks=tuple(tuple(c) for c in real), dtype="i1")
    bnone = inp.get("boundary_none", True)
    boundary = "none" if bnone else "reflect"
    if not bnone and any(isinstance(d, tuple) for d in depth.values()):
        return
    try:
        t = trim_internal(g, depth, boundary)
    except ValueError as e:
        ctx.note("trim_internal-rejects")
        return
    for ax, c in enumerate(real):
        dl, dr = _lr(depth[ax])
        ctx.eq("trim_internal chunks", unsym(ctx.lean(Sym("trimchunks"), bnone, dl, dr, [int(v) for v in c])),
               [int(v) for v in t.chunks[ax]])
    if bnone and tuple(t.chunks) != tuple(chunks):
        ctx.fail("trimming the overlap chunks does not give back the chunks", observed=[list(c) for c in t.chunks],
                 expected=[list(c) for c in chunks])
    if any(isinstance(d, tuple) and d[0] != d[1] for d in depth.values()):
        ctx.branch("chunks-asymmetric-depth")
    if any(len(c) > 2 for c in chunks):
        ctx.branch("chunks-interior-blocks")
    if any(len(c) == 1 for c in chunks):
        ctx.branch("chunks-single-block-axis")


def case_emc(ctx, inp):
    from dask.array.overlap import ensure_minimum_chunksize
    size, chunks = inp["size"], tuple(inp["chunks"])
    try:
        r = ensure_minimum_chunksize(size, chunks)
        impl = ["ok", [int(v) for v in r]]
    except ValueError:
        r, impl = None, ["raised"]
    ctx.eq("ensure_minimum_chunksize", unsym(ctx.lean(Sym("ensuremin"), size, list(chunks))), impl)
    if r is None:
        if sum(chunks) >= size:
            ctx.fail("ensure_minimum_chunksize raised although the axis is long enough", observed="ValueError",
                     expected="chunks >= size")
        ctx.branch("emc-raises")
        return
    if sum(r) != sum(chunks):
        ctx.fail("ensure_minimum_chunksize changed the axis length", observed=list(r), expected=sum(chunks))
    if any(c < size for c in r):
        ctx.fail("ensure_minimum_chunksize left a chunk smaller than size", observed=list(r), expected=size)
    if tuple(r) != chunks:
        ctx.branch("emc-merged")
        if any(c >= size for c in chunks):
            ctx.branch("emc-mixed-sizes")
    if any(c > 2 * size for c in chunks) and any(c < size for c in chunks):
        ctx.branch("emc-borrow-from-large")


def case_blocks(ctx, inp):
    """overlap_internal / trim_internal on a position-valued array: every block vs the Lean windows; trim∘overlap = id."""
    import numpy as np
    import dask.array as da
    from dask.array.overlap import overlap_internal, trim_internal
    chunks = tuple(tuple(c) for c in inp["chunks"])
    shape = tuple(sum(c) for c in chunks)
    depth = {i: _depth_arg(d) for i, d in enumerate(inp["depth"])}
    x = np.arange(int(np.prod(shape))).reshape(shape)
    d = da.from_array(x, chunks=chunks)
    g = overlap_internal(d, depth)
    gb = _blocks_of(g)
    per_axis = []
    for ax, c in enumerate(chunks):
        dl, dr = _lr(depth[ax])
        per_axis.append(unsym(ctx.lean(Sym("overlapblocks"), dl, dr, _split(c))))
    ok_sizes = all(len(c) == 1 or all(v >= max(_lr(depth[ax])) for v in c) for ax, c in enumerate(chunks))
    for idx, blk in gb.items():
        pos = [per_axis[ax][b] for ax, b in enumerate(idx)]
        exp = x[np.ix_(*pos)]
        if blk.shape != exp.shape or (blk != exp).any():
            ctx.disagree("overlap_internal block", [list(idx), exp.tolist()], [list(idx), blk.tolist()])
            return
        want = tuple(g.chunks[ax][b] for ax, b in enumerate(idx))
        if blk.shape != want and ok_sizes:
            ctx.fail("overlap_internal: computed block shape differs from the declared chunks",
                     observed=[list(idx), list(blk.shape)], expected=list(want))
            return
    if not ok_sizes:
        ctx.branch("blocks-chunk-smaller-than-depth")
        return
    t = trim_internal(g, depth, "none")
    got = np.asarray(t.compute(scheduler="sync"))
    if t.chunks != chunks:
        ctx.fail("trim(overlap(x)) has other chunks than x", observed=[list(c) for c in t.chunks], expected=[list(c) for c in chunks])
    if got.shape != x.shape or (got != x).any():
        ctx.fail("trim(overlap(x)) != x", observed=got.tolist(), expected=x.tolist())
    tb = _blocks_of(t)
    for ax, c in enumerate(chunks):
        dl, dr = _lr(depth[ax])
        tr = unsym(ctx.lean(Sym("trimblocks"), True, dl, dr, per_axis[ax]))
        ctx.eq("trim blocks (model) give back the blocks", tr, _split(c))
    for idx, blk in tb.items():
        want = tuple(chunks[ax][b] for ax, b in enumerate(idx))
        if blk.shape != want:
            ctx.fail("trim_internal: computed block shape differs from the declared chunks", observed=[list(idx), list(blk.shape)])
            return
    if any(isinstance(v, tuple) and v[0] != v[1] for v in depth.values()):
        ctx.branch("blocks-asymmetric-depth")
    if len(chunks) > 1:
        ctx.branch("blocks-nd")
    if any(len(c) > 2 for c in chunks):
        ctx.branch("blocks-interior")


def case_bnd(ctx, inp):
    """boundaries(): the padded array vs np.pad and vs the Lean index maps."""
    import numpy as np
    import dask.array as da
    from dask.array.overlap import boundaries
    chunks = tuple(tuple(c) for c in inp["chunks"])
    shape = tuple(sum(c) for c in chunks)
    x = np.arange(int(np.prod(shape))).reshape(shape) + 1
    d = da.from_array(x, chunks=chunks)
    depth = {i: v for i, v in enumerate(inp["depth"])}
    kind = {i: v for i, v in enumerate(inp["kind"])}
    got = np.asarray(boundaries(d, depth, kind).compute(scheduler="sync"))
    exp = x
    sel = []
    for ax in range(len(shape)):
        k, dep = kind[ax], depth[ax]
        pw = [(0, 0)] * len(shape)
        if dep and k != "none":
            pw[ax] = (dep, dep)
            if k in KINDS:
                exp = np.pad(exp, pw, mode=KINDS[k])
            else:
                exp = np.pad(exp, pw, mode="constant", constant_values=k)
            lk = k if k in KINDS else "constant"
            sel.append(unsym(ctx.lean(Sym("padpositions"), Sym(lk), dep, shape[ax])))
        else:
            sel.append(list(range(shape[ax])))
    if got.shape != exp.shape or (got != exp).any():
        ctx.fail("boundaries() differs from np.pad", observed=got.tolist(), expected=exp.tolist())
        return
    # the Lean index maps: model[p] is the source position (None = fill value)
    fill = {ax: (kind[ax] if kind[ax] not in KINDS and kind[ax] != "none" else None) for ax in range(len(shape))}
    it = np.nditer(got, flags=["multi_index"])
    for v in it:
        mi = it.multi_index
        src = [sel[ax][p] for ax, p in enumerate(mi)]
        if any(s is None for s in src):
            ax = [a for a, s in enumerate(src) if s is None][-1]   # axes are padded in order: the last one fills the corner
            want = fill[ax]
        else:
            want = x[tuple(src)]
        if int(v) != int(want):
            ctx.disagree("boundary index map", [list(mi), int(want)], [list(mi), int(v)])
            return
    for k in set(kind.values()):
        ctx.branch("bnd-" + (k if isinstance(k, str) else "constant"))


# --------------------------------------------------------------------------------------
# API level
# --------------------------------------------------------------------------------------

def case_trimid(ctx, inp):
    """overlap() then trim_internal() is the identity, for every boundary kind (rechunking allowed)."""
    import numpy as np
    import dask.array as da
    from dask.array.overlap import overlap, trim_internal
    chunks = tuple(tuple(c) for c in inp["chunks"])
    shape = tuple(sum(c) for c in chunks)
    x = np.arange(int(np.prod(shape))).reshape(shape) + 1
    d = da.from_array(x, chunks=chunks)
    depth = {i: _depth_arg(v) for i, v in enumerate(inp["depth"])}
    bnd = {i: v for i, v in enumerate(inp["boundary"])}
    try:
        g = overlap(d, depth, bnd)
    except ValueError as e:
        too_big = any(max(_lr(depth[ax])) > shape[ax] for ax in depth)
        if too_big:
            ctx.branch("trimid-depth-exceeds-axis-rejected")
            return
        ctx.fail("overlap raised ValueError", observed=repr(e)[:200])
        return
    t = trim_internal(g, depth, bnd)
    got = np.asarray(t.compute(scheduler="sync"))
    if got.shape != x.shape or (got != x).any():
        ctx.fail("trim(overlap(x)) != x", observed=got.tolist(), expected=x.tolist())
    gc = np.asarray(g.compute(scheduler="sync"))
    if tuple(sum(c) for c in g.chunks) != gc.shape:
        ctx.fail("overlap(): declared chunks do not add up to the computed shape", observed=[list(c) for c in g.chunks],
                 expected=list(gc.shape))
    for idx, blk in _blocks_of(g).items():
        want = tuple(g.chunks[ax][b] for ax, b in enumerate(idx))
        if blk.shape != want:
            ctx.fail("overlap(): computed block shape differs from the declared chunks", observed=[list(idx), list(blk.shape)],
                     expected=list(want))
            break
    for k in set(bnd.values()):
        ctx.branch("trimid-" + (k if isinstance(k, str) else "constant"))
    if g.numblocks != d.numblocks:
        ctx.branch("trimid-rechunked")


def case_ovb(ctx, inp):
    """overlap(x, depth, boundary) with a boundary other than 'none': every computed block vs the Lean model
    `overlapWithBoundary` (pad block, share d cells, cut the two pad blocks off), pads from the Lean index maps."""
    import numpy as np
    import dask.array as da
    from dask.array.overlap import overlap
    chunks = tuple(tuple(c) for c in inp["chunks"])
    shape = tuple(sum(c) for c in chunks)
    x = np.arange(int(np.prod(shape))).reshape(shape) + 1
    d = da.from_array(x, chunks=chunks)
    depth = {i: v for i, v in enumerate(inp["depth"])}
    bnd = {i: v for i, v in enumerate(inp["boundary"])}
    g = overlap(d, depth, bnd, allow_rechunk=False)
    per_axis = []
    for ax, c in enumerate(chunks):
        dep, k = depth[ax], bnd[ax]
        if dep == 0 or k == "none":
            per_axis.append(unsym(ctx.lean(Sym("overlapblocks"), dep, dep, _split(c))))
            continue
        lk = k if k in KINDS else "constant"
        pads = unsym(ctx.lean(Sym("padpositions"), Sym(lk), dep, shape[ax]))
        enc = [-1 if v is None else v for v in pads]
        per_axis.append(unsym(ctx.lean(Sym("overlapboundary"), dep, enc[:dep], enc[len(enc) - dep:], _split(c))))
    if tuple(len(p) for p in per_axis) != g.numblocks:
        ctx.disagree("overlap(): number of blocks", [len(p) for p in per_axis], list(g.numblocks))
        return
    fill = {ax: (bnd[ax] if bnd[ax] not in KINDS and bnd[ax] != "none" else None) for ax in range(len(shape))}
    for idx, blk in _blocks_of(g).items():
        pos = [per_axis[ax][b] for ax, b in enumerate(idx)]
        if blk.shape != tuple(len(p) for p in pos):
            ctx.disagree("overlap() block shape", [list(idx), [len(p) for p in pos]], [list(idx), list(blk.shape)])
            return
        want = tuple(g.chunks[ax][b] for ax, b in enumerate(idx))
        if blk.shape != want:
            ctx.fail("overlap(): computed block shape differs from the declared chunks", observed=[list(idx), list(blk.shape)],
                     expected=list(want))
            return
        it = np.nditer(blk, flags=["multi_index"])
        for v in it:
            src = [pos[ax][p] for ax, p in enumerate(it.multi_index)]
            neg = [a for a, sv in enumerate(src) if sv < 0]
            w = fill[neg[-1]] if neg else x[tuple(src)]
            if int(v) != int(w):
                ctx.disagree("overlap() block cell", [list(idx), list(it.multi_index), int(w)], [list(idx), list(it.multi_index), int(v)])
                return
    for k in set(bnd.values()):
        ctx.branch("ovb-" + (k if isinstance(k, str) else "constant"))
    if any(len(c) > 2 for c in chunks):
        ctx.branch("ovb-interior-blocks")


def case_swvblocks(ctx, inp):
    """sliding_window_view along one axis of a 1-d / 2-d array whose chunks need no rechunking: every computed block vs
    the Lean `slidingBlocks`; their concatenation vs Lean `windows` of the whole axis (the proved identity) and NumPy."""
    import numpy as np
    import dask.array as da
    chunks = tuple(tuple(c) for c in inp["chunks"])
    shape = tuple(sum(c) for c in chunks)
    w, axis = inp["window"], inp["axis"]
    x = np.arange(int(np.prod(shape))).reshape(shape)
    d = da.from_array(x, chunks=chunks)
    r = da.lib.stride_tricks.sliding_window_view(d, w, axis=axis, automatic_rechunk=False)
    if r.chunks[:len(shape)][axis] != chunks[axis][:-1] + (chunks[axis][-1] - (w - 1),) or \
            any(r.chunks[a] != chunks[a] for a in range(len(shape)) if a != axis):
        ctx.branch("swvblocks-rechunked")     # ensure_minimum_chunksize changed the chunks: compared at API level only
        return
    model = unsym(ctx.lean(Sym("slidingblocks"), w, _split(chunks[axis])))
    exp = np.lib.stride_tricks.sliding_window_view(x, w, axis=axis)
    flat = [win for blk in model for win in blk]
    n = shape[axis]
    ref = [list(range(i, i + w)) for i in range(n - w + 1)]
    ctx.eq("concatenated Lean block windows = windows of the whole axis", flat, ref)
    for idx, blk in _blocks_of(r).items():
        wins = model[idx[axis]]
        # positions along `axis` of the windows this block holds; other axes: the block's own extent
        sl = [slice(sum(chunks[a][:idx[a]]), sum(chunks[a][:idx[a] + 1])) for a in range(len(shape))]
        sub = x[tuple(sl[a] if a != axis else slice(None) for a in range(len(shape)))]
        want = np.stack([np.take(sub, wv, axis=axis) for wv in wins], axis=axis) if wins else None
        if want is None:
            if blk.size:
                ctx.disagree("sliding_window_view block", [list(idx), []], [list(idx), blk.tolist()])
                return
            continue
        want = np.moveaxis(want, axis + 1, -1)
        if blk.shape != want.shape or (blk != want).any():
            ctx.disagree("sliding_window_view block", [list(idx), want.tolist()], [list(idx), blk.tolist()])
            return
    got = np.asarray(r.compute(scheduler="sync"))
    if got.shape != exp.shape or (got != exp).any():
        ctx.fail("sliding_window_view differs from NumPy", observed=list(got.shape), expected=list(exp.shape))
    ctx.branch("swvblocks")
    if len(chunks[axis]) > 2:
        ctx.branch("swvblocks-interior")


def _stencil(weights, axis_offsets):
    """a linear stencil with zero fill beyond the array given to it: out[i] = sum_k w_k * a[i + off_k]"""
    import numpy as np

    def f(a):
        out = np.zeros(a.shape, dtype=a.dtype)
        for w, offs in zip(weights, axis_offsets):
            src = [slice(None)] * a.ndim
            dst = [slice(None)] * a.ndim
            ok = True
            for ax, o in enumerate(offs):
                n = a.shape[ax]
                if abs(o) >= n and o != 0:
                    ok = False
                    break
                if o > 0:
                    src[ax], dst[ax] = slice(o, None), slice(0, n - o)
                elif o < 0:
                    src[ax], dst[ax] = slice(0, n + o), slice(-o, None)
            if ok:
                out[tuple(dst)] += w * a[tuple(src)]
        return out
    return f


def case_mapov(ctx, inp):
    import numpy as np
    import dask.array as da
    chunks = tuple(tuple(c) for c in inp["chunks"])
    shape = tuple(sum(c) for c in chunks)
    x = (np.arange(int(np.prod(shape))).reshape(shape) % 17 + 1).astype("int64")
    d = da.from_array(x, chunks=chunks)
    depth = {i: _depth_arg(v) for i, v in enumerate(inp["depth"])}
    bnd = {i: v for i, v in enumerate(inp["boundary"])}
    f = _stencil(inp["weights"], inp["offsets"])
    # reference: pad the whole array, apply, trim
    pw, exp_in = [], x
    for ax in range(len(shape)):
        dl, dr = _lr(depth[ax])
        k = bnd[ax]
        if k == "none" or (dl == 0 and dr == 0):
            pw.append((0, 0))
            continue
        p = [(0, 0)] * len(shape)
        p[ax] = (dl, dr)
        pw.append((dl, dr))
        exp_in = np.pad(exp_in, p, mode=KINDS[k]) if k in KINDS else np.pad(exp_in, p, mode="constant", constant_values=k)
    exp = f(exp_in)[tuple(slice(l, exp_in.shape[ax] - r) for ax, (l, r) in enumerate(pw))]
    try:
        r = da.map_overlap(f, d, depth=depth, boundary=bnd, dtype=x.dtype, allow_rechunk=inp.get("allow_rechunk", True))
        got = np.asarray(r.compute(scheduler="sync"))
    except ValueError as e:
        small = any(min(c) < max(_lr(depth[ax])) for ax, c in enumerate(chunks))
        too_big = any(max(_lr(depth[ax])) > shape[ax] for ax in depth)
        if too_big or (small and not inp.get("allow_rechunk", True)):
            ctx.branch("mapov-rejected-depth")
            return
        ctx.fail("map_overlap raised ValueError", observed=repr(e)[:200])
        return
    except NotImplementedError:
        ctx.note("mapov-not-implemented")
        return
    if got.shape != exp.shape or (got != exp).any():
        ctx.fail("map_overlap differs from pad-apply-trim on the whole array", observed=got.tolist(), expected=exp.tolist())
        return
    if tuple(r.shape) != exp.shape or tuple(sum(c) for c in r.chunks) != exp.shape:
        ctx.fail("map_overlap lazy shape/chunks wrong", observed=[list(c) for c in r.chunks], expected=list(exp.shape))
    for k in set(bnd.values()):
        ctx.branch("mapov-" + (k if isinstance(k, str) else "constant"))
    if any(isinstance(v, tuple) and v[0] != v[1] for v in depth.values()):
        ctx.branch("mapov-asymmetric")
    if any(min(c) < max(_lr(depth[ax])) for ax, c in enumerate(chunks)):
        ctx.branch("mapov-chunks-smaller-than-depth")
    if len(shape) > 1:
        ctx.branch("mapov-nd")


def case_mapov2(ctx, inp):
    """map_overlap over two arrays of different rank (the lower-rank one is broadcast along the leading axis):
    depth/boundary are given per array; the trim follows the array of highest rank."""
    import numpy as np
    import dask.array as da
    chunks = tuple(tuple(c) for c in inp["chunks"])           # chunks of the 2-d array
    shape = tuple(sum(c) for c in chunks)
    a = (np.arange(int(np.prod(shape))).reshape(shape) % 13 + 1).astype("int64")
    b = (np.arange(shape[1]) % 5 + 2).astype("int64")
    d0, d1 = inp["depth"]
    k1 = inp["boundary"]
    da_a = da.from_array(a, chunks=chunks)
    da_b = da.from_array(b, chunks=(chunks[1],))
    offs = inp["offsets"]            # offsets along axis 1 (shared), within d1; along axis 0 within d0
    w = inp["weights"]

    def f(x, y):
        # x: 2-d block, y: 1-d block (same extent along the shared axis)
        fx = _stencil(w, [[o0, o1] for o0, o1 in offs])(x)
        fy = _stencil(w, [[o1] for _, o1 in offs])(y)
        return fx + fy[None, :]

    def fr(y, x):
        return f(x, y)

    def pad(arr, ax, d, k):
        if d == 0 or k == "none":
            return arr, 0
        p = [(0, 0)] * arr.ndim
        p[ax] = (d, d)
        return (np.pad(arr, p, mode=KINDS[k]) if k in KINDS else np.pad(arr, p, mode="constant", constant_values=k)), d
    ap, t0 = pad(a, 0, d0, inp["boundary0"])
    ap, t1 = pad(ap, 1, d1, k1)
    bp, _ = pad(b, 0, d1, k1)
    full = f(ap, bp)
    exp = full[t0:full.shape[0] - t0 or None, t1:full.shape[1] - t1 or None]
    depth_a, depth_b = {0: d0, 1: d1}, {0: d1}
    bnd_a, bnd_b = {0: inp["boundary0"], 1: k1}, {0: k1}
    try:
        if inp["low_rank_first"]:
            r = da.map_overlap(fr, da_b, da_a, depth=[depth_b, depth_a], boundary=[bnd_b, bnd_a], dtype=a.dtype)
        else:
            r = da.map_overlap(f, da_a, da_b, depth=[depth_a, depth_b], boundary=[bnd_a, bnd_b], dtype=a.dtype)
        got = np.asarray(r.compute(scheduler="sync"))
    except ValueError as e:
        if d0 > shape[0] or d1 > shape[1]:
            ctx.branch("mapov2-rejected-depth")
            return
        ctx.fail("map_overlap (two arrays) raised ValueError", observed=repr(e)[:200])
        return
    if got.shape != exp.shape or (got != exp).any():
        ctx.fail("map_overlap over two arrays differs from pad-apply-trim", observed=got.tolist(), expected=exp.tolist())
        return
    ctx.branch("mapov2-low-rank-first" if inp["low_rank_first"] else "mapov2-high-rank-first")


def case_trimarg(ctx, inp):
    """Which argument's depth drives the trim of map_overlap (function level): 2-4 arrays of ranks 1-3 (lower ranks
    broadcast along the leading axes), pairwise different depths on the shared last axis, periodic boundary. The function
    returns a block whose last-axis length is that of the FIRST argument's block, so the declared and the computed chunks
    of the result are c + 2*d_0 - 2*d_T: they reveal the governing argument T, compared with Lean `trimArg`."""
    import numpy as np
    import dask.array as da
    ranks, depths, c = inp["ranks"], inp["depths"], list(inp["chunks"])
    n = sum(c)
    lead = [2, 3]            # extents of the (unchunked) leading axes
    arrs = []
    for r in ranks:
        shape = tuple(lead[len(lead) - (r - 1):]) + (n,) if r > 1 else (n,)
        arrs.append(da.from_array(np.arange(int(np.prod(shape))).reshape(shape), chunks=tuple((s,) for s in shape[:-1]) + (tuple(c),)))
    maxr = max(ranks)

    def f(*blocks):
        hb = max(blocks, key=lambda b: b.ndim)
        return np.zeros(hb.shape[:-1] + (blocks[0].shape[-1],), dtype="i8")

    dl = [{**{a: 0 for a in range(r - 1)}, r - 1: d} for r, d in zip(ranks, depths)]
    r = da.map_overlap(f, *arrs, depth=dl, boundary="periodic", dtype="i8", align_arrays=inp["align"])
    model = unsym(ctx.lean(Sym("trimarg"), ranks))
    want_d = depths[model]
    decl = [int(v) for v in r.chunks[-1]]
    # 2*d_T = c_j + 2*d_0 - declared_j
    got_2d = set(cj + 2 * depths[0] - dj for cj, dj in zip(c, decl))
    if got_2d != {2 * want_d}:
        cand = [i for i, d in enumerate(depths) if {2 * d} == got_2d]
        ctx.disagree("argument whose depth drives the trim of map_overlap", model, cand[0] if cand else sorted(got_2d))
    comp = np.asarray(r.compute(scheduler="sync"))
    if comp.shape[-1] != sum(decl):
        ctx.fail("map_overlap (several arrays): computed extent differs from the declared chunks", observed=list(comp.shape),
                 expected=sum(decl))
    if comp.shape[-1] != n + len(c) * 2 * (depths[0] - want_d):
        ctx.fail("map_overlap (several arrays) is not trimmed by the depth of the first argument of highest rank",
                 observed=list(comp.shape), expected=n + len(c) * 2 * (depths[0] - want_d))
    ctx.branch("trimarg")
    if sum(1 for x in ranks if x == maxr) > 1:
        ctx.branch("trimarg-tie-on-highest-rank")
    if ranks[0] != maxr:
        ctx.branch("trimarg-first-is-not-highest")


def case_mapovn(ctx, inp):
    """map_overlap over 2-3 arrays with PER-ARRAY depths and boundaries that differ (lists of dicts / ints / tuples,
    lists of dicts / strings / scalars), equal and unequal ranks, align_arrays on and off, trim=True. Every argument is
    overlapped by its own depth and boundary; the function applies one linear stencil per argument (radius within that
    argument's depth), strips each argument's own overlap and adds the cores inside a block shaped like the FIRST argument
    of highest rank (the one whose depth the trim follows). Reference: sum over the arguments of
    trim_i(stencil_i(np.pad(arr_i, depth_i, boundary_i)))."""
    import numpy as np
    import dask.array as da
    chunks2 = [tuple(c) for c in inp["chunks"]]               # chunks of the 2-d shape (n0, n1)
    shape2 = tuple(sum(c) for c in chunks2)
    specs = inp["args"]           # per argument: rank (1|2), depth per own axis, boundary per own axis, stencil offsets/weights
    arrs, np_arrs = [], []
    for i, sp in enumerate(specs):
        shape = shape2 if sp["rank"] == 2 else (shape2[1],)
        a = ((np.arange(int(np.prod(shape))).reshape(shape) * (i + 2)) % 17 + i).astype("int64")
        np_arrs.append(a)
        arrs.append(da.from_array(a, chunks=tuple(chunks2) if sp["rank"] == 2 else (chunks2[1],)))
    ranks = [sp["rank"] for sp in specs]
    T = unsym(ctx.lean(Sym("trimarg"), ranks))

    def ext(sp, ax, loc, nch):
        d, b = sp["depth"][ax], sp["boundary"][ax]
        return (d if (loc > 0 or b != "none") else 0), (d if (loc < nch - 1 or b != "none") else 0)

    def f(*blocks, block_info=None):
        if block_info is None:      # meta inference
            return np.zeros((0,) * max(ranks), dtype="int64")
        cores = []
        for i, (blk, sp) in enumerate(zip(blocks, specs)):
            g = _stencil(sp["weights"], sp["offsets"])(blk)
            sl = []
            for ax in range(blk.ndim):
                lo, hi = ext(sp, ax, block_info[i]["chunk-location"][ax], block_info[i]["num-chunks"][ax])
                sl.append(slice(lo, blk.shape[ax] - hi))
            cores.append(g[tuple(sl)])
        core = sum(np.broadcast_to(cv, cores[T].shape) if cv.ndim == cores[T].ndim else cv[None, :] + np.zeros_like(cores[T])
                   for cv in cores)
        out = np.zeros(blocks[T].shape, dtype="int64")
        sl = []
        for ax in range(blocks[T].ndim):
            lo, hi = ext(specs[T], ax, block_info[T]["chunk-location"][ax], block_info[T]["num-chunks"][ax])
            sl.append(slice(lo, blocks[T].shape[ax] - hi))
        out[tuple(sl)] = core
        return out

    # reference
    exp = np.zeros(shape2 if 2 in ranks else (shape2[1],), dtype="int64")
    for a, sp in zip(np_arrs, specs):
        ap, trims = a, []
        for ax in range(a.ndim):
            d, b = sp["depth"][ax], sp["boundary"][ax]
            if d and b != "none":
                pw = [(0, 0)] * a.ndim
                pw[ax] = (d, d)
                ap = np.pad(ap, pw, mode=KINDS[b]) if b in KINDS else np.pad(ap, pw, mode="constant", constant_values=b)
                trims.append(slice(d, ap.shape[ax] - d))
            else:
                trims.append(slice(None))
        g = _stencil(sp["weights"], sp["offsets"])(ap)[tuple(trims)]
        exp = exp + (g if g.ndim == exp.ndim else g[None, :])

    def fmt_depth(sp):
        d = sp["depth"]
        style = sp.get("dstyle", "dict")
        if style == "int" and len(set(d)) == 1:
            return d[0]
        if style == "tuple":
            return tuple(d)
        return {ax: v for ax, v in enumerate(d)}

    def fmt_bnd(sp):
        b = sp["boundary"]
        if sp.get("bstyle") == "scalar" and len(set(map(str, b))) == 1:
            return b[0]
        return {ax: v for ax, v in enumerate(b)}

    try:
        r = da.map_overlap(f, *arrs, depth=[fmt_depth(sp) for sp in specs], boundary=[fmt_bnd(sp) for sp in specs],
                           dtype="int64", align_arrays=inp["align"], allow_rechunk=False)
        got = np.asarray(r.compute(scheduler="sync"))
    except Exception as e:
        ctx.fail("map_overlap over several arrays raised " + type(e).__name__, observed=repr(e)[:300])
        return
    if got.shape != exp.shape or (got != exp).any():
        ctx.fail("map_overlap over several arrays with per-array depth/boundary differs from the sum of the per-argument "
                 "pad-apply-trim references", observed=[list(got.shape), got.tolist()], expected=[list(exp.shape), exp.tolist()])
        return
    if tuple(sum(c) for c in r.chunks) != got.shape:
        ctx.fail("map_overlap over several arrays: declared chunks do not add up to the computed shape",
                 observed=[list(c) for c in r.chunks], expected=list(got.shape))
    ctx.branch("mapovn-%d-arrays" % len(specs))
    ctx.branch("mapovn-align" if inp["align"] else "mapovn-no-align")
    hi = [i for i, x in enumerate(ranks) if x == max(ranks)]
    if len(hi) > 1:
        ctx.branch("mapovn-tie-on-highest-rank")
        if any(specs[i]["depth"] != specs[hi[0]]["depth"] for i in hi[1:]):
            ctx.branch("mapovn-tie-with-different-depths")
        if any(specs[i]["boundary"] != specs[hi[0]]["boundary"] for i in hi[1:]):
            ctx.branch("mapovn-tie-with-different-boundaries")
    if len(set(ranks)) > 1:
        ctx.branch("mapovn-unequal-ranks")


def case_mapov3(ctx, inp):
    """map_overlap with drop_axis / new_axis (depth and boundary are renumbered for the trim) and with trim=False."""
    import numpy as np
    import dask.array as da
    chunks = tuple(tuple(c) for c in inp["chunks"])
    shape = tuple(sum(c) for c in chunks)
    x = (np.arange(int(np.prod(shape))).reshape(shape) % 11 + 1).astype("int64")
    d = da.from_array(x, chunks=chunks)
    dep, k = inp["depth"], inp["boundary"]
    mode = inp["mode"]
    offs, w = inp["offsets"], inp["weights"]
    if mode == "trim_false":
        # 1-d, boundary none: block i of the result is f(window_i), window_i from the Lean block model
        f = _stencil(w, [[o] for o in offs])
        r = da.map_overlap(f, d, depth=dep, boundary="none", trim=False, dtype=x.dtype)
        wins = unsym(ctx.lean(Sym("overlapblocks"), dep, dep, _split(chunks[0])))
        for i, blk in _blocks_of(r).items():
            exp = f(x[wins[i[0]]])
            if blk.shape != exp.shape or (blk != exp).any():
                ctx.fail("map_overlap(trim=False): block differs from f(overlapped block)", observed=[list(i), blk.tolist()],
                         expected=exp.tolist())
                return
        ctx.branch("mapov3-trim-false")
        return
    # 2-d: stencil along axis 1 (depth there), axis 0 is one block
    f1 = _stencil(w, [[0, o] for o in offs])
    if k == "none" or dep == 0:
        xin, t = x, 0
    else:
        p = [(0, 0), (dep, dep)]
        xin = np.pad(x, p, mode=KINDS[k]) if k in KINDS else np.pad(x, p, mode="constant", constant_values=k)
        t = dep
    core = f1(xin)[:, t:xin.shape[1] - t or None]
    try:
        if mode == "drop_axis":
            r = da.map_overlap(lambda b: f1(b).sum(axis=0), d, depth={0: 0, 1: dep}, boundary={0: "none", 1: k}, drop_axis=0,
                               dtype=x.dtype)
            exp = core.sum(axis=0)
        else:
            r = da.map_overlap(lambda b: f1(b)[None], d, depth={0: 0, 1: dep}, boundary={0: "none", 1: k}, new_axis=0,
                               dtype=x.dtype)
            exp = core[None]
        got = np.asarray(r.compute(scheduler="sync"))
    except Exception as e:
        ctx.fail("map_overlap(%s) raised %s" % (mode, type(e).__name__), observed=repr(e)[:200])
        return
    if got.shape != exp.shape or (got != exp).any():
        ctx.fail("map_overlap(%s) differs from pad-apply-trim" % mode, observed=got.tolist(), expected=exp.tolist())
        return
    if tuple(r.shape) != exp.shape:
        ctx.fail("map_overlap(%s) lazy shape wrong" % mode, observed=list(r.shape), expected=list(exp.shape))
    ctx.branch("mapov3-" + mode)


def case_swv(ctx, inp):
    import numpy as np
    import dask.array as da
    chunks = tuple(tuple(c) for c in inp["chunks"])
    shape = tuple(sum(c) for c in chunks)
    x = np.arange(int(np.prod(shape))).reshape(shape)
    d = da.from_array(x, chunks=chunks)
    ws, axis = inp["window"], inp["axis"]
    ws_arg = ws[0] if inp.get("scalar") and len(ws) == 1 else tuple(ws)
    ax_arg = None if axis is None else (axis[0] if len(axis) == 1 and inp.get("scalar") else tuple(axis))
    try:
        exp = np.lib.stride_tricks.sliding_window_view(x, ws_arg, axis=ax_arg)
    except ValueError:
        ctx.note("numpy-rejects")
        return
    try:
        r = da.lib.stride_tricks.sliding_window_view(d, ws_arg, axis=ax_arg, automatic_rechunk=inp.get("auto", True))
        got = np.asarray(r.compute(scheduler="sync"))
    except Exception as e:
        ctx.fail("sliding_window_view raised " + type(e).__name__, observed=repr(e)[:200])
        return
    if got.shape != exp.shape or (got != exp).any():
        ctx.fail("sliding_window_view differs from NumPy", observed=[list(got.shape)], expected=[list(exp.shape)])
        return
    if tuple(r.shape) != exp.shape:
        ctx.fail("sliding_window_view lazy shape differs", observed=list(r.shape), expected=list(exp.shape))
    else:
        for idx, blk in _blocks_of(r).items():
            want = tuple(r.chunks[a][b] for a, b in enumerate(idx))
            if blk.shape != want:
                ctx.fail("sliding_window_view: block shape differs from the lazy chunks", observed=[list(idx), list(blk.shape)],
                         expected=list(want))
                break
    ctx.branch("swv")
    if any(len(c) > 1 for c in chunks):
        ctx.branch("swv-multiblock")
    if axis is not None and len(set(axis)) < len(axis):
        ctx.branch("swv-repeated-axis")


CASES = {"trimarg": case_trimarg, "mapovn": case_mapovn, "ovb": case_ovb, "swvblocks": case_swvblocks, "mapov3": case_mapov3, "mapov2": case_mapov2, "chunks": case_chunks, "emc": case_emc, "blocks": case_blocks, "bnd": case_bnd, "trimid": case_trimid,
         "mapov": case_mapov, "swv": case_swv}
CASES.update(_c26x.CASES)      # extension round: ndblocks, ndmapov (N-d product of the 1-d index maps)


# --------------------------------------------------------------------------------------
# generators
# --------------------------------------------------------------------------------------

def _rand_depth(rng, maxd=3, asym=0.4):
    if rng.random() < asym:
        return [rng.randint(0, maxd), rng.randint(0, maxd)]
    return rng.randint(0, maxd)


def _chunks_at_least(rng, n, m):
    """a chunking of n whose chunks are all >= m (or one chunk)"""
    if m <= 1:
        return list(random_chunks(rng, n))
    out, left = [], n
    while left >= 2 * m and rng.random() < 0.7:
        c = rng.randint(m, min(left - m, m + 3))
        out.append(c)
        left -= c
    out.append(left)
    rng.shuffle(out)
    return out


def generate(ctx):
    rng = ctx.rng
    thorough = ctx.thorough()
    # chunk arithmetic: all chunkings of small axes x depths
    for n in range(1, 6):
        for c in compositions(n):
            for dl, dr in itertools.product(range(0, 3), repeat=2):
                if thorough or rng.random() < 0.35:
                    yield "chunks", {"chunks": [list(c)], "depth": [[dl, dr] if dl != dr or rng.random() < 0.5 else dl]}
    for _ in range(ctx.n(150, 3000)):
        nd = rng.randint(1, 3)
        chunks = [list(random_chunks(rng, rng.randint(1, 9))) for _ in range(nd)]
        bn = rng.random() < 0.7
        yield "chunks", {"chunks": chunks, "depth": [_rand_depth(rng, asym=0.4 if bn else 0.0) for _ in range(nd)], "boundary_none": bn}
    # ensure_minimum_chunksize: exhaustive small + random
    for n in range(1, 7):
        for c in compositions(n):
            for size in range(1, n + 2):
                if thorough or rng.random() < 0.5:
                    yield "emc", {"size": size, "chunks": list(c)}
    for _ in range(ctx.n(600, 10000)):
        k = rng.randint(1, 8)
        size = rng.randint(1, 8)
        chunks = [rng.choice([1, 1, 2, 3, size, size + 1, 2 * size + rng.randint(0, 3), rng.randint(1, 12)]) for _ in range(k)]
        yield "emc", {"size": size, "chunks": chunks}
    # block windows
    for n in range(1, 6):
        for c in compositions(n):
            for dl, dr in itertools.product(range(0, 3), repeat=2):
                if rng.random() < (0.12 if not thorough else 1.0):
                    yield "blocks", {"chunks": [list(c)], "depth": [[dl, dr]]}
    for _ in range(ctx.n(60, 1000)):
        nd = rng.randint(1, 3)
        depth = [_rand_depth(rng, maxd=2) for _ in range(nd)]
        chunks = [_chunks_at_least(rng, rng.randint(max(1, max(_lr(d))), 7), max(_lr(d))) if rng.random() < 0.85
                  else list(random_chunks(rng, rng.randint(1, 6))) for d in depth]
        yield "blocks", {"chunks": chunks, "depth": depth}
    # boundaries
    for _ in range(ctx.n(60, 800)):
        nd = rng.randint(1, 3)
        chunks = [list(random_chunks(rng, rng.randint(1, 6))) for _ in range(nd)]
        depth = [rng.randint(0, min(3, sum(c))) for c in chunks]
        kind = [rng.choice(["periodic", "reflect", "nearest", "none", 0, -5]) for _ in range(nd)]
        yield "bnd", {"chunks": chunks, "depth": depth, "kind": kind}
    # trim . overlap = id through the public overlap()
    for _ in range(ctx.n(70, 1000)):
        nd = rng.randint(1, 3)
        chunks = [list(random_chunks(rng, rng.randint(1, 7))) for _ in range(nd)]
        bnd = [rng.choice(["periodic", "reflect", "nearest", "none", "none", 0]) for _ in range(nd)]
        depth = [(_rand_depth(rng, maxd=3) if b == "none" else rng.randint(0, 3)) for b in bnd]
        yield "trimid", {"chunks": chunks, "depth": depth, "boundary": bnd}
    # map_overlap with random linear stencils of radius <= depth
    for _ in range(ctx.n(90, 1500)):
        nd = rng.randint(1, 3)
        chunks = [list(random_chunks(rng, rng.randint(1, 8))) for _ in range(nd)]
        bnd = [rng.choice(["periodic", "reflect", "nearest", "none", "none", 0, 3]) for _ in range(nd)]
        depth = [(_rand_depth(rng, maxd=2) if b == "none" else rng.randint(0, 2)) for b in bnd]
        k = rng.randint(1, 4)
        offsets = [[rng.randint(-_lr(d)[0], _lr(d)[1]) for d in depth] for _ in range(k)]
        weights = [rng.randint(-3, 3) or 1 for _ in range(k)]
        yield "mapov", {"chunks": chunks, "depth": depth, "boundary": bnd, "offsets": offsets, "weights": weights,
                        "allow_rechunk": rng.random() < 0.85}
    # scale: more than 10 blocks along an axis (block keys 9.9 / 10.1 ... in the overlap layer)
    for _ in range(ctx.n(5, 50)):
        nb = rng.randint(11, 14)
        d = rng.randint(1, 2)
        lengths = [rng.randint(d, d + 2) for _ in range(nb)]
        yield "blocks", {"chunks": [lengths], "depth": [[rng.randint(0, d), rng.randint(0, d)]]}
        bnd = rng.choice(["periodic", "reflect", "nearest", "none", 0])
        k = rng.randint(1, 3)
        yield "mapov", {"chunks": [lengths, [2]], "depth": [d, 0], "boundary": [bnd, "none"],
                        "offsets": [[rng.randint(-d, d), 0] for _ in range(k)], "weights": [rng.randint(1, 3) for _ in range(k)],
                        "allow_rechunk": True}
    # map_overlap over two arrays of different rank, per-array depth/boundary lists
    for _ in range(ctx.n(40, 600)):
        chunks = [list(random_chunks(rng, rng.randint(2, 6))), list(random_chunks(rng, rng.randint(2, 7)))]
        d0, d1 = rng.randint(0, 2), rng.randint(0, 2)
        k = rng.randint(1, 3)
        yield "mapov2", {"chunks": chunks, "depth": [d0, d1], "boundary0": rng.choice(["none", "reflect", "periodic", 0]),
                         "boundary": rng.choice(["none", "reflect", "periodic", "nearest", 1]),
                         "offsets": [[rng.randint(-d0, d0), rng.randint(-d1, d1)] for _ in range(k)],
                         "weights": [rng.randint(-2, 3) or 1 for _ in range(k)], "low_rank_first": rng.random() < 0.5}
    # which argument drives the trim: ranks with ties, pairwise different depths
    for _ in range(ctx.n(40, 500)):
        k = rng.randint(2, 4)
        ranks = [rng.randint(1, 3) for _ in range(k)]
        if rng.random() < 0.6:
            ranks[rng.randrange(k)] = max(ranks)        # a tie on the highest rank
            j = rng.randrange(k)
            ranks[j] = max(ranks)
        depths = rng.sample(range(0, 5), k)
        m = 2 * max(depths) + 1          # every trimmed chunk stays positive whichever argument drives the trim
        c = _chunks_at_least(rng, rng.randint(m, m + 12), m)
        yield "trimarg", {"ranks": ranks, "depths": depths, "chunks": c, "align": rng.random() < 0.6}
    # map_overlap over 2-3 arrays, per-array depth and boundary that differ
    for _ in range(ctx.n(70, 1200)):
        k = rng.choice([2, 2, 3])
        ranks = [rng.choice([2, 2, 1]) for _ in range(k)]
        if rng.random() < 0.5:
            ranks[0] = ranks[-1] = 2 if rng.random() < 0.8 else 1
        two_d = 2 in ranks
        args, maxd = [], [0, 0]
        for rk in ranks:
            nax = rk
            bnd = [rng.choice(["periodic", "reflect", "nearest", "none", "none", 0, 5]) for _ in range(nax)]
            if rng.random() < 0.3:
                bnd = [bnd[0]] * nax
            depth = [rng.randint(0, 3) for _ in range(nax)]
            if rng.random() < 0.2:
                depth = [depth[0]] * nax
            for ax in range(nax):
                g = ax + (2 - rk)
                maxd[g] = max(maxd[g], depth[ax])
            kk = rng.randint(1, 3)
            args.append({"rank": rk, "depth": depth, "boundary": bnd,
                         "offsets": [[rng.randint(-depth[ax], depth[ax]) for ax in range(nax)] for _ in range(kk)],
                         "weights": [rng.randint(-3, 3) or 1 for _ in range(kk)],
                         "dstyle": rng.choice(["dict", "int", "tuple"]), "bstyle": rng.choice(["dict", "scalar"])})
        # the lazy chunks of the result come, axis by axis, from the FIRST argument that has the axis, the trim from the
        # first argument of highest rank (T): a lower-rank argument in front of T must agree with T on the axes they share
        T = ranks.index(max(ranks))
        for i in range(T):
            rk = ranks[i]
            for ax in range(rk):
                g = ax + (ranks[T] - rk)
                args[i]["depth"][ax] = args[T]["depth"][g]
                args[i]["boundary"][ax] = args[T]["boundary"][g]
            args[i]["offsets"] = [[max(-args[i]["depth"][ax], min(args[i]["depth"][ax], o[ax])) for ax in range(rk)]
                                  for o in args[i]["offsets"]]
        # (an axis of total length one counts as broadcastable in blockwise: its lazy chunks would come from another argument)
        n0 = rng.randint(max(2, maxd[0]), max(2, maxd[0]) + 5) if two_d else 1
        n1 = rng.randint(max(2, maxd[1]), max(2, maxd[1]) + 6)
        chunks = [_chunks_at_least(rng, n0, max(1, maxd[0])), _chunks_at_least(rng, n1, max(1, maxd[1]))]
        yield "mapovn", {"chunks": chunks, "args": args, "align": rng.random() < 0.6}
    # map_overlap with drop_axis / new_axis / trim=False
    for _ in range(ctx.n(45, 500)):
        mode = rng.choice(["drop_axis", "new_axis", "trim_false"])
        dep = rng.randint(1, 2)
        kk = rng.randint(1, 3)
        offs = [rng.randint(-dep, dep) for _ in range(kk)]
        ws = [rng.randint(-2, 3) or 1 for _ in range(kk)]
        if mode == "trim_false":
            n = rng.randint(dep, 9)
            yield "mapov3", {"mode": mode, "chunks": [_chunks_at_least(rng, n, dep)], "depth": dep, "boundary": "none",
                             "offsets": offs, "weights": ws}
        else:
            yield "mapov3", {"mode": mode, "chunks": [[rng.randint(1, 3)], list(random_chunks(rng, rng.randint(dep, 8)))],
                             "depth": dep, "boundary": rng.choice(["none", "reflect", "periodic", "nearest", 2]),
                             "offsets": offs, "weights": ws}
    # overlap() with a boundary: blocks vs the Lean overlapWithBoundary
    for _ in range(ctx.n(70, 1000)):
        nd = rng.randint(1, 2)
        bnd = [rng.choice(["periodic", "reflect", "nearest", "none", 0, 7]) for _ in range(nd)]
        depth = [rng.randint(0, 2) for _ in range(nd)]
        chunks = [_chunks_at_least(rng, rng.randint(max(1, dd), 7), max(1, dd)) for dd in depth]
        yield "ovb", {"chunks": chunks, "depth": depth, "boundary": bnd}
    if thorough:
        # exhaustive small spaces: every chunking of n <= 6 whose chunks are >= depth x every boundary kind; every
        # chunking of n <= 8 whose chunks are >= window - 1 x every window
        for n in range(1, 7):
            for c in compositions(n):
                for dep in (1, 2):
                    if min(c) < dep:
                        continue
                    for b in ("periodic", "reflect", "nearest", 0):
                        yield "ovb", {"chunks": [list(c)], "depth": [dep], "boundary": [b]}
        for n in range(1, 9):
            for c in compositions(n):
                for w in range(1, 5):
                    if w <= n and min(c) >= w:
                        yield "swvblocks", {"chunks": [list(c)], "window": w, "axis": 0}
    # sliding_window_view block by block
    for _ in range(ctx.n(70, 1000)):
        nd = rng.randint(1, 2)
        axis = rng.randrange(nd)
        w = rng.randint(1, 4)
        chunks = [list(random_chunks(rng, rng.randint(1, 4))) for _ in range(nd)]
        chunks[axis] = _chunks_at_least(rng, rng.randint(w, w + 12), w)
        yield "swvblocks", {"chunks": chunks, "window": w, "axis": axis}
    # sliding_window_view
    for _ in range(ctx.n(50, 800)):
        nd = rng.randint(1, 3)
        chunks = [list(random_chunks(rng, rng.randint(1, 7))) for _ in range(nd)]
        if rng.random() < 0.4:
            axis = None
            window = [rng.randint(1, sum(c)) for c in chunks]
        else:
            m = rng.randint(1, nd)
            axis = [rng.randrange(nd) for _ in range(m)]
            window = [rng.randint(1, max(1, sum(chunks[a]) // (1 + axis.count(a) // 2))) for a in axis]
        yield "swv", {"chunks": chunks, "window": window, "axis": axis, "scalar": rng.random() < 0.5, "auto": rng.random() < 0.7}
    yield from _c26x.generate(ctx)
