"""C30 — the array expression engine preserves array semantics (PARTIAL).

Model:    lean/DaskModel/Model/ArrayExpr.lean (1-d integer expression AST, `den`, `chunks`, the engine's rewrite rules,
          the pass checker `parStep`)
Theorems: lean/DaskModel/Props/C30.lean (chunks_sum, step_sound, step_chunks, parStep_sound, chain_sound, + sound rules
          the engine does not have yet)
Tie:      the expression engine only exists behind the import-time switch `array.query-planning`, so it runs in a
          CHILD process (harness/props/_c30_child.py); programs (harness/props/_c30_prog.py) are interpreted by NumPy,
          by the classic engine (this process) and by the expression engine (child).
          `trace`: for 1-d integer pipelines over the modelled node types the child replays the optimizer
          (simplify*, lower*, simplify*) and exports every pass; every pass must be accepted by the proved checker
          (`aestep`), every exported tree must denote (Lean `aeeval`) the computed value, and the model's per-node chunks
          must equal the engine's. `pipe`: random n-d pipelines over the supported operations: values, shape, chunks and
          dtype vs NumPy and vs the classic engine.
          Extension round: lean/DaskModel/Model/ArrayExprNd.lean + Props/C30xNd.lean (n-d model and rule soundness), section
          `tracend` in harness/props/_c30x.py (every real pass of n-d pipelines vs the n-d checker `parStepNd`).
"""
from __future__ import annotations

import atexit
import itertools
import math
import json
import os
import subprocess
import sys
import warnings

import numpy as np

from sexp import Sym
from props import _reduce_util as U
from props import _c30_prog as P
from props import _c30x as X

PROP = "C30"
READY = True
DRIVER = "dm_reduce"
LEAN_MODULES = ["DaskModel.Props.C30", "DaskModel.Props.C30xNd"]
CASE_TIMEOUT_S = 40
LEVEL_TEXT = (
    "PARTIAL. Proved in Lean 4 for a 1-d integer expression language (leaf, elementwise neg/abs/square, add/sub/mul/maximum of "
    "two arrays or array and scalar, slice, rechunk, concatenate, finalize): chunks_sum (reported chunks always sum to the "
    "length of the denoted value), step_sound / step_chunks (each rewrite the engine has in this tree — rechunk elision, "
    "FinalizeCompute → operand or rechunk-to-one-block, Elemwise operand alignment — preserves value, shape and reported "
    "chunks), parStep_sound (a whole simplify/lower pass accepted by the executable checker preserves the denotation) and "
    "chain_sound (any finite sequence of passes); every pass the real optimizer makes on generated pipelines of that subset is "
    "exported from a query-planning child process and must be accepted by the checker. Reductions: the depth loop of the "
    "engine's _tree_reduce is modelled (treeDepth) — tree_depth_suffices (n_i ≤ k_i^depth on every reduced axis), "
    "last_axis_depth_refuted (depth from the last reduced axis only is too small on a 6×2 grid); the PartialReduce chain of "
    "the real expression (number of levels, key structure of every level) is diffed against treeDepth / treePlan, the model "
    "for which Props/C22 proves that the tree returns the fold of all blocks. Extension (Props/C30xNd, n-d: arrays as "
    "functions of index lists, per-axis chunks; leaves, elementwise ops with NumPy broadcasting, SliceSlicesIntegers with "
    "integers and slices of any step, rechunk, transpose, k-ary concatenate, opaque nodes = any function of the operands' "
    "values, finalize): chunks_sum_nd (reported chunks add up to the shape on every axis; unify_dims for broadcasting "
    "Elemwise through the modelled unify_chunks_expr incl. the common_blockdim loop), step_sound_nd (each of the three rules "
    "this tree has — rechunk elision, FinalizeCompute → operand / Rechunk(-1,…), Elemwise operand alignment with broadcast "
    "axes and operands of fewer axes — preserves the denotation exactly), step_shape_nd, step_chunks_nd (elision and "
    "finalize; chunk preservation of the alignment rule is diffed, not proved), parStepNd_sound / chain_sound_nd (a pass "
    "accepted by the n-d checker maps an expression denoting v to one denoting v or raising; every exported tree is "
    "evaluated), and for rules the engine does not have: rechunk_rechunk_nd, slice_slice_fusion_nd (+ arith_slices_fuse), "
    "slice_elemwise_pushdown_nd (through broadcasting), slice_transpose_nd (sel-only indices for the last two). Section "
    "tracend exports every real simplify_once / lower_once (before, after) pair of generated n-d pipelines to the checker and "
    "counts them (branches 'nd real pass accepted …'): all real passes are inside the modelled subset, about a fifth of "
    "them with opaque operands (stack, map_blocks, newaxis, reductions). Still validated only (differentially against NumPy "
    "and the classic engine): values of reductions, map_blocks, stack, creation routines, dtype, floats; termination of the "
    "optimizer is observed (pass budget), not proved."
)
LEVEL_NOTE = ("Trusted: Lean kernel + standard axioms; the child-side exporter that maps expression nodes to the model AST and "
              "PartialReduce._layer() to key lists; NumPy and the classic dask.array engine as oracles. Nodes outside the modelled "
              "subset are counted in the evidence (branch 'outside modelled subset'), not failed.")
TECHNIQUE = "Lean 4 proof (rule soundness + proved pass checker = translation validation of optimizer traces; depth loop of the reduction tree) + differential testing in a query-planning subprocess"
ASSUMPTIONS = ["n-d extension: the exporter node_nd maps FromArray/creation nodes/Elemwise/SliceSlicesIntegers/Rechunk/TasksRechunk/Transpose/Concatenate to the n-d AST and every other node to an opaque node whose tag is its type and non-expression operands (diffed: per-node chunks of every tree, denotation = computed value for trees without opaque nodes); an opaque node's value depends only on its operands' values",
               "the exporter's mapping of FromArray/Elemwise/SliceSlicesIntegers/Rechunk/TasksRechunk/Concatenate/FinalizeComputeArray to the model AST is faithful (diffed: per-node chunks, denotation = computed value)",
               "float math.ceil(math.log(n, k)) of the depth loop is treeDepth or treeDepth + 1 (checked on every generated grid)"]
TRUSTED = ["harness/props/_c30_child.py exporter", "NumPy and the classic array engine as oracles"]

_CHILD = None


def _child():
    global _CHILD
    if _CHILD is None or _CHILD.poll() is not None:
        env = dict(os.environ)
        env["DASK_ARRAY__QUERY_PLANNING"] = "True"
        env["DASK_REPO"] = os.environ.get("DASK_REPO", "/repo")
        env["PYTHONDONTWRITEBYTECODE"] = "1"
        here = os.path.dirname(os.path.abspath(__file__))
        _CHILD = subprocess.Popen([sys.executable, os.path.join(here, "_c30_child.py")], stdin=subprocess.PIPE,
                                  stdout=subprocess.PIPE, stderr=subprocess.DEVNULL, text=True, bufsize=1, env=env)
        atexit.register(_kill)
    return _CHILD


def _kill():
    global _CHILD
    if _CHILD is not None:
        try:
            _CHILD.kill()
        except Exception:
            pass
        _CHILD = None


def ask(req):
    ch = _child()
    try:
        ch.stdin.write(json.dumps(req) + "\n")
        ch.stdin.flush()
        line = ch.stdout.readline()
    except BaseException:
        _kill()           # a timeout or a broken pipe: never reuse a child that may be out of sync
        raise
    if not line:
        _kill()
        return {"status": "child-died"}
    return json.loads(line)


def _da():
    import dask
    import dask.array as da
    dask.config.set(scheduler="sync")
    return da


def to_sexp(n):
    t = n["t"]
    if t == "leaf":
        return [Sym("leaf"), [int(v) for v in n["data"]], n["chunks"]]
    if t == "un":
        return [Sym("un"), Sym(n["op"]), to_sexp(n["a"])]
    if t == "bin":
        return [Sym("bin"), Sym(n["op"]), to_sexp(n["a"]), to_sexp(n["b"])]
    if t == "bins":
        return [Sym("bins"), Sym(n["op"]), to_sexp(n["a"]), int(n["s"])]
    if t == "slice":
        return [Sym("slice"), n["s"], n["e"], to_sexp(n["a"])]
    if t == "rechunk":
        return [Sym("rechunk"), n["chunks"], to_sexp(n["a"])]
    if t == "concat":
        return [Sym("concat"), to_sexp(n["a"]), to_sexp(n["b"])]
    if t == "finalize":
        return [Sym("finalize"), to_sexp(n["a"])]
    raise KeyError(t)


def has_other(n):
    if n["t"] == "other":
        return n["name"]
    for k in ("a", "b"):
        if k in n:
            r = has_other(n[k])
            if r:
                return r
    return None


def preorder_nc(n):
    out = [n["nc"]]
    for k in ("a", "b"):
        if k in n:
            out += preorder_nc(n[k])
    return out


def case_trace(ctx, inp):
    da = _da()
    prog = inp["prog"]
    ref = np.asarray(P.build(prog, np, False))
    ans = ask({"prog": prog, "trace": True})
    if ans["status"] != "ok":
        ctx.fail(f"expression engine failed on a pipeline of supported operations: {ans['status']}: {ans.get('error')}", observed=ans.get("error"))
        return
    val = P.dec_value(ans["value"])
    if val.shape != ref.shape or not np.array_equal(val, ref):
        ctx.fail("expression engine value differs from NumPy", observed=val.tolist(), expected=ref.tolist())
    classic = P.build(prog, da, True)
    if [list(c) for c in classic.chunks] != ans["lazy_chunks"]:
        ctx.fail("expression engine chunks differ from the classic engine", observed=ans["lazy_chunks"], expected=[list(c) for c in classic.chunks])
    if ans["opt_chunks"] != ans["lazy_chunks"]:
        ctx.fail("optimized expression reports different chunks than the unoptimized one", observed=ans["opt_chunks"], expected=ans["lazy_chunks"])
    passes = ans["passes"]
    if any(st == "no-convergence" for st, _ in passes):
        ctx.fail("optimizer did not converge within 50 passes")
        return
    prev = None
    for stage, tree in passes:
        other = has_other(tree)
        if other:
            ctx.branch("outside modelled subset")
            ctx.note("unmodelled:" + other)
            return
        sx = to_sexp(tree)
        r = ctx.lean(Sym("aeeval"), sx)
        if r[0] != "ok":
            ctx.disagree(f"model says the {stage} expression does not denote a value", r, val.tolist())
            return
        ctx.eq(f"denotation of the expression after pass '{stage}' vs the computed value", r[1], [int(v) for v in val])
        model_nc = [None if (i == 0 and tree["t"] == "finalize") else [c] for i, c in enumerate(r[2])]
        impl_nc = preorder_nc(tree)
        if tree["t"] == "finalize":
            impl_nc[0] = None
        ctx.eq(f"per-node chunks after pass '{stage}' (model vs engine)", model_nc, impl_nc)
        if prev is not None:
            ok = ctx.lean(Sym("aestep"), prev, sx)
            if ok is not True:
                ctx.disagree(f"optimizer pass '{stage}' is not a combination of the modelled (proved sound) rewrite rules",
                             "accepted", "rejected")
                ctx.note("rejected-pass")
        prev = sx
    ctx.branch(f"passes={min(len(passes) - 1, 4)}")
    flat = json.dumps(passes[-1][1])
    if '"rechunk"' in flat and len(passes) > 2:
        ctx.branch("alignment or finalize rechunk inserted")
    if len(passes) >= 2 and json.dumps(passes[0][1]).count('"rechunk"') > flat.count('"rechunk"') - 1:
        ctx.branch("rechunk elided")


def case_pipe(ctx, inp):
    da = _da()
    prog = inp["prog"]
    got_np, _ = U.run_both(lambda: np.asarray(P.build(prog, np, False)), lambda: None)
    if got_np[0] == "raised":
        ctx.branch("numpy-raises")
        return
    ref = got_np[1]
    ans = ask({"prog": prog, "trace": False})
    if ans["status"] == "unsupported":
        ctx.fail(f"operation reported as not implemented for the expression engine: {ans.get('error')}", observed=ans.get("error"))
        return
    if ans["status"] != "ok":
        ctx.fail(f"expression engine failed: {ans['status']}: {ans.get('error')}", observed=ans.get("error"))
        return
    if "_array_expr" not in ans.get("engine", ""):
        ctx.fail("the child did not run the expression engine", observed=ans.get("engine"))
    val = P.dec_value(ans["value"])
    exact = ref.dtype.kind in "iub"
    if not U.same_values(val, ref, exact, U.fsum_abs(ref)):
        ctx.fail("expression engine value differs from NumPy", observed=val.tolist(), expected=ref.tolist())
    if ans["lazy_shape"] != list(ref.shape):
        ctx.fail("expression engine shape differs from NumPy", observed=ans["lazy_shape"], expected=list(ref.shape))
    classic = P.build(prog, da, True)
    cval = np.asarray(classic.compute(scheduler="sync"))
    if not U.same_values(val, cval, exact, U.fsum_abs(ref)):
        ctx.fail("expression engine value differs from the classic engine", observed=val.tolist(), expected=cval.tolist())
    cchunks = [list(map(int, c)) for c in classic.chunks]
    if cchunks != ans["lazy_chunks"]:
        ctx.fail("expression engine chunks differ from the classic engine", observed=ans["lazy_chunks"], expected=cchunks)
    if any(0 in c for c in cchunks):
        ctx.branch("zero-length chunk in the result")
    if str(classic.dtype) != ans["lazy_dtype"]:
        ctx.fail("expression engine dtype differs from the classic engine", observed=ans["lazy_dtype"], expected=str(classic.dtype))
    if ans["opt_chunks"] != ans["lazy_chunks"]:
        ctx.fail("optimized expression reports different chunks", observed=ans["opt_chunks"], expected=ans["lazy_chunks"])
    for op in sorted(set(_ops(prog))):
        ctx.branch("op=" + op)
    if prog["op"] == "rechunk" or (prog["op"] == "reduce" and prog["a"]["op"] == "rechunk" and prog["a"]["a"]["op"] == "from_array"):
        ctx.branch("multi-stage rechunk stream")


def _ops(p):
    out = [p["op"]]
    for k in ("a", "b"):
        if isinstance(p.get(k), dict) and "op" in p[k]:
            out += _ops(p[k])
    for q in p.get("args", []):
        out += _ops(q)
    return out


def _alter(p):
    """the same program over leaves with other values (same shapes, chunks and dtypes)"""
    if not isinstance(p, dict) or "op" not in p:
        return p
    q = dict(p)
    if p["op"] == "from_array":
        q["data"] = [(-v if isinstance(v, int) else v) + 1 if not isinstance(v, str) else v for v in reversed(p["data"])]
    elif p["op"] == "full":
        q["value"] = p["value"] + 1
    for k in ("a", "b"):
        if isinstance(p.get(k), dict):
            q[k] = _alter(p[k])
    if "args" in p:
        q["args"] = [_alter(r) for r in p["args"]]
    return q


def case_joint(ctx, inp):
    """several pipelines computed in one graph by the expression engine: variants of one pipeline on the same leaves,
    the same pipelines over leaves with other values, and pairwise differences inside ONE expression"""
    progs = list(inp["progs"]) + [_alter(p) for p in inp["progs"]]
    ans = ask({"progs": progs})
    if ans["status"] != "ok":
        ctx.fail(f"expression engine failed on a joint computation: {ans['status']}: {ans.get('error')}", observed=ans.get("error"))
        return
    for i in ans["bad"]:
        ctx.fail("a pipeline computed together with others differs from the same pipeline computed alone",
                 observed={"index": i, "prog": progs[i], "same_name_as": [j for j, n in enumerate(ans["names"]) if j != i and n == ans["names"][i]]})
    for i, j in ans.get("bad_pairs", []):
        ctx.fail("x_i - x_j inside one expression differs from the difference of the two pipelines' own values",
                 observed={"i": progs[i], "j": progs[j]})
    for i, p in enumerate(progs):
        with warnings.catch_warnings():
            warnings.simplefilter("ignore")
            ref = np.asarray(P.build(p, np, False))
        v = ans["values"][i]
        got = np.array([float(x) if isinstance(x, str) else x for x in v["data"]], dtype=v["dtype"]).reshape(v["shape"])
        if got.shape != ref.shape or not np.allclose(got.astype(float), ref.astype(float), rtol=1e-9, atol=1e-9, equal_nan=True):
            ctx.fail("joint: a pipeline differs from NumPy", observed={"prog": p, "got": got.tolist()}, expected=ref.tolist())
    ctx.branch(f"joint×{len(inp['progs'])}")


def case_tree(ctx, inp):
    """Function level: the PartialReduce chain that the expression engine's `_tree_reduce` builds for a grid of blocks
    — number of levels vs the Lean depth loop (`treeDepth`: running maximum over the reduced axes), key structure of every
    level vs `treePlan` (the model of partial_reduce that C22 proves correct), oracle: every level consumes each block of
    the previous one exactly once, n_i ≤ k_i^depth on every reduced axis, one output block per kept cell."""
    nb = list(inp["numblocks"])
    ans = ask({"tree": inp})
    if ans["status"] == "unsupported":
        ctx.branch("unsupported by the engine")
        return
    if ans["status"] != "ok":
        ctx.fail("expression engine: building/computing a grid reduction failed: " + ans.get("error", ans["status"]))
        return
    levels = ans["levels"]
    depth = len(levels)
    if depth == 0:
        ctx.fail("no PartialReduce level in a reduction", observed=ans)
        return
    split = {int(k): v for k, v in levels[0]["split"].items()}
    nd = len(nb)
    axes = sorted(split)
    sp = [split.get(i) for i in range(nd)]
    for lv in levels:
        if {int(k): v for k, v in lv["split"].items()} != split:
            ctx.fail("levels of one tree use different split_every", observed=[lv["split"], split])
    if [lv["keepdims"] for lv in levels] != [True] * (depth - 1) + [bool(inp["keepdims"])]:
        ctx.fail("keepdims of the levels is not (True, …, True, keepdims)", observed=[lv["keepdims"] for lv in levels])
    if all(k >= 2 for k in split.values()):
        md, md_last = ctx.lean(Sym("treedepth"), sp, nb)
        # the float formula itself (what the loop evaluates): the real tree must have exactly that many levels
        fl = max([1] + [math.ceil(math.log(nb[i], split[i])) for i in split if split[i] != 1])
        if depth != fl:
            ctx.fail(f"the tree has {depth} levels, the depth loop max(1, ceil(log(n_i, k_i))) gives {fl}", observed=depth, expected=fl)
        if depth not in (md, md + 1):
            ctx.fail(f"depth {depth} of the PartialReduce chain is not the depth of the _tree_reduce loop ({md}, or one more "
                     "through float rounding)", observed=depth, expected=md)
        elif depth == md + 1:
            ctx.branch("float-depth-overshoot")
        if md_last < md:
            ctx.branch("an earlier reduced axis needs more levels than the last one")
    model = ctx.lean(Sym("plan"), nb, sp, bool(inp["keepdims"]), depth)
    impl = [lv["round"] for lv in levels]
    ctx.eq("PartialReduce key structure of every level", model, impl)
    prev = sorted(itertools.product(*[range(n) for n in nb]))
    for r, lv in enumerate(levels):
        used = sorted(tuple(c) for _, ins in lv["round"] for c in ins)
        if used != prev:
            ctx.fail(f"level {r} does not consume every block of the previous level exactly once",
                     observed={"used": used[:16], "available": prev[:16]})
            break
        keys = [tuple(k) for k, _ in lv["round"]]
        if len(set(keys)) != len(keys):
            ctx.fail(f"level {r}: several tasks write the same output key (the last one wins)", observed=sorted(keys)[:8])
            break
        prev = sorted(keys)
    for ax in axes:
        if nb[ax] > split[ax] ** depth:
            ctx.fail(f"depth {depth} too small on axis {ax}: {nb[ax]} blocks > {split[ax]}^{depth}", observed=depth)
    exp_nb = [(1 if i in axes else n) for i, n in enumerate(nb) if inp["keepdims"] or i not in axes]
    if ans["numblocks"] != exp_nb:
        ctx.fail("numblocks of the reduction result", observed=ans["numblocks"], expected=exp_nb)
    ref = getattr(np, inp["fn"])(np.ones(tuple(nb)), axis=tuple(axes) if inp["axis"] is not None else None, keepdims=inp["keepdims"])
    val = P.dec_value(ans["value"])
    if val.shape != ref.shape or not np.allclose(val, ref):
        ctx.fail("grid reduction value differs from NumPy", observed=val.tolist(), expected=ref.tolist())
    ctx.branch(f"depth={min(depth, 4)}")
    if len(axes) > 1:
        ctx.branch("multi-axis")
    if len(set(nb[a] for a in axes)) > 1:
        ctx.branch("uneven block grid")


def case_tracend(ctx, inp):
    """extension round: n-d pipelines, every real simplify_once / lower_once pass vs the n-d checker parStepNd"""
    X.case_tracend(ctx, inp, ask, _da())


CASES = {"tree": case_tree, "trace": case_trace, "pipe": case_pipe, "joint": case_joint, "tracend": case_tracend}


# ---------------------------------------------------------------------------------------------

def _leaf1(rng, n):
    return {"op": "from_array", "data": [rng.randint(-5, 5) for _ in range(n)], "shape": [n], "dtype": "int64",
            "chunks": [list(U.rand_chunks_1d(rng, n))]}


def _trace_prog(rng, n, depth):
    """1-d integer program of length n over the modelled node types."""
    if depth == 0 or rng.random() < 0.15:
        return _leaf1(rng, n)
    r = rng.random()
    if r < 0.2:
        return {"op": "unary", "fn": rng.choice(["negative", "negative", "abs", "square"]), "a": _trace_prog(rng, n, depth - 1)}
    if r < 0.28:
        return {"op": "binary", "fn": rng.choice(["add", "subtract", "multiply", "maximum"]), "a": _trace_prog(rng, n, depth - 1),
                "b": {"scalar": rng.randint(-3, 3)}}
    if r < 0.5:
        return {"op": "binary", "fn": rng.choice(["add", "add", "subtract", "multiply", "maximum"]),
                "a": _trace_prog(rng, n, depth - 1), "b": _trace_prog(rng, n, depth - 1)}
    if r < 0.68:
        m = n + rng.randint(0, 4)
        s = rng.randint(0, m - n)
        return {"op": "getitem", "index": [[s, s + n, rng.choice([None, 1])]], "a": _trace_prog(rng, m, depth - 1)}
    if r < 0.86:
        sub = _trace_prog(rng, n, depth - 1)
        same = rng.random() < 0.25
        ch = None
        if same:
            try:
                import dask.array as da
                ch = [list(P.build(sub, da, True).chunks[0])]
            except Exception:
                ch = None
        return {"op": "rechunk", "chunks": ch or [list(U.rand_chunks_1d(rng, n))], "a": sub}
    if n >= 2:
        k = rng.randint(1, n - 1)
        return {"op": "concatenate", "axis": 0, "args": [_trace_prog(rng, k, depth - 1), _trace_prog(rng, n - k, depth - 1)]}
    return _leaf1(rng, n)


def _np_of(p):
    return np.asarray(P.build(p, np, False))


def _pipe_leaf(rng, shape):
    kind = rng.random()
    chunks = [list(c) for c in U.rand_chunks(rng, shape)]
    if kind < 0.6 or (kind < 0.75 and len(shape) != 1):
        dt = rng.choice(["int64", "int64", "float64"])
        n = U.prod_shape(shape)
        data = [rng.randint(-4, 4) for _ in range(n)] if dt == "int64" else [rng.choice([0.5, -1.25, 2.0, 3.75]) * rng.randint(-2, 2) for _ in range(n)]
        return {"op": "from_array", "data": data, "shape": list(shape), "dtype": dt, "chunks": chunks}
    if kind < 0.75:
        return {"op": "arange", "n": shape[0], "chunks": chunks}
    if kind < 0.9:
        return {"op": rng.choice(["ones", "zeros"]), "shape": list(shape), "chunks": chunks}
    return {"op": "full", "value": rng.randint(-3, 3), "shape": list(shape), "chunks": chunks}


def _pipe_prog(rng, shape, depth):
    if depth == 0 or rng.random() < 0.12:
        return _pipe_leaf(rng, shape)
    r = rng.random()
    if r < 0.15:
        return {"op": "unary", "fn": rng.choice(["negative", "abs", "square"]), "a": _pipe_prog(rng, shape, depth - 1)}
    if r < 0.4:
        rb = rng.random()
        if rb < 0.25:
            b = {"scalar": rng.randint(-3, 3)}
        elif rb < 0.8:
            b = _pipe_prog(rng, shape, depth - 1)
        elif rb < 0.9:
            b = _pipe_prog(rng, shape[-1:], depth - 1)
        else:
            b = _pipe_prog(rng, tuple(n if rng.random() < 0.5 else 1 for n in shape), depth - 1)
        return {"op": "binary", "fn": rng.choice(["add", "subtract", "multiply", "maximum"]), "a": _pipe_prog(rng, shape, depth - 1), "b": b}
    if r < 0.55:
        # slice a bigger array down to `shape`
        big, index = [], []
        for n in shape:
            step = rng.choice([1, 1, 2, -1])
            extra = rng.randint(0, 3)
            if step == 1:
                s = rng.randint(0, extra)
                big.append(n + extra)
                index.append([s, s + n, rng.choice([None, 1])])
            elif step == 2:
                big.append(2 * n + extra)
                index.append([0, 2 * n, 2])
            else:
                big.append(n)
                index.append([None, None, -1])
        # integer indices (an extra source axis that the index drops), newaxis (a size-1 result axis that the source
        # does not have), negative bounds, trailing full slices left out
        if rng.random() < 0.5:
            pos = rng.randint(0, len(big))
            m = rng.randint(1, 3)
            big.insert(pos, m)
            index.insert(pos, rng.choice([rng.randrange(m), -rng.randint(1, m)]))
        ones = [i for i, ix in enumerate(index) if isinstance(ix, list) and ix[2] in (None, 1) and ix[1] is not None and ix[1] - ix[0] == 1]
        if ones and rng.random() < 0.4 and len([ix for ix in index if isinstance(ix, list)]) > 1:
            i = rng.choice(ones)
            index[i] = "newaxis"
            del big[i]
        for i, ix in enumerate(index):
            if isinstance(ix, list) and ix[2] in (None, 1) and ix[0] is not None and rng.random() < 0.3:
                bi = big[sum(1 for j in range(i) if index[j] != "newaxis")]
                index[i] = [ix[0] - bi if ix[0] > 0 else ix[0], ix[1] - bi if ix[1] < bi else None, ix[2]]
        while index and isinstance(index[-1], list) and index[-1] in ([0, big[-1], None], [0, big[-1], 1]) and rng.random() < 0.5 \
                and "newaxis" not in index:
            index.pop()
        if not big:
            return _pipe_leaf(rng, shape)
        return {"op": "getitem", "index": index, "a": _pipe_prog(rng, tuple(big), depth - 1)}
    if r < 0.7:
        return {"op": "rechunk", "chunks": [list(c) for c in U.rand_chunks(rng, shape)], "a": _pipe_prog(rng, shape, depth - 1)}
    if r < 0.82 and len(shape) >= 1 and max(shape) >= 2:
        ax = rng.choice([i for i, n in enumerate(shape) if n >= 2])
        cuts = sorted(rng.sample(range(1, shape[ax]), rng.randint(1, min(2, shape[ax] - 1))))
        sizes = [b - a for a, b in zip([0] + cuts, cuts + [shape[ax]])]
        args = [_pipe_prog(rng, tuple(shape[:ax]) + (k,) + tuple(shape[ax + 1:]), depth - 1) for k in sizes]
        return {"op": "concatenate", "axis": rng.choice([ax, ax - len(shape)]), "args": args}
    if r < 0.9 and len(shape) >= 2:
        ax = rng.randrange(len(shape))
        sub = tuple(shape[:ax]) + tuple(shape[ax + 1:])
        return {"op": "stack", "axis": rng.choice([ax, ax - len(shape)]), "args": [_pipe_prog(rng, sub, depth - 1) for _ in range(shape[ax])]}
    if r < 0.96:
        return {"op": "map_blocks", "fn": rng.choice(["double", "addone"]), "a": _pipe_prog(rng, shape, depth - 1)}
    return {"op": "astype", "dtype": "float64", "a": _pipe_prog(rng, shape, depth - 1)}


def gen_trace(ctx, n):
    rng = ctx.rng
    for _ in range(n):
        yield "trace", {"prog": _trace_prog(rng, rng.randint(1, 9), rng.randint(1, 4))}


def gen_pipe(ctx, n):
    rng = ctx.rng
    for _ in range(n):
        shape = U.rand_shape(rng, 3, 4)
        prog = _pipe_prog(rng, shape, rng.randint(1, 3))
        if rng.random() < 0.5:
            nd = len(shape)
            axis = rng.choice([None] + list(range(nd)) + ([[0, nd - 1]] if nd > 1 else []))
            prog = {"op": "reduce", "fn": rng.choice(["sum", "prod", "min", "max", "mean", "any", "all"]), "axis": axis,
                    "keepdims": rng.random() < 0.3, "split_every": rng.choice([None, None, 2, 3]), "a": prog}
            if rng.random() < 0.3:
                prog = {"op": "binary", "fn": "add", "a": prog, "b": {"scalar": 1}}
        yield "pipe", {"prog": prog}


def gen_multistage(ctx, n):
    """rechunks whose plan has several stages (the expression engine chains the stages itself)"""
    from dask.array.rechunk import plan_rechunk
    rng = ctx.rng
    made = 0
    for _ in range(n * 6):
        if made >= n:
            break
        shape = tuple(rng.randint(3, 9) for _ in range(rng.randint(2, 3)))
        c0, c1 = U.rand_chunks(rng, shape), U.rand_chunks(rng, shape)
        if len(plan_rechunk(c0, c1, 8)) < 2:
            continue
        made += 1
        data = [rng.randint(-4, 4) for _ in range(U.prod_shape(shape))]
        prog = {"op": "rechunk", "chunks": [list(c) for c in c1],
                "a": {"op": "from_array", "data": data, "shape": list(shape), "dtype": "int64", "chunks": [list(c) for c in c0]}}
        if rng.random() < 0.5:
            prog = {"op": "reduce", "fn": "sum", "axis": rng.randrange(len(shape)), "keepdims": False, "split_every": None, "a": prog}
        yield "pipe", {"prog": prog}


def gen_joint(ctx, n):
    """variants of one pipeline that differ in a single parameter (axis, keepdims, split_every, slice bounds, op)"""
    rng = ctx.rng
    for _ in range(n):
        shape = U.rand_shape(rng, 2, 4)
        base = _pipe_prog(rng, shape, rng.randint(0, 2))
        nd = len(shape)
        progs = []
        for _ in range(rng.randint(3, 5)):
            r = rng.random()
            if r < 0.5:
                progs.append({"op": "reduce", "fn": rng.choice(["sum", "sum", "max", "mean"]),
                              "axis": rng.choice([None] + list(range(nd))), "keepdims": rng.random() < 0.5,
                              "split_every": rng.choice([None, 2, 3]), "a": base})
            elif r < 0.7:
                progs.append({"op": "binary", "fn": rng.choice(["add", "multiply"]), "a": base, "b": {"scalar": rng.randint(-2, 2)}})
            elif r < 0.85:
                progs.append({"op": "rechunk", "chunks": [list(c) for c in U.rand_chunks(rng, shape)], "a": base})
            else:
                progs.append({"op": "map_blocks", "fn": rng.choice(["double", "addone"]), "a": base})
        yield "joint", {"progs": progs}


def gen_grid_reduce(ctx, n):
    """reductions over several axes of block grids whose axes need different numbers of tree levels"""
    rng = ctx.rng
    for _ in range(n):
        nd = rng.choice([2, 2, 3])
        nb = [rng.choice([1, 2, 3, 5, 6, 9, 17]) for _ in range(nd)]
        while U.prod_shape(nb) > 120:
            nb[rng.randrange(nd)] = rng.choice([1, 2, 3])
        shape = [b * rng.choice([1, 1, 2]) for b in nb]
        chunks = [[s // b] * b for s, b in zip(shape, nb)]
        leaf = {"op": "from_array", "data": [rng.randint(-3, 3) for _ in range(U.prod_shape(shape))], "shape": shape,
                "dtype": "int64", "chunks": chunks}
        axis = rng.choice([None, list(range(nd)), [0, nd - 1], 0, nd - 1])
        yield "pipe", {"prog": {"op": "reduce", "fn": rng.choice(["sum", "max", "min", "mean", "prod"]), "axis": axis,
                                "keepdims": rng.random() < 0.4, "split_every": rng.choice([None, None, 2, 3, 4]), "a": leaf}}


def gen_tree(ctx, n):
    """block grids whose reduced axes need different numbers of levels (6x2, 5x3, 17x4, 2x9 …) × axis tuples × keepdims ×
    split_every (None, ints, per-axis dicts)"""
    rng = ctx.rng
    fixed = [([6, 2], None), ([5, 3], None), ([17, 4], None), ([2, 6], None), ([6, 6], None), ([9, 1], None),
             ([6, 2], 4), ([5, 3], 4), ([7, 2, 3], None), ([3, 10], 9)]
    for i in range(n):
        if i < len(fixed):
            nb, se = fixed[i]
            axis = None
        else:
            nd = rng.randint(1, 3)
            nb = [rng.choice([1, 2, 3, 4, 5, 6, 7, 9, 17, 26][: 10 if nd < 3 else 7]) for _ in range(nd)]
            axis = rng.choice([None, list(range(nd)), 0, nd - 1, sorted({0, nd - 1})])
            r = rng.random()
            if r < 0.3:
                se = None
            elif r < 0.7:
                se = rng.choice([2, 3, 4, 5, 8, 9, 16, 27])
            else:
                ax = list(range(nd)) if axis is None else ([axis] if isinstance(axis, int) else axis)
                se = {str(a): rng.choice([2, 2, 3, 4]) for a in sorted(set(ax)) if rng.random() < 0.8}
        yield "tree", {"numblocks": nb, "axis": axis, "keepdims": rng.random() < 0.4, "split_every": se,
                       "fn": rng.choice(["sum", "sum", "max", "mean"])}


def gen_index(ctx, n):
    """one or two indexing steps on a chunked array: integers (positive / negative), slices with any step and negative
    bounds, newaxis anywhere, trailing axes left out — followed (sometimes) by an elementwise op or a reduction"""
    rng = ctx.rng
    for _ in range(n):
        shape = tuple(rng.randint(1, 5) for _ in range(rng.randint(1, 3)))
        prog = {"op": "from_array", "data": [rng.randint(-9, 9) for _ in range(U.prod_shape(shape))], "shape": list(shape),
                "dtype": "int64", "chunks": [list(c) for c in U.rand_chunks(rng, shape)]}
        cur = list(shape)
        for _ in range(rng.choice([1, 1, 2])):
            if not cur:
                break
            index, new = [], []
            k = rng.randint(1, len(cur)) if rng.random() < 0.3 else len(cur)
            for m in cur[:k]:
                r = rng.random()
                if r < 0.35 and m > 0:
                    index.append(rng.choice([rng.randrange(m), -rng.randint(1, m)]))
                else:
                    start = rng.choice([None, rng.randint(-m, m)])
                    stop = rng.choice([None, rng.randint(-m, m + 1)])
                    step = rng.choice([None, 1, 1, 2, 3, -1, -2])
                    index.append([start, stop, step])
                    new.append(len(range(*slice(start, stop, step).indices(m))))
            new += cur[k:]
            for _ in range(rng.choice([0, 0, 1, 1, 2])):
                pos = rng.randint(0, len(index))
                index.insert(pos, "newaxis")
            prog = {"op": "getitem", "index": index, "a": prog}
            with warnings.catch_warnings():
                warnings.simplefilter("ignore")
                cur = list(np.asarray(P.build(prog, np, False)).shape)
        r = rng.random()
        if r < 0.25:
            prog = {"op": "unary", "fn": "negative", "a": prog}
        elif r < 0.5 and cur and all(cur):
            prog = {"op": "reduce", "fn": rng.choice(["sum", "max"]), "axis": rng.choice([None] + list(range(len(cur)))),
                    "keepdims": rng.random() < 0.5, "split_every": rng.choice([None, 2]), "a": prog}
        yield "pipe", {"prog": prog}


def _zero_leaf(rng, shape):
    """an array of `shape` that carries zero-length chunks: strided slicing of a chunked source (x[0:2:2] on chunks
    (1, 2, 1) has chunks (1, 0)) on length-one and longer axes"""
    big, index, chunks = [], [], []
    for n in shape:
        if rng.random() < 0.7:
            # step 2 over blocks arranged so that a block contributes no element: [1, 2, 1, 2, ...] sliced 0:2n:2
            big.append(2 * n + 1)
            cs, tot = [], 0
            while tot < 2 * n + 1:
                c = min(rng.choice([1, 2, 2, 3]), 2 * n + 1 - tot)
                cs.append(c)
                tot += c
            chunks.append(cs)
            index.append([0, 2 * n, 2])
        else:
            big.append(n)
            chunks.append(list(U.rand_chunks_1d(rng, n)))
            index.append([0, n, 1])
    data = [rng.randint(-4, 4) for _ in range(U.prod_shape(tuple(big)))]
    return {"op": "getitem", "index": index,
            "a": {"op": "from_array", "data": data, "shape": big, "dtype": "int64", "chunks": chunks}}


def gen_zero_chunk(ctx, n):
    """zero-length chunks (also on length-one axes) meeting operand alignment: elementwise with equal shapes, with
    broadcasting, concatenate / stack along another axis, then a reduction — lazily reported chunks must equal the
    optimized expression's and the classic engine's"""
    rng = ctx.rng
    for _ in range(n):
        nd = rng.randint(1, 3)
        shape = tuple(rng.choice([1, 1, 2, 3]) for _ in range(nd))
        if rng.random() < 0.3 and 1 not in shape:
            shape = shape[:-1] + (1,)
        a = _zero_leaf(rng, shape)
        r = rng.random()
        if r < 0.5:
            other = tuple(m if rng.random() < 0.6 else 1 for m in shape)
            if 1 in shape and rng.random() < 0.75:
                # the length-one axis that carries the zero-length chunk is BROADCAST against a longer axis of the other operand
                other = tuple((rng.randint(2, 3) if m == 1 and rng.random() < 0.7 else m) for m in shape)
            if rng.random() < 0.3:
                other = other[rng.randint(0, nd - 1):]
            b = _zero_leaf(rng, other) if rng.random() < 0.5 else _pipe_leaf(rng, other)
            prog = {"op": "binary", "fn": rng.choice(["add", "subtract", "multiply", "maximum"]), "a": a, "b": b}
            if rng.random() < 0.5:
                prog["a"], prog["b"] = prog["b"], prog["a"]
        elif r < 0.7:
            ax = rng.randrange(nd)
            args = [a] + [(_zero_leaf if rng.random() < 0.4 else _pipe_leaf)(rng, tuple(shape[:ax]) + (rng.randint(1, 2),) + tuple(shape[ax + 1:]))
                          for _ in range(rng.randint(1, 2))]
            rng.shuffle(args)
            prog = {"op": "concatenate", "axis": ax, "args": args}
        elif r < 0.85:
            args = [a] + [(_zero_leaf if rng.random() < 0.4 else _pipe_leaf)(rng, shape) for _ in range(rng.randint(1, 2))]
            rng.shuffle(args)
            prog = {"op": "stack", "axis": rng.randint(0, nd), "args": args}
        else:
            prog = {"op": "unary", "fn": "negative", "a": a}
        if rng.random() < 0.35:
            prog = {"op": "reduce", "fn": rng.choice(["sum", "max", "min", "mean"]), "axis": rng.choice([None, 0, -1]),
                    "keepdims": rng.random() < 0.5, "split_every": rng.choice([None, 2]), "a": prog}
        yield "pipe", {"prog": prog}


def generate(ctx):
    yield from gen_index(ctx, ctx.n(120, 1500))
    yield from gen_tree(ctx, ctx.n(60, 700))
    yield from gen_grid_reduce(ctx, ctx.n(30, 300))
    yield from gen_joint(ctx, ctx.n(40, 400))
    yield from gen_multistage(ctx, ctx.n(25, 250))
    yield from gen_zero_chunk(ctx, ctx.n(60, 700))
    # the defect found while building this check (fixed): x + y with differently chunked operands
    yield "trace", {"prog": {"op": "binary", "fn": "add",
                             "a": {"op": "from_array", "data": [1, 2, 3, 4], "shape": [4], "dtype": "int64", "chunks": [[2, 2]]},
                             "b": {"op": "from_array", "data": [10, 20, 30, 40], "shape": [4], "dtype": "int64", "chunks": [[1, 3]]}}}
    yield from gen_trace(ctx, ctx.n(260, 3000))
    yield from gen_pipe(ctx, ctx.n(260, 3000))
    # extension round (generated last: the random streams of the older sections are unchanged)
    yield from X.gen_tracend(ctx, ctx.n(220, 2500))
