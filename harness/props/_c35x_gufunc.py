"""C35 extension — dask/array/gufunc.py end to end (sections gusig, gusigs, guplan, guat of harness/props/c35.py).

Model:    lean/DaskModel/Model/Gufunc.lean (+ GufuncIO.lean handlers gusig gusigv guplan guleaf gucoords guat)
Theorems: lean/DaskModel/Props/C35xGufunc.lean
Tie:      gusig/gusigs  `_parse_gufunc_signature` vs the automaton `parseSig` (names per argument, single/multiple outputs,
                        malformed signatures) and vs the regular expression the module really compiles (`_SIGNATURE`);
          guplan        `apply_gufunc` run with the module's `blockwise` wrapped: the guards (which error, for which
                        dimension), the output/argument index strings and the keyword arguments of the `blockwise` call, the
                        leaf layers (`getitem` per output), the output chunks, the dependencies of the materialised tasks
                        against K13 on the model's index strings and against the statement of `gufunc_index_strings_spec`;
          guat          position-encoding arrays: which core slice of every argument the assembled result at every loop index
                        was computed from, vs `gufuncAt` (model), `vectorizeAt` (specification) and numpy.vectorize.
"""
from __future__ import annotations

import itertools
import re
import sys

from sexp import Sym

from props import _hlg_util as U

PINNED_REGEX = {
    "_DIMENSION_NAME": r"\w+",
    "_CORE_DIMENSION_LIST": r"(?:\w+(?:,\w+)*,?)?",
    "_ARGUMENT": r"\((?:\w+(?:,\w+)*,?)?\)",
    "_INPUT_ARGUMENTS": r"(?:\((?:\w+(?:,\w+)*,?)?\)(?:,\((?:\w+(?:,\w+)*,?)?\))*,?)?",
    "_OUTPUT_ARGUMENTS": r"\((?:\w+(?:,\w+)*,?)?\)(?:,\((?:\w+(?:,\w+)*,?)?\))*",
    "_SIGNATURE": r"^(?:\((?:\w+(?:,\w+)*,?)?\)(?:,\((?:\w+(?:,\w+)*,?)?\))*,?)?->\((?:\w+(?:,\w+)*,?)?\)(?:,\((?:\w+(?:,\w+)*,?)?\))*$",
}
WS = " \t\n\r\x0b\x0c\x1c\x1f\x85\xa0\u2003\u2028\u3000"


def _gmod():
    import dask.array  # noqa: F401
    return sys.modules["dask.array.gufunc"]


def _cps(s):
    return [ord(c) for c in s]


def _names(groups):
    return [["".join(chr(c) for c in n) for n in g] for g in groups]


def _check_regex_constants(ctx, G):
    for k, v in PINNED_REGEX.items():
        if getattr(G, k, None) != v:
            ctx.disagree("regular expression constant " + k + " of dask/array/gufunc.py", v, getattr(G, k, None))


def _real_parse(G, sig):
    try:
        ins, outs = G._parse_gufunc_signature(sig)
    except ValueError:
        return None
    single = not isinstance(outs, list)
    outs = [outs] if single else outs
    return [list(map(list, ins)), list(map(list, outs)), single]


def case_gusig(ctx, inp):
    G = _gmod()
    _check_regex_constants(ctx, G)
    sig = inp["sig"]
    real = _real_parse(G, sig)
    m = ctx.lean(Sym("gusig"), _cps(sig))
    if m[0] == "ok":
        model = [_names(m[1]), _names(m[2]), bool(m[3])]
    else:
        model = None
    ctx.eq("_parse_gufunc_signature", model, real)
    stripped = re.sub(r"\s+", "", sig)
    rx = bool(re.match(G._SIGNATURE, stripped))
    if rx != (real is not None):
        ctx.fail("_parse_gufunc_signature accepts/rejects differently from its own regular expression", observed=sig)
    if real is None:
        ctx.branch("sig-malformed")
        return
    # the names are what a plain reading of the text gives
    ins, outs, single = real
    it, ot = stripped.split("->")
    def plain(txt):
        return [[n for n in a.split(",") if n] for a in re.findall(r"\(([^()]*)\)", txt)]
    if plain(it) != ins or plain(ot) != outs:
        ctx.fail("parsed core dimensions differ from the text of the signature", observed=[ins, outs], expected=[plain(it), plain(ot)])
    if single != (len(outs) == 1):
        ctx.fail("single/multiple output flag wrong", observed=single)
    ctx.branch("sig-valid")
    if not ins:
        ctx.branch("sig-no-inputs")
    if not single:
        ctx.branch("sig-multi-output")
    if stripped != sig:
        ctx.branch("sig-whitespace")
    if ",)" in stripped or ",->" in stripped:
        ctx.branch("sig-trailing-comma")
    if any(len(a) > 1 for a in ins + outs):
        ctx.branch("sig-several-core-dims")


def case_gusigs(ctx, inp):
    """all strings of one length over a small alphabet: validity, model vs the real parser (one driver call)"""
    G = _gmod()
    alpha, n = inp["alpha"], inp["len"]
    strs = ["".join(t) for t in itertools.product(alpha, repeat=n)]
    if inp.get("sample"):
        import random
        strs = random.Random(inp["sample"]).sample(strs, min(len(strs), inp["count"]))
    m = ctx.lean(Sym("gusigv"), [_cps(s) for s in strs])
    nvalid = 0
    for s, mv in zip(strs, m):
        real = _real_parse(G, s) is not None
        nvalid += real
        if bool(mv) != real:
            ctx.disagree("validity of signature " + repr(s), bool(mv), real)
            return
    if nvalid:
        ctx.branch("sigs-exhaustive-with-valid")
    ctx.note("sigs-checked:%d" % len(strs))


def gen_sig_text(rng):
    names = ["i", "j", "k", "n", "ab", "x1", "_", "m_2", "9", "I"]

    def arg():
        k = rng.choice([0, 1, 1, 1, 2, 3])
        s = "(" + ",".join(rng.choice(names) for _ in range(k))
        if k and rng.random() < 0.1:
            s += ","
        return s + ")"
    nin = rng.choice([0, 1, 1, 2, 2, 3])
    it = ",".join(arg() for _ in range(nin))
    if nin and rng.random() < 0.1:
        it += ","
    ot = ",".join(arg() for _ in range(rng.choice([1, 1, 1, 2, 3])))
    s = it + "->" + ot
    t = rng.random()
    if t < 0.35:
        # one random edit: malformed most of the time
        pos = rng.randrange(len(s) + 1)
        op = rng.choice(["del", "ins", "ins", "sub"])
        ch = rng.choice("(),->-> ,)(a1_.;[*")
        if op == "del" and s:
            pos = min(pos, len(s) - 1)
            s = s[:pos] + s[pos + 1:]
        elif op == "ins":
            s = s[:pos] + ch + s[pos:]
        elif s:
            pos = min(pos, len(s) - 1)
            s = s[:pos] + ch + s[pos + 1:]
    if rng.random() < 0.3:
        for _ in range(rng.randint(1, 3)):
            pos = rng.randrange(len(s) + 1)
            s = s[:pos] + rng.choice(WS) + s[pos:]
    return s


# ------------------------------------------------------------------------------------------------
# apply_gufunc with `blockwise` wrapped
# ------------------------------------------------------------------------------------------------

_LOOP = re.compile(r"^__loopdim(\d+)__$")


def _dim_model(d):
    m = _LOOP.match(d)
    return ["L", int(m.group(1))] if m else ["C", d]


def _dim_sexp(d):
    m = _LOOP.match(d)
    return [Sym("L"), int(m.group(1))] if m else [Sym("C"), d]


def _classify(e):
    s = str(e)
    m = re.search(r"`'([^']*)'`", s)
    dim = _dim_model(m.group(1)) if m else None
    if isinstance(e, KeyError):
        return ["missingSize", e.args[0]]
    if "According to `signature`" in s:
        return ["nargs"]
    if "axes don't match array" in s:
        return ["ndim"]
    if "with different lengths in arrays" in s:
        return ["lengths", dim]
    if "consists of multiple chunks" in s:
        return ["coreMulti", dim]
    if "with different chunksize present" in s:
        return ["chunksize", dim]
    return ["other", s[:120]]


class _Spy:
    """wraps `blockwise` of dask.array.gufunc and `unify_chunks` of dask.array.core for one call"""

    def __init__(self):
        self.calls = []
        self.unified = None

    def __enter__(self):
        import dask.array.core as C
        self.G, self.C = _gmod(), C
        self.orig_bw, self.orig_un = self.G.blockwise, C.unify_chunks
        spy = self

        def bw(func, out_ind, *args, **kw):
            inside = {"on": True}

            def un(*a, **k):
                r = spy.orig_un(*a, **k)
                if inside["on"] and spy.unified is None:
                    spy.unified = r
                return r
            spy.C.unify_chunks = un
            try:
                tmp = spy.orig_bw(func, out_ind, *args, **kw)
            finally:
                inside["on"] = False
                spy.C.unify_chunks = spy.orig_un
            spy.calls.append((out_ind, args, kw, tmp))
            return tmp
        self.G.blockwise = bw
        return self

    def __exit__(self, *exc):
        self.G.blockwise = self.orig_bw
        self.C.unify_chunks = self.orig_un
        return False


def _mk(specs, encode=False):
    import numpy as np
    import dask.array as da
    out = []
    for i, s in enumerate(specs):
        shape = tuple(s["shape"])
        if encode:
            nl = s["nloop"]
            lshape = shape[:nl]
            code = np.arange(int(np.prod(lshape, dtype="i8")), dtype="f8").reshape(lshape) if nl else np.zeros((), dtype="f8")
            x = np.broadcast_to(code.reshape(lshape + (1,) * (len(shape) - nl)), shape).copy() + 1000.0 * (i + 1)
        else:
            x = U.leaf_data(list(shape), "f8", i + 1)
        out.append((x, da.from_array(x, chunks=tuple(tuple(c) for c in s["chunks"]))))
    return out


def _sum_core(ins, outs, core_sizes):
    """a user function of the right arity/shape for any signature: sums every argument over its core axes, broadcasts the
    loop parts, adds them, and expands to the output core shapes"""
    import numpy as np

    def f(*blocks):
        acc = 0.0
        for b, cd in zip(blocks, ins):
            b = np.asarray(b)
            acc = acc + (b.sum(axis=tuple(range(b.ndim - len(cd), b.ndim))) if cd else b)
        acc = np.asarray(acc, dtype="f8")
        res = []
        for j, ocd in enumerate(outs):
            r = acc + j
            for d in ocd:
                r = np.repeat(r[..., None], core_sizes[d], axis=-1)
            res.append(r)
        return res[0] if len(res) == 1 else tuple(res)
    return f


def case_guplan(ctx, inp):
    import numpy as np
    import dask.array as da
    from dask.blockwise import Blockwise
    G = _gmod()
    sig = inp["sig"]
    parsed = _real_parse(G, sig)
    if parsed is None:
        ctx.note("guplan-invalid-signature")
        return
    ins, outs, single = parsed
    if any(_LOOP.match(n) for a in ins + outs for n in a):
        ctx.note("guplan-core-name-collides-with-loop-name")
        return
    arrs = _mk(inp["arrays"])
    ds = [d for _, d in arrs]
    osz = inp.get("output_sizes") or {}
    allow = bool(inp.get("allow_rechunk"))
    margs = [[list(x.shape), [[int(c) for c in ax] for ax in d.chunks]] for x, d in arrs]
    m = ctx.lean(Sym("guplan"), ins, outs, margs, [[k, v] for k, v in osz.items()], allow)
    core_sizes = {}
    for (x, _), cd in zip(arrs, ins):
        if len(cd) <= x.ndim:
            core_sizes.update(dict(zip(cd, x.shape[x.ndim - len(cd):])))
    core_sizes.update(osz)
    nout = len(outs)
    odt = "f8" if single else ("f8",) * nout
    with _Spy() as spy:
        try:
            r = da.apply_gufunc(_sum_core(ins, outs, core_sizes), sig, *ds, output_dtypes=odt, output_sizes=dict(osz) or None,
                                allow_rechunk=allow)
            err = None
        except (ValueError, KeyError) as e:
            err = _classify(e)
    if err is not None:
        if err[0] == "other":
            ctx.fail("apply_gufunc raised an undocumented error: " + err[1])
            return
        model = [str(m[1])] + ([m[2] if isinstance(m[2], str) else [str(m[2][0]), m[2][1]]] if len(m) > 2 else []) if m[0] == "raised" else "accepted"
        ctx.eq("apply_gufunc error guard", model, err)
        ctx.branch("guplan-raises-" + err[0])
        # the error clauses of the statement, evaluated directly
        if err[0] == "coreMulti" and allow:
            ctx.fail("core-dimension ValueError although allow_rechunk=True")
        return
    if m[0] != "ok":
        ctx.disagree("apply_gufunc accepted, model raises", m, "accepted")
        return
    if len(spy.calls) != 1:
        ctx.fail("apply_gufunc did not call blockwise exactly once", observed=len(spy.calls))
        return
    out_ind, bargs, kw, tmp = spy.calls[0]
    mx, m_out, m_in, m_cs, m_oc = m[1], m[2], m[3], m[4], m[5]
    norm = lambda d: [str(d[0]), d[1]]
    ctx.eq("blockwise output index string", [norm(d) for d in m_out], [_dim_model(d) for d in out_ind])
    real_in = [[_dim_model(d) for d in bargs[2 * i + 1]] for i in range(len(bargs) // 2)]
    ctx.eq("blockwise argument index strings", [[norm(d) for d in a] for a in m_in], real_in)
    kws = {k: v for k, v in kw.items() if k != "meta"}
    if kws != {"concatenate": True}:
        ctx.fail("blockwise keyword arguments are not exactly concatenate=True", observed=sorted(kws))
    if not allow:
        passed = [[[int(c) for c in ax] for ax in bargs[2 * i].chunks] for i in range(len(bargs) // 2)]
        ctx.eq("arrays handed to blockwise (no rechunking without allow_rechunk)", [a[1] for a in margs], passed)
    # --- output arrays: leaf layers, chunks
    rs = (r,) if single else r
    if single != (not isinstance(r, tuple)) or len(rs) != len(outs):
        ctx.fail("apply_gufunc returned a different number of outputs than the signature has", observed=len(rs) if isinstance(r, tuple) else 1, expected=len(outs))
        return
    loop_chunks = [[int(c) for c in ax] for ax in tmp.chunks]
    if len(loop_chunks) != mx:
        ctx.fail("number of loop dimensions of the blockwise result", observed=len(loop_chunks), expected=mx)
    name, token = tmp.name.split("-")
    tkeys = [list(k[1:]) for k in itertools.product([tmp.name], *[range(len(c)) for c in tmp.chunks])]
    for i, (o, ocd, mcs) in enumerate(zip(rs, outs, m_oc)):
        ml, mchunks = ctx.lean(Sym("guleaf"), single, i, len(ocd), tkeys, loop_chunks, mcs)
        ctx.eq("output chunks", mchunks, [[int(c) for c in ax] for ax in o.chunks])
        lname = "%s_%d-%s" % (name, i, token)
        layer = o.dask.layers.get(lname)
        if layer is None:
            ctx.fail("leaf layer missing", observed=lname)
            continue
        real_leaf = []
        for k, v in dict(layer).items():
            if isinstance(v, tuple) and len(v) == 3 and v[0] is G.getitem:
                real_leaf.append([list(k[1:]), list(v[1][1:]), v[2]])
                if v[1][0] != tmp.name:
                    ctx.fail("leaf task reads another array than the blockwise result")
            elif isinstance(v, tuple) and v and v[0] == tmp.name:
                real_leaf.append([list(k[1:]), list(v[1:]), None])
            else:
                ctx.fail("unexpected leaf task", observed=repr(v)[:80])
        ctx.eq("leaf layer", sorted(ml, key=repr), sorted(real_leaf, key=repr))
        grid = sorted(list(t) for t in itertools.product(*[range(len(c)) for c in o.chunks]))
        if sorted(x[0] for x in real_leaf) != grid:
            ctx.fail("leaf layer keys are not the block grid of the output", observed=sorted(x[0] for x in real_leaf)[:6])
    # --- the tasks of the blockwise layer: which blocks each call gets
    layer = tmp.dask.layers[tmp.name]
    if not isinstance(layer, Blockwise):
        ctx.fail("blockwise result is not a Blockwise layer")
        return
    # `dask.blockwise.blockwise` renames the index symbols to `.0`, `.1`, … in sorted order
    syms = sorted({d for i in range(len(bargs) // 2) for d in bargs[2 * i + 1]} | set(out_ind))
    back = {".%d" % i: d for i, d in enumerate(syms)}
    real_idx = [(n, tuple(back.get(d, d) for d in ind)) for n, ind in layer.indices if ind is not None]
    if [[_dim_model(d) for d in ind] for _, ind in real_idx] != real_in or [back.get(d, d) for d in layer.output_indices] != list(out_ind):
        ctx.fail("index strings in the Blockwise layer differ from those passed to blockwise")
    nbs = [list(layer.numblocks[n]) for n, _ in real_idx]
    names = sorted({n for a in ins for n in a})
    tasks = dict(layer)
    margs2 = [[[_dim_sexp(d) for d in ind], nb] for (_, ind), nb in zip(real_idx, nbs)]
    blocks = list(itertools.product(*[range(len(c)) for c in tmp.chunks]))
    for o in (blocks if len(blocks) <= 5 else ctx.rng.sample(blocks, 5)):
        t = tasks[(tmp.name,) + o]
        real_deps = sorted([k[0]] + list(k[1:]) for k in t.dependencies)
        mc = ctx.lean(Sym("gucoords"), mx, names, margs2, list(o))
        if mc[0] != "ok":
            ctx.disagree("K13 coordinates for the gufunc index strings", mc, "ok")
            return
        mdeps, spec = set(), set()
        for (aname, ind), nb, coords in zip(real_idx, nbs, mc[1]):
            for combo in itertools.product(*[(c if isinstance(c, list) else [c]) for c in coords]):
                mdeps.add((aname,) + tuple(combo))
            n = sum(1 for d in ind if _LOOP.match(d))
            per = []
            for j, (d, b) in enumerate(zip(ind, nb)):
                if j < n:
                    per.append([0 if b == 1 else o[j + (mx - n)]])     # gufunc_index_strings_spec, loop part
                else:
                    per.append(list(range(b)))                        # … core part: the whole dimension
            for combo in itertools.product(*per):
                spec.add((aname,) + tuple(combo))
        ctx.eq("blocks a call receives (K13 on the model's index strings)", sorted(map(list, mdeps)), real_deps)
        if sorted(map(list, spec)) != real_deps:
            ctx.fail("a call does not receive the aligned loop blocks and whole core dimensions", observed=real_deps[:6],
                     expected=sorted(map(list, spec))[:6])
    # --- values against numpy.vectorize
    try:
        ref = np.vectorize(_sum_core_scalar(ins, outs, core_sizes), signature=re.sub(r"\s+", "", sig))(*[x for x, _ in arrs])
    except Exception:
        ref = None
        ctx.note("guplan-numpy-rejects")
    if ref is not None:
        refs = (ref,) if single else ref
        for o, rf in zip(rs, refs):
            try:
                got = np.asarray(o.compute(scheduler="sync"))
            except Exception as e:
                ctx.fail("the graph apply_gufunc built cannot be computed: " + type(e).__name__ + ": " + str(e)[:100])
                return
            rf = np.asarray(rf)
            if got.shape != rf.shape or not np.allclose(got, rf):
                ctx.fail("apply_gufunc differs from numpy.vectorize", observed=list(got.shape), expected=list(rf.shape))
    ctx.branch("guplan-ok")
    if allow:
        ctx.branch("guplan-allow_rechunk")
    if not single:
        ctx.branch("guplan-multi-output")
    if any(len(o) for o in outs):
        ctx.branch("guplan-output-core-dims")
    if len({len(a) for a in real_in}) > 1 or any(1 in nb[:sum(1 for d in ind if _LOOP.match(d))] and len(blocks) > 1 for (_, ind), nb in zip(real_idx, nbs)):
        ctx.branch("guplan-loop-broadcast")
    if any(b > 1 for (_, ind), nb in zip(real_idx, nbs) for d, b in zip(ind, nb) if not _LOOP.match(d)):
        ctx.branch("guplan-core-dim-several-blocks")
    if len(blocks) > 1:
        ctx.branch("guplan-multi-block")


def _sum_core_scalar(ins, outs, core_sizes):
    """the same function on core slices (what numpy.vectorize calls)"""
    import numpy as np

    def f(*slices):
        acc = 0.0
        for s in slices:
            acc = acc + np.asarray(s).sum()
        res = []
        for j, ocd in enumerate(outs):
            res.append(np.full(tuple(core_sizes[d] for d in ocd), acc + j, dtype="f8"))
        return res[0] if len(res) == 1 else tuple(res)
    return f


def case_guat(ctx, inp):
    """position-encoding arrays: the assembled result tells which core slice of every argument it was computed from"""
    import numpy as np
    import dask.array as da
    G = _gmod()
    specs = inp["arrays"]
    nargs = len(specs)
    ins = [list(s["core"]) for s in specs]
    multi = bool(inp.get("multi"))
    sig = ",".join("(" + ",".join(c) + ")" for c in ins) + "->(zz)" + (",()" if multi else "")
    arrs = _mk(specs, encode=True)
    allow = bool(inp.get("allow_rechunk"))

    def f(*blocks):
        firsts = [np.asarray(b)[(Ellipsis,) + (0,) * len(cd)] for b, cd in zip(blocks, ins)]
        st = np.stack(np.broadcast_arrays(*firsts), axis=-1)
        return (st, st.sum(axis=-1)) if multi else st

    def g(*slices):
        st = np.array([np.asarray(s).reshape(-1)[0] for s in slices], dtype="f8")
        return (st, st.sum()) if multi else st
    with _Spy() as spy:
        try:
            r = da.apply_gufunc(f, sig, *[d for _, d in arrs], output_dtypes=("f8", "f8") if multi else "f8",
                                output_sizes={"zz": nargs}, allow_rechunk=allow)
        except ValueError as e:
            c = _classify(e)
            if c[0] in ("chunksize", "coreMulti") and not allow and inp.get("may_raise"):
                ctx.branch("guat-guard-" + c[0])
                return
            ctx.fail("apply_gufunc raised on aligned inputs: " + str(e)[:120])
            return
    out_ind, bargs, kw, tmp = spy.calls[0]
    mx = len(out_ind)
    uni = spy.unified[1] if spy.unified is not None else [bargs[2 * i] for i in range(nargs)]
    oc = [[int(c) for c in ax] for ax in tmp.chunks]
    names = sorted({n for a in ins for n in a})
    margs = []
    for s, a, cd in zip(specs, uni, ins):
        nl = s["nloop"]
        margs.append([[[Sym("L"), d] for d in range(mx - nl, mx)] + [[Sym("C"), n] for n in cd],
                      [[int(c) for c in ax] for ax in a.chunks[:nl]], [len(ax) for ax in a.chunks[nl:]]])
    main = r[0] if multi else r
    try:
        got = np.asarray(main.compute(scheduler="sync"))
        got1 = np.asarray(r[1].compute(scheduler="sync")) if multi else None
    except Exception as e:
        ctx.fail("the graph apply_gufunc built cannot be computed: " + type(e).__name__ + ": " + str(e)[:100])
        return
    ref = np.vectorize(g, signature=sig)(*[x for x, _ in arrs])
    ref0 = np.asarray(ref[0] if multi else ref)
    if got.shape != ref0.shape or not np.array_equal(got, ref0):
        ctx.fail("apply_gufunc read other core slices than numpy.vectorize", observed=got.tolist()[:4], expected=ref0.tolist()[:4])
        return
    if multi:
        if got1.shape != np.asarray(ref[1]).shape or not np.array_equal(got1, np.asarray(ref[1])):
            ctx.fail("second output of apply_gufunc differs from numpy.vectorize")
    lshape = got.shape[:-1]
    idxs = list(itertools.product(*[range(n) for n in lshape]))
    for l in (idxs if len(idxs) <= 10 else ctx.rng.sample(idxs, 10)):
        m = ctx.lean(Sym("guat"), mx, names, oc, margs, list(l))
        if m[0] != "ok":
            ctx.disagree("gufuncAt is undefined for a loop index of the real result", m, list(l))
            return
        if m[1] != m[2]:
            ctx.disagree("gufuncAt differs from vectorizeAt (theorem gufunc_eq_vectorize) on a real chunking", m[1], m[2])
        # decode the real result: the loop multi-index of every argument that was read
        real = []
        for k, (s, (x, _)) in enumerate(zip(specs, arrs)):
            code = int(round(float(got[l + (k,)]) - 1000.0 * (k + 1)))
            lsh = x.shape[:s["nloop"]]
            real.append([int(v) for v in np.unravel_index(code, lsh)] if lsh else [])
        ctx.eq("core slices the assembled result was computed from", m[1], real)
    ctx.branch("guat")
    if allow:
        ctx.branch("guat-allow_rechunk")
    if multi:
        ctx.branch("guat-multi-output")
    if len({s["nloop"] for s in specs}) > 1:
        ctx.branch("guat-right-aligned-broadcast")
    if any(len(c) > 1 for c in oc):
        ctx.branch("guat-multi-block-loop")
    if any(0 in c for c in oc):
        ctx.branch("guat-zero-length-loop-chunk")
    if any(b > 1 for a in margs for b in a[2]):
        ctx.branch("guat-core-dim-several-blocks")


CASES = {"gusig": case_gusig, "gusigs": case_gusigs, "guplan": case_guplan, "guat": case_guat}


def _loop_part(rng, loopshape, lch, allow):
    """loop shape/chunks of one argument: the last k loop dims, some of them length 1"""
    kk = rng.randint(0, len(loopshape))
    off = len(loopshape) - kk
    ls, lc = [], []
    for j in range(kk):
        if rng.random() < 0.75:
            ls.append(loopshape[off + j])
            if allow and rng.random() < 0.4:
                lc.append(U.rand_comp(rng, loopshape[off + j]))
            else:
                lc.append(list(lch[off + j]))
        else:
            ls.append(1)
            lc.append([1] if rng.random() < 0.85 else rng.choice([[1, 0], [0, 1]]))
    return ls, lc


def gen_guplan(rng):
    pool = ["i", "j", "k", "n"]
    nin = rng.choice([0, 1, 1, 2, 2, 2, 3])
    ins = [[rng.choice(pool) for _ in range(rng.choice([0, 1, 1, 2]))] for _ in range(nin)]
    used = sorted({n for a in ins for n in a})
    outs = []
    for _ in range(rng.choice([1, 1, 1, 2, 3])):
        outs.append([rng.choice(used + ["z"]) if rng.random() < 0.8 or not used else rng.choice(pool) for _ in range(rng.choice([0, 0, 1, 2]))])
    sig = ",".join("(" + ",".join(a) + ")" for a in ins) + "->" + ",".join("(" + ",".join(a) + ")" for a in outs)
    if rng.random() < 0.15:
        sig = sig.replace(",", " , ").replace("->", " -> ")
    core = {n: rng.randint(1, 4) for n in pool}
    loopshape = [rng.randint(1, 4) for _ in range(rng.choice([0, 1, 1, 2, 2]))]
    lch = U.rand_chunks(rng, loopshape, zeros=0.15)
    allow = rng.random() < 0.3
    bad = rng.random()
    arrays = []
    for a in ins:
        ls, lc = _loop_part(rng, loopshape, lch, allow)
        cs, cc = [], []
        for n in a:
            size = core[n] if rng.random() < 0.93 else rng.choice([1, core[n] + 1])
            cs.append(size)
            if (allow and rng.random() < 0.5) or rng.random() < 0.15:
                c = U.rand_comp(rng, size)
                if rng.random() < 0.2:
                    c.insert(rng.randint(0, len(c)), 0)
                cc.append(c)
            else:
                cc.append([size])
        arrays.append({"shape": ls + cs, "chunks": lc + cc})
    withloop = [k for k in range(len(arrays)) if len(arrays[k]["shape"]) > len(ins[k])]
    withcore = [k for k in range(len(arrays)) if ins[k]]
    if bad < 0.05 and arrays:
        arrays.pop()                                    # wrong number of arguments
    elif bad < 0.08:
        arrays.append({"shape": [2], "chunks": [[2]]})
    elif bad < 0.15 and withcore:
        k = rng.choice(withcore)                        # fewer dimensions than core dimensions
        keep = rng.randrange(len(ins[k]))
        arrays[k] = {"shape": arrays[k]["shape"][len(arrays[k]["shape"]) - keep:], "chunks": arrays[k]["chunks"][len(arrays[k]["chunks"]) - keep:]}
    elif bad < 0.27 and withloop:
        k = rng.choice(withloop)                        # a different chunking of a loop dimension
        j = rng.randrange(len(arrays[k]["shape"]) - len(ins[k]))
        arrays[k]["chunks"][j] = U.rand_comp(rng, arrays[k]["shape"][j])
    elif bad < 0.36 and withloop:
        k = rng.choice(withloop)                        # a different length of a loop dimension
        j = rng.randrange(len(arrays[k]["shape"]) - len(ins[k]))
        arrays[k]["shape"][j] += rng.randint(1, 2)
        arrays[k]["chunks"][j] = U.rand_comp(rng, arrays[k]["shape"][j])
    osz = {}
    for n in {n for o in outs for n in o}:
        if n not in used and rng.random() < 0.85:
            osz[n] = rng.randint(1, 3)
        elif n in used and rng.random() < 0.08:
            osz[n] = rng.randint(1, 4)                  # output_sizes overrides an input core dimension
    return {"sig": sig, "arrays": arrays, "output_sizes": osz, "allow_rechunk": allow}


def gen_guat(rng):
    loopshape = [rng.randint(1, 5) for _ in range(rng.randint(1, 3))]
    lch = U.rand_chunks(rng, loopshape, zeros=0.25)
    allow = rng.random() < 0.35
    pool = ["i", "j", "k"]
    core = {n: rng.randint(1, 3) for n in pool}
    arrays = []
    for _ in range(rng.randint(1, 3)):
        cd = [rng.choice(pool) for _ in range(rng.choice([0, 1, 1, 2]))]
        ls, lc = _loop_part(rng, loopshape, lch, allow)
        cc = [(U.rand_comp(rng, core[n]) if allow and rng.random() < 0.5 else [core[n]]) for n in cd]
        arrays.append({"shape": ls + [core[n] for n in cd], "chunks": lc + cc, "nloop": len(ls), "core": cd})
    return {"arrays": arrays, "allow_rechunk": allow, "multi": rng.random() < 0.3, "may_raise": False}


def generate(ctx):
    rng = ctx.rng
    alpha = "(),->a_ "
    for n in range(0, ctx.n(5, 7)):
        yield "gusigs", {"alpha": alpha, "len": n}
    yield "gusigs", {"alpha": "()i,j->1 \t", "len": 7, "sample": rng.randrange(1, 10 ** 6), "count": ctx.n(3000, 30000)}
    for s in ["(i)->()", "->()", "(i,)->()", "(i),->()", "(i)->(),", "(i)->(i,)", " ( i ) , ( j ) -> ( ) ", "(i j)->()", "(i)->()\n",
              "(i)(j)->()", "(i)->()->()", "(,)->()", "(i,,j)->()", "(1a,_b)->(_),()", "", "->", "()->", "(i)-->()", "(i)->>()", "(i)- >()"]:
        yield "gusig", {"sig": s}
    for _ in range(ctx.n(400, 4000)):
        yield "gusig", {"sig": gen_sig_text(rng)}
    for _ in range(ctx.n(220, 2200)):
        yield "guplan", gen_guplan(rng)
    for _ in range(ctx.n(90, 900)):
        yield "guat", gen_guat(rng)
