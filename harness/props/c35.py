"""C35 — map_blocks, blockwise and gufuncs see correct blocks and block locations.

Model:    lean/DaskModel/Model/MapBlocks.lean (index plan of map_blocks with drop_axis/new_axis/chunks=, block_info,
          gufunc loop dimensions) on top of K13 (Blockwise.lean) and Elemwise.lean
Theorems: lean/DaskModel/Props/C35.lean
Tie:      function level: the index strings/new_axes of the Blockwise layer map_blocks builds, the complete block_info
          dictionaries (read from the graph, no compute) for every block; API level: recording user functions (each
          block compared with the slice of the NumPy input at the reported array-location, once per output block,
          block_id), apply_gufunc against numpy.vectorize, blockwise with adjust_chunks/new_axes, per-block shapes.
"""
from __future__ import annotations

import itertools
import re

from sexp import Sym

from props import _hlg_util as U
from props import _c35x_gufunc as GX

PROP = "C35"
READY = True
DRIVER = "dm_hlg"
LEAN_MODULES = ["DaskModel.Props.C35", "DaskModel.Props.C35xGufunc"]
CASE_TIMEOUT_S = 60   # the first case of a run also pays the import of dask.array (slow on a loaded machine)
LEVEL_TEXT = ("Lean 4 theorems over a transliteration of map_blocks' index bookkeeping and block_info computation: "
              "`block_info_true` (the reported array-location of block b along an axis is [sum of the chunks before b, "
              "+ chunk b), i.e. exactly the positions `locate` maps to block b, for every chunking), "
              "`block_info_matches_blockwise` (the chunk-location map_blocks reports for an argument is the block "
              "coordinate the Blockwise layer really passes: K13 `argCoordsSpec` for the reversed-range index strings, "
              "incl. broadcasting of single-block axes), `drop_axis_location` (a dropped, concatenated axis is reported as "
              "the whole axis), `calls_once_per_block` (the emitted block set is duplicate-free and is exactly the output "
              "grid), `block_id_is_out_coord`, `loopDims_right_aligned` (apply_gufunc right-aligns loop dimensions). "
              "Validated: the index plan for drop_axis/new_axis/chunks= and all block_info dictionaries (function level, "
              "read from the graph), the blocks user functions actually receive, apply_gufunc vs numpy.vectorize. "
              "Extension (Props/C35xGufunc over Model/Gufunc, dask/array/gufunc.py end to end for the index bookkeeping): "
              "`gufunc_index_strings_spec` (for the index strings apply_gufunc hands to blockwise — loop dimensions shared and "
              "right-aligned, core dimensions per argument, output = loop dimensions, concatenate=True — every call gets the "
              "loop block of its output block, block 0 where an argument has one block, and ALL blocks of every core "
              "dimension), `gufunc_eq_vectorize` (for every chunking of the loop dimensions the value assembled at loop index l "
              "is f applied to the core slices NumPy's broadcasting selects; f abstract; `_multi` for several outputs), the "
              "guards as theorems (`guards_nargs`, `guards_ndim`, `plan_raises_core_multichunk`, `plan_ok_checks`, "
              "`chunks_aligned`, `outCore_missing`), `leaf_keys_grid` (the hand-built output layers have exactly the keys of "
              "the chunk grid), and for `_parse_gufunc_signature` (a deterministic automaton) `parse_render` (the canonical "
              "text of any signature parses back to it). Tied at function level: the parser incl. malformed signatures "
              "(exhaustive short strings + random edits, against the function and its own regular expression), the arguments of "
              "the wrapped `blockwise` call, the error raised and its dimension, leaf layers, output chunks, task "
              "dependencies; at API level position-encoding arrays decode which core slice each result element was computed "
              "from (vs `gufuncAt`, `vectorizeAt`, numpy.vectorize).")
LEVEL_NOTE = ("Trusted: Lean kernel + standard axioms; model tied by function-level diffs of the Blockwise layer and the "
              "block_info dictionaries that map_blocks builds, plus the K13 tie of C10; NumPy/np.vectorize as oracles; "
              "user functions are assumed pure.")
TECHNIQUE = "Lean 4 proof (induction over chunk lists / index strings) + differential correspondence + recording user functions"
ASSUMPTIONS = ["user functions are pure", "chunk sizes known (no NaN)",
               "gufunc signatures are ASCII and no core dimension is named __loopdim<d>__ (the model keeps loop and core "
               "dimensions apart by construction)",
               "concatenating all blocks of the core dimensions of one loop block yields that loop block's core slices "
               "(dask.array.core.concatenate_axes)"]
TRUSTED = ["numpy.vectorize as the reference for gufunc semantics"]


def _ok(ans):
    return isinstance(ans, list) and ans and ans[0] == "ok"


def _mk_arrays(specs):
    import dask.array as da
    out = []
    for i, s in enumerate(specs):
        x = U.leaf_data(s["shape"], s.get("dtype", "i8"), i + 1)
        out.append((x, da.from_array(x, chunks=tuple(tuple(c) for c in s["chunks"]))))
    return out


def _rank_map(syms):
    return {s: i for i, s in enumerate(sorted(set(syms)))}


# ------------------------------------------------------------------------------------------------
# function level: index plan + block_info dictionaries, read from the graph
# ------------------------------------------------------------------------------------------------

def _ident_info(*blocks, block_info=None, block_id=None):
    return blocks[0]


def case_blockinfo(ctx, inp):
    import numpy as np
    import dask.array as da
    from dask.blockwise import Blockwise
    arrs = _mk_arrays(inp["arrays"])
    drop = inp.get("drop") or None
    new_axis = inp.get("new_axis") or None
    chunks = inp.get("chunks")
    kw = {}
    if drop is not None:
        kw["drop_axis"] = drop if len(drop) != 1 or inp.get("drop_as_list") else drop[0]
    if new_axis is not None:
        kw["new_axis"] = new_axis
    if chunks is not None:
        kw["chunks"] = tuple(tuple(c) for c in chunks)
    ndims = [x.ndim for x, _ in arrs]
    mplan = ctx.lean(Sym("mbplan"), ndims, drop or [], new_axis or [], chunks if chunks is not None else None)
    try:
        r = da.map_blocks(_ident_info, *[d for _, d in arrs], dtype="i8", **kw)
    except ValueError as e:
        ctx.eq("map_blocks raises ValueError", mplan[0], Sym("raised"))
        ctx.branch("plan-raises")
        return
    except IndexError:
        # chunks[ax] out of range for a new axis
        ctx.eq("map_blocks raises IndexError", mplan[0], Sym("raised"))
        ctx.branch("plan-raises")
        return
    layer = r.dask.layers[r.name]
    if not isinstance(layer, Blockwise):
        ctx.fail("map_blocks did not produce a Blockwise layer")
        return
    if not _ok(mplan):
        ctx.disagree("map_blocks index plan", mplan, "accepted")
        return
    m_out, m_new = mplan[1]
    # the real layer uses tokens '.0', '.1', … = ranks of the integer symbols
    allsyms = set(m_out) | {s for n in ndims for s in range(n)} | {s for s, _ in m_new}
    rk = _rank_map(allsyms)
    real_out = [int(str(s)[1:]) for s in layer.output_indices]
    ctx.eq("output index string", [rk[s] for s in m_out], real_out)
    # the layer is rebuilt (for block_info) without `new_axes`; what the first pass put there is visible as the chunks
    # of the new output axes
    real_new = sorted([rk[s], [int(c) for c in r.chunks[m_out.index(s)]]] for s, _ in m_new)
    ctx.eq("chunks of the new axes", sorted([rk[s], list(c)] for s, c in m_new), real_new)
    if len(r.chunks) != len(m_out):
        ctx.fail("map_blocks: number of output dimensions differs from the index plan", observed=len(r.chunks), expected=len(m_out))
    # block_info dictionaries straight from the graph
    deps = [d for d in layer.io_deps.values() if hasattr(d, "values") and isinstance(d.values, dict)
            and d.values and isinstance(next(iter(d.values.values())), dict)]
    if not deps:
        ctx.fail("map_blocks with a block_info keyword built no block_info dependency")
        return
    infod = deps[0].values
    dropping = bool(drop)
    oc = [[int(c) for c in ax] for ax in r.chunks]
    margs = [[list(range(x.ndim))[::-1], [[int(c) for c in ax] for ax in d.chunks]] for x, d in arrs]
    # which input's chunks each output index got (`blockwise(align_arrays=False)`), against the model
    if chunks is None:
        maf = dict((s, c) for s, c in ctx.lean(Sym("alignfalse"), margs))
        newsyms = {s for s, _ in m_new}
        for pos, s in enumerate(m_out):
            if s in newsyms:
                continue
            ctx.eq("output chunks of an index (align_arrays=False)", maf.get(s), oc[pos])
        if any(sum(c) == 1 and len(c) == 1 for _, cs in margs for c in cs) and len(margs) > 1:
            ctx.branch("align-false-with-broadcast-input")
    blocks = list(itertools.product(*[range(len(c)) for c in r.chunks]))
    if set(infod) != set(blocks):
        ctx.fail("block_info has entries for other blocks than the output grid", observed=sorted(map(list, infod)))
    for bid in (blocks if len(blocks) <= 12 else ctx.rng.sample(blocks, 12)):
        info = infod[bid]
        m = ctx.lean(Sym("blockinfo"), dropping, m_out, oc, list(bid), margs)
        real_args = []
        for i in range(len(arrs)):
            e = info[i]
            real_args.append([list(e["shape"]), list(e["num-chunks"]), [list(p) for p in e["array-location"]], list(e["chunk-location"])])
        o = info[None]
        real_o = [list(o["shape"]), list(o["num-chunks"]), [list(p) for p in o["array-location"]], list(o["chunk-location"])]
        ctx.eq("block_info", m, [Sym("ok"), [real_args, real_o, list(o["chunk-shape"])]])
        # truth of the locations (property clause), independent of the model
        for i, (x, d) in enumerate(arrs):
            e = info[i]
            for j, (st, en) in enumerate(e["array-location"]):
                cs = U.cumsum0(d.chunks[j])
                sym = x.ndim - 1 - j
                dropped = dropping and sym not in m_out
                if dropped:
                    ok = (st, en) == (0, x.shape[j])
                else:
                    k = e["chunk-location"][j]
                    ok = (st, en) == (cs[k], cs[k + 1])
                if not ok:
                    ctx.fail("block_info array-location is not the true location of the chunk", observed=[i, j, [st, en]])
        for j, (st, en) in enumerate(o["array-location"]):
            cs = U.cumsum0(r.chunks[j])
            if (st, en) != (cs[bid[j]], cs[bid[j] + 1]):
                ctx.fail("block_info[None] array-location is not the true location of the output chunk", observed=[j, [st, en]])
    if dropping:
        ctx.branch("drop_axis")
    if new_axis:
        ctx.branch("new_axis")
    if chunks is not None:
        ctx.branch("chunks=")
    if len(arrs) > 1:
        ctx.branch("multi-input")
    if any(1 in x.shape and r.ndim and max(r.numblocks) > 1 for x, _ in arrs) or len({x.ndim for x, _ in arrs}) > 1:
        ctx.branch("broadcast")


def gen_blockinfo(rng):
    nd = rng.randint(0, 3)
    shape = [rng.randint(1, 4) for _ in range(nd)]
    common = U.rand_chunks(rng, shape)
    arrays = [{"shape": shape, "chunks": common}]
    mode = rng.choice(["plain", "multi", "multi", "drop", "drop", "new", "new+chunks", "drop+new", "bad"])
    inp = {}
    if mode == "multi":
        for _ in range(rng.randint(1, 2)):
            k = rng.randint(0, nd)
            sh = [s if rng.random() < 0.7 else 1 for s in shape[nd - k:]]
            ch = [(common[nd - k + j] if sh[j] == shape[nd - k + j] else [1]) for j in range(k)]
            arrays.append({"shape": sh, "chunks": ch})
        if rng.random() < 0.5:
            rng.shuffle(arrays)
    if mode in ("drop", "drop+new") and nd >= 1:
        k = rng.randint(1, nd)
        axes = sorted(rng.sample(range(nd), k))
        inp["drop"] = [a if rng.random() < 0.6 else a - nd for a in axes]
        inp["drop_as_list"] = rng.random() < 0.5
    if mode in ("new", "new+chunks", "drop+new"):
        ndrop = len(inp.get("drop") or [])
        nout = nd - ndrop
        k = rng.randint(1, 2)
        newax = sorted(rng.sample(range(nout + k), k))
        inp["new_axis"] = newax
        if mode == "new+chunks" or rng.random() < 0.3:
            oc, rest = [], [c for j, c in enumerate(common) if j not in [(a % nd) for a in (inp.get("drop") or [])]]
            it = iter(rest)
            for a in range(nout + k):
                oc.append([rng.randint(1, 3) for _ in range(rng.randint(1, 2))] if a in newax else list(next(it)))
            inp["chunks"] = oc
    if mode == "bad":
        t = rng.random()
        if t < 0.4 and nd:
            inp["drop"] = [nd + rng.randint(0, 1)]
        elif t < 0.7:
            inp["new_axis"] = [nd + 2]
        else:
            inp["chunks"] = [[1]] * (nd + 2)
            inp["new_axis"] = [0]
    inp["arrays"] = arrays
    return inp


# ------------------------------------------------------------------------------------------------
# API level: what user functions really receive
# ------------------------------------------------------------------------------------------------

def case_mapblocks(ctx, inp):
    import numpy as np
    import dask.array as da
    arrs = _mk_arrays(inp["arrays"])
    drop = inp.get("drop") or None
    nd0 = max((x.ndim for x, _ in arrs), default=0)
    recs = []

    def f(*blocks, block_info=None, block_id=None):
        ok, why = True, []
        for i, (b, (x, d)) in enumerate(zip(blocks, arrs)):
            bi = block_info[i]
            sl = tuple(slice(a, c) for a, c in bi["array-location"])
            if not (np.asarray(b).shape == x[sl].shape and np.array_equal(b, x[sl])):
                ok = False
                why.append(["block-is-not-the-slice-at-array-location", i, [list(p) for p in bi["array-location"]]])
            if tuple(bi["shape"]) != x.shape:
                ok = False
                why.append(["shape", i])
        if tuple(block_info[None]["chunk-location"]) != tuple(block_id):
            ok = False
            why.append(["block_id != block_info[None]['chunk-location']"])
        recs.append((tuple(block_id), ok, why, block_info[None]))
        full = np.broadcast_arrays(*blocks)
        y = full[0].copy()
        for z in full[1:]:
            y = y + z
        if drop is not None:
            y = y.sum(axis=tuple(a % nd0 for a in drop))
        return y

    kw = {}
    if drop is not None:
        kw["drop_axis"] = drop
    exp = np.broadcast_arrays(*[x for x, _ in arrs])
    ref = exp[0].copy()
    for z in exp[1:]:
        ref = ref + z
    if drop is not None:
        ref = ref.sum(axis=tuple(a % nd0 for a in drop))
    r = da.map_blocks(f, *[d for _, d in arrs], dtype="i8", **kw)
    got = np.asarray(r.compute(scheduler="sync"))
    if got.shape != ref.shape or not np.array_equal(got, ref):
        ctx.fail("map_blocks result differs from the NumPy reference", observed=got.tolist(), expected=ref.tolist())
    if tuple(r.shape) != ref.shape:
        ctx.fail("map_blocks lazy shape differs from the computed shape", observed=list(r.shape), expected=list(ref.shape))
    grid = sorted(itertools.product(*[range(n) for n in r.numblocks]))
    if sorted(k[0] for k in recs) != grid:
        ctx.fail("user function not called exactly once per output block", observed=sorted(list(k[0]) for k in recs), expected=[list(g) for g in grid])
    badr = [k for k in recs if not k[1]]
    if badr:
        ctx.fail("user function saw a block that is not where block_info says", observed=[list(badr[0][0]), badr[0][2]])
    for bid, _, _, o in recs:
        exp_loc = [(U.cumsum0(c)[i], U.cumsum0(c)[i + 1]) for c, i in zip(r.chunks, bid)]
        if [tuple(p) for p in o["array-location"]] != exp_loc or tuple(o["chunk-shape"]) != tuple(c[i] for c, i in zip(r.chunks, bid)):
            ctx.fail("block_info[None] does not describe the output chunk", observed=[list(bid), o["array-location"]])
    if drop is not None:
        ctx.branch("api-drop_axis")
    if len(arrs) > 1:
        ctx.branch("api-multi-input")
    if len(grid) > 1:
        ctx.branch("api-multi-block")


def case_newaxis(ctx, inp):
    """map_blocks(new_axis=, chunks=): metadata vs computed; block_info of the output"""
    import numpy as np
    import dask.array as da
    (x, d), = _mk_arrays(inp["arrays"])
    newax, sizes = inp["new_axis"], inp["sizes"]
    recs = []

    def f(b, block_info=None, block_id=None):
        recs.append((tuple(block_id), block_info[0], block_info[None]))
        y = b
        for a, s in zip(newax, sizes):
            y = np.repeat(np.expand_dims(y, a), s, axis=a)
        return y
    exp = x
    for a, s in zip(newax, sizes):
        exp = np.repeat(np.expand_dims(exp, a), s, axis=a)
    kw = {"new_axis": newax}
    if inp.get("chunks") is not None:
        kw["chunks"] = tuple(tuple(c) for c in inp["chunks"])
    r = da.map_blocks(f, d, dtype="i8", **kw)
    got = np.asarray(r.compute(scheduler="sync"))
    if got.shape != exp.shape or not np.array_equal(got, exp):
        ctx.fail("map_blocks(new_axis) result differs from NumPy", observed=list(got.shape), expected=list(exp.shape))
    if tuple(r.shape) != exp.shape:
        ctx.fail("map_blocks(new_axis) lazy shape differs from computed", observed=list(r.shape), expected=list(exp.shape))
    for bid, bi, o in recs:
        loc = [(U.cumsum0(c)[i], U.cumsum0(c)[i + 1]) for c, i in zip(r.chunks, bid)]
        if [tuple(p) for p in o["array-location"]] != loc:
            ctx.fail("block_info[None] array-location wrong with new_axis", observed=[list(bid), o["array-location"]])
        sl = tuple(slice(a, c) for a, c in bi["array-location"])
        if tuple(bi["chunk-location"]) != tuple(U.cumsum0(c).index(a) for c, (a, _) in zip(d.chunks, bi["array-location"])):
            ctx.fail("block_info chunk-location inconsistent with array-location", observed=[list(bid), bi])
    grid = sorted(itertools.product(*[range(n) for n in r.numblocks]))
    if sorted(k[0] for k in recs) != grid:
        ctx.fail("user function not called exactly once per output block (new_axis)")
    for idx in grid[:6]:
        b = np.asarray(r.blocks[idx].compute(scheduler="sync")) if r.ndim else got
        if b.shape != tuple(c[i] for c, i in zip(r.chunks, idx)):
            ctx.fail("block shape differs from .chunks (new_axis/chunks=)", observed=list(b.shape))
    ctx.branch("api-new_axis" + ("+chunks" if inp.get("chunks") is not None else ""))


# ------------------------------------------------------------------------------------------------
# API level: blockwise with adjust_chunks / new_axes / align_arrays
# ------------------------------------------------------------------------------------------------

class _Dup:
    """doubles axis `ax` of a block"""

    def __init__(self, ax):
        self.ax = ax

    def __call__(self, b):
        import numpy as np
        return np.concatenate([b, b], axis=self.ax)

    def __dask_tokenize__(self):
        return ("_Dup", self.ax)


def case_adjust(ctx, inp):
    import numpy as np
    import dask.array as da
    (x, d), = _mk_arrays(inp["arrays"])
    ax = inp["axis"]
    ind = tuple(range(x.ndim))
    how = inp["how"]
    ch = [int(c) for c in d.chunks[ax]]
    if how == "callable":
        adj = {ax: lambda n: 2 * n}
    elif how == "tuple":
        adj = {ax: tuple(2 * c for c in ch)}
    elif how == "int":
        adj = {ax: 2 * ch[0]}
    else:
        adj = {ax: tuple(2 * c for c in ch) + (1,)}  # wrong number of blocks: must raise
    try:
        r = da.blockwise(_Dup(ax), ind, d, ind, adjust_chunks=adj, dtype=x.dtype)
    except ValueError:
        if how != "badtuple":
            ctx.fail("blockwise(adjust_chunks) raised for a consistent specification")
        ctx.branch("adjust-badtuple-raises")
        return
    if how == "badtuple":
        ctx.fail("blockwise(adjust_chunks) accepted a tuple with the wrong number of blocks")
        return
    starts = U.cumsum0(ch)
    exp = np.concatenate([np.concatenate([np.take(x, range(s, e), axis=ax)] * 2, axis=ax) for s, e in zip(starts[:-1], starts[1:])], axis=ax)
    got = np.asarray(r.compute(scheduler="sync"))
    uniform = how != "int" or len(set(ch)) == 1
    if uniform:
        if tuple(r.chunks[ax]) != tuple(2 * c for c in ch):
            ctx.fail("adjust_chunks metadata differs from what was specified", observed=list(r.chunks[ax]))
        if got.shape != exp.shape or not np.array_equal(got, exp):
            ctx.fail("blockwise(adjust_chunks) result differs from reference")
        for idx in list(itertools.product(*[range(n) for n in r.numblocks]))[:8]:
            b = np.asarray(r.blocks[idx].compute(scheduler="sync"))
            if b.shape != tuple(c[i] for c, i in zip(r.chunks, idx)):
                ctx.fail("block shape differs from .chunks (adjust_chunks)", observed=list(b.shape))
    ctx.branch("adjust-" + how)


# ------------------------------------------------------------------------------------------------
# API level: apply_gufunc vs numpy.vectorize
# ------------------------------------------------------------------------------------------------

GUFUNCS = {
    "(i)->()": lambda a: a.sum(),
    "(i),(i)->()": lambda a, b: (a * b).sum(),
    "(i,j)->(i)": lambda a: a.sum(axis=1),
    "(i),(j)->(i,j)": lambda a, b: a[:, None] * b[None, :],
    "()->()": lambda a: a * 2,
    "(i)->(i)": lambda a: a[::-1].copy(),
    "(i,j),(j)->(i)": lambda a, b: a @ b,
    "(),()->()": lambda a, b: a - b,
    "(i)->(),()": lambda a: (a.min(), a.max()),
    "(i)->(k)": lambda a: a[:2].copy(),
}


def case_gufunc(ctx, inp):
    import numpy as np
    import dask.array as da
    sig = inp["sig"]
    fn = GUFUNCS[sig]
    arrs = _mk_arrays([dict(a, dtype="f8") for a in inp["arrays"]])
    xs = [x for x, _ in arrs]
    ds = [d for _, d in arrs]
    kw = {}
    if inp.get("output_sizes"):
        kw["output_sizes"] = inp["output_sizes"]
    nout = len(sig.split("->")[1].split("),("))
    try:
        ref = np.vectorize(fn, signature=sig)(*xs)
    except ValueError:
        ctx.note("numpy-rejects")
        return
    odt = ("f8",) * nout if nout > 1 else "f8"
    form = inp.get("odt_form", "plain")
    if form == "tuple" and nout == 1:
        odt = ("f8",)            # a one-element tuple/list is accepted for a single output
    elif form == "list":
        odt = ["f8"] * nout
    elif form == "infer":
        odt = None               # inferred by calling the function on dummy data
    elif form == "meta":
        odt = None
        kw["meta"] = tuple(np.empty((0,), dtype="f8") for _ in range(nout)) if nout > 1 else np.empty((0,), dtype="f8")
    try:
        r = da.apply_gufunc(fn, sig, *ds, vectorize=True, output_dtypes=odt, allow_rechunk=inp.get("allow_rechunk", False), **kw)
    except ValueError as e:
        if (("consists of multiple chunks" in str(e) or "different chunksize present" in str(e))
                and not inp.get("allow_rechunk") and inp.get("core_multi")):
            ctx.branch("core-dim-multi-chunk-rejected")
            return
        if "different chunksize present" in str(e) and inp.get("loop_mismatch"):
            ctx.branch("loop-chunks-mismatch-rejected")
            return
        ctx.fail("apply_gufunc raised on inputs numpy.vectorize accepts: " + repr(e)[:160])
        return
    outs = r if isinstance(r, tuple) else (r,)
    refs = ref if isinstance(ref, tuple) else (ref,)
    for o, rf in zip(outs, refs):
        rf = np.asarray(rf)
        got = np.asarray(o.compute(scheduler="sync"))
        if got.shape != rf.shape or not np.allclose(got, rf):
            ctx.fail("apply_gufunc differs from numpy.vectorize", observed=list(got.shape), expected=list(rf.shape))
        if tuple(o.shape) != rf.shape:
            ctx.fail("apply_gufunc lazy shape differs from numpy.vectorize's result", observed=list(o.shape), expected=list(rf.shape))
        for idx in list(itertools.product(*[range(n) for n in o.numblocks]))[:6]:
            b = np.asarray(o.blocks[idx].compute(scheduler="sync")) if o.ndim else got
            if b.shape != tuple(c[i] for c, i in zip(o.chunks, idx)):
                ctx.fail("gufunc block shape differs from .chunks", observed=[list(idx), list(b.shape)])
    # loop dimension alignment against the model: the Blockwise layer's index strings
    nloops = [x.ndim - len([c for c in a.split(",") if c]) for x, a in zip(xs, re.findall(r"\(([^)]*)\)", sig.split("->")[0]))]
    mx = max(nloops) if nloops else 0
    for n in nloops:
        m = ctx.lean(Sym("loopdims"), mx, n)
        ctx.eq("loop dims right aligned", m, list(range(mx - n, mx)))
    if len(set(nloops)) > 1:
        ctx.branch("gufunc-loop-broadcast")
    if nout > 1:
        ctx.branch("gufunc-multi-output")
    if inp.get("allow_rechunk"):
        ctx.branch("gufunc-allow_rechunk")
    ctx.branch("gufunc")


def case_gufunc_axes(ctx, inp):
    """apply_gufunc with axis= / axes= / keepdims= against the moveaxis reference built on numpy.vectorize"""
    import numpy as np
    import dask.array as da
    sig = inp["sig"]
    fn = GUFUNCS[sig]
    arrs = _mk_arrays([dict(a, dtype="f8") for a in inp["arrays"]])
    xs = [x for x, _ in arrs]
    ds = [d for _, d in arrs]
    vec = np.vectorize(fn, signature=sig)
    kw = {}
    if inp["mode"] == "axis":
        k = inp["axis"]
        ref = vec(*[np.moveaxis(x, k, -1) for x in xs])
        kw["axis"] = k
        if inp.get("keepdims"):
            ref = np.expand_dims(ref, k)
            kw["keepdims"] = True
    else:
        in_axes, out_axes = inp["in_axes"], inp["out_axes"]
        moved = [np.moveaxis(x, list(ax), list(range(-len(ax), 0))) for x, ax in zip(xs, in_axes)]
        ref = vec(*moved)
        ref = np.moveaxis(ref, list(range(-len(out_axes), 0)), list(out_axes)) if out_axes else ref
        kw["axes"] = [tuple(a) for a in in_axes] + [tuple(out_axes)]
    try:
        r = da.apply_gufunc(fn, sig, *ds, vectorize=True, output_dtypes="f8", **kw)
    except Exception as e:
        ctx.fail("apply_gufunc(axis/axes) raised: " + type(e).__name__ + ": " + str(e)[:160])
        return
    got = np.asarray(r.compute(scheduler="sync"))
    ref = np.asarray(ref)
    if got.shape != ref.shape or not np.allclose(got, ref):
        ctx.fail("apply_gufunc(axis/axes) differs from the moveaxis/np.vectorize reference", observed=list(got.shape), expected=list(ref.shape))
    if tuple(r.shape) != ref.shape:
        ctx.fail("apply_gufunc(axis/axes): lazy shape differs from the computed shape", observed=list(r.shape), expected=list(ref.shape))
    for idx in list(itertools.product(*[range(n) for n in r.numblocks]))[:6]:
        b = np.asarray(r.blocks[idx].compute(scheduler="sync")) if r.ndim else got
        if b.shape != tuple(c[i] for c, i in zip(r.chunks, idx)):
            ctx.fail("gufunc(axis/axes) block shape differs from .chunks", observed=[list(idx), list(b.shape)])
    ctx.branch("gufunc-" + inp["mode"] + ("-keepdims" if inp.get("keepdims") else ""))


def gen_gufunc_axes(rng):
    mode = rng.choice(["axis", "axis", "axes"])
    if mode == "axis":
        sig = rng.choice(["(i)->()", "(i),(i)->()"])
        nd = rng.randint(1, 3)
        shape = [rng.randint(1, 4) for _ in range(nd)]
        k = rng.randrange(-nd, nd)
        ch = U.rand_chunks(rng, shape)
        ch[k % nd] = [shape[k % nd]]            # the core axis is a single chunk
        nargs = 2 if sig.count("(i)") == 2 and sig.startswith("(i),(i)") else 1
        return {"sig": sig, "mode": "axis", "axis": k, "keepdims": rng.random() < 0.4,
                "arrays": [{"shape": shape, "chunks": ch} for _ in range(nargs)]}
    sig = rng.choice(["(i)->(i)", "(i,j)->(i)"])
    nd = rng.randint(2, 3)
    shape = [rng.randint(1, 4) for _ in range(nd)]
    ncore = 1 if sig == "(i)->(i)" else 2
    in_ax = rng.sample(range(nd), ncore)
    ch = U.rand_chunks(rng, shape)
    for a in in_ax:
        ch[a] = [shape[a]]
    nd_out = nd - ncore + 1
    out_ax = [rng.randrange(nd_out)]
    if rng.random() < 0.5:
        in_ax = [a - nd for a in in_ax]
        out_ax = [out_ax[0] - nd_out]
    return {"sig": sig, "mode": "axes", "in_axes": [in_ax], "out_axes": out_ax, "arrays": [{"shape": shape, "chunks": ch}]}


def gen_gufunc(rng):
    sig = rng.choice(list(GUFUNCS))
    inargs = re.findall(r"\(([^)]*)\)", sig.split("->")[0])
    core = {"i": rng.randint(2, 3), "j": rng.randint(1, 3)}
    loopshape = [rng.randint(1, 3) for _ in range(rng.randint(0, 2))]
    lch = U.rand_chunks(rng, loopshape)
    arrays = []
    allow = rng.random() < 0.25
    core_multi = False
    for a in inargs:
        cd = [c for c in a.split(",") if c]
        kk = rng.randint(0, len(loopshape))
        off = len(loopshape) - kk
        ls = [s if rng.random() < 0.7 else 1 for s in loopshape[off:]]
        lc = [(lch[off + j] if ls[j] == loopshape[off + j] else [1]) for j in range(kk)]
        cc = []
        for c in cd:
            if (allow or rng.random() < 0.08) and core[c] > 1:
                cc.append(U.rand_comp(rng, core[c]))
                core_multi = core_multi or len(cc[-1]) > 1
            else:
                cc.append([core[c]])
        arrays.append({"shape": ls + [core[c] for c in cd], "chunks": lc + cc})
    inp = {"sig": sig, "arrays": arrays, "allow_rechunk": allow, "core_multi": core_multi,
           "odt_form": rng.choice(["plain", "plain", "tuple", "list", "infer", "meta"])}
    if sig == "(i)->(k)":
        inp["output_sizes"] = {"k": 2}
    return inp


# ------------------------------------------------------------------------------------------------
# API level: programs built from blockwise-family ops (alignment by index strings) vs NumPy, per-block shapes
# ------------------------------------------------------------------------------------------------

PROG_W = {"bw2": 6, "bwc": 5, "mb": 2, "mb_new": 3, "mb_drop": 3, "bwsum": 2, "bwlist": 2, "bin": 3, "T": 2, "un": 1}


def case_prog(ctx, inp):
    import numpy as np
    prog = inp["prog"]
    with np.errstate(all="ignore"):
        try:
            x = np.asarray(U.run_prog(prog, "np"))
        except Exception:
            ctx.note("numpy-invalid-program")
            return
        d = U.run_prog(prog, "da")
        got = np.asarray(d.compute(scheduler="sync"))
    if got.shape != x.shape or not np.allclose(got, x, equal_nan=True):
        ctx.fail("blockwise-family program differs from NumPy", observed=list(got.shape), expected=list(x.shape))
    if tuple(d.shape) != x.shape:
        ctx.fail("lazy shape differs from computed shape", observed=list(d.shape), expected=list(x.shape))
    grid = list(itertools.product(*[range(n) for n in d.numblocks]))
    starts = [U.cumsum0(c) for c in d.chunks]
    for idx in (grid if len(grid) <= 6 else ctx.rng.sample(grid, 6)):
        b = np.asarray(d.blocks[idx].compute(scheduler="sync")) if d.ndim else got
        sl = tuple(slice(st[i], st[i + 1]) for st, i in zip(starts, idx))
        if b.shape != x[sl].shape or not np.allclose(b, x[sl], equal_nan=True):
            ctx.fail("a separately computed block is not the corresponding slice of the result", observed=[list(idx), list(b.shape)])
    for o in set(U.prog_ops(prog)):
        ctx.note("op:" + o.split(":")[0])
    ops = U.prog_ops(prog)
    for tag in ("bw2", "bwc", "mb_new", "mb_drop", "bwlist"):
        if tag in ops:
            ctx.branch("prog-" + tag)


CASES = {"blockinfo": case_blockinfo, "mapblocks": case_mapblocks, "newaxis": case_newaxis, "adjust": case_adjust,
         "gufunc": case_gufunc, "gufunc_axes": case_gufunc_axes, "prog": case_prog}
CASES.update(GX.CASES)


def gen_mapblocks(rng):
    nd = rng.randint(0, 3)
    shape = [rng.randint(1, 4) for _ in range(nd)]
    common = U.rand_chunks(rng, shape)
    arrays = [{"shape": shape, "chunks": common}]
    for _ in range(rng.choice([0, 1, 1, 2])):
        k = rng.randint(0, nd)
        sh = [s if rng.random() < 0.7 else 1 for s in shape[nd - k:]]
        ch = [(common[nd - k + j] if sh[j] == shape[nd - k + j] else [1]) for j in range(k)]
        arrays.append({"shape": sh, "chunks": ch})
    inp = {"arrays": arrays}
    if nd >= 1 and rng.random() < 0.4:
        k = rng.randint(1, nd)
        inp["drop"] = [a if rng.random() < 0.6 else a - nd for a in sorted(rng.sample(range(nd), k))]
    elif rng.random() < 0.4:
        rng.shuffle(arrays)
    return inp


def gen_newaxis(rng):
    nd = rng.randint(0, 2)
    shape = [rng.randint(1, 4) for _ in range(nd)]
    ch = U.rand_chunks(rng, shape)
    k = rng.randint(1, 2)
    newax = sorted(rng.sample(range(nd + k), k))
    sizes = [rng.randint(1, 3) for _ in newax]
    inp = {"arrays": [{"shape": shape, "chunks": ch}], "new_axis": newax, "sizes": sizes}
    if rng.random() < 0.6 or any(s != 1 for s in sizes):
        oc, it = [], iter(ch)
        for a in range(nd + k):
            oc.append([sizes[newax.index(a)]] if a in newax else list(next(it)))
        inp["chunks"] = oc
    return inp


def generate(ctx):
    rng = ctx.rng
    for _ in range(ctx.n(450, 4500)):
        yield "blockinfo", gen_blockinfo(rng)
    for _ in range(ctx.n(120, 1200)):
        yield "mapblocks", gen_mapblocks(rng)
    for _ in range(ctx.n(60, 600)):
        yield "newaxis", gen_newaxis(rng)
    for _ in range(ctx.n(50, 500)):
        nd = rng.randint(1, 2)
        shape = [rng.randint(1, 4) for _ in range(nd)]
        yield "adjust", {"arrays": [{"shape": shape, "chunks": U.rand_chunks(rng, shape)}], "axis": rng.randrange(nd),
                         "how": rng.choice(["callable", "tuple", "int", "badtuple"])}
    for _ in range(ctx.n(90, 900)):
        yield "gufunc", gen_gufunc(rng)
    for _ in range(ctx.n(50, 500)):
        yield "gufunc_axes", gen_gufunc_axes(rng)
    G = U.ProgGen(rng, PROG_W, leaf_dtypes=("i8", "f8"), maxdim=4, maxnd=3)
    for _ in range(ctx.n(60, 600)):
        p, _x = G.gen(rng.randint(1, 3))
        yield "prog", {"prog": p}
    # extension round: dask/array/gufunc.py end to end (appended last so that the streams above are unchanged)
    yield from GX.generate(ctx)
