"""Helpers shared by the `reduce` group (C22 C28 C30 C31 C32 C33): chunking generators,
array generators, graph-structure extraction, comparison helpers."""
from __future__ import annotations

import itertools
import math
import warnings

import numpy as np


# ---------------------------------------------------------------------------------------------
# chunkings
# ---------------------------------------------------------------------------------------------

def compositions(n):
    """All tuples of positive ints summing to n (n >= 1), in a fixed order."""
    if n == 0:
        return [(0,)]
    out = []
    for bits in range(1 << (n - 1)):
        cur, c = [], 1
        for i in range(n - 1):
            if bits >> i & 1:
                cur.append(c)
                c = 1
            else:
                c += 1
        cur.append(c)
        out.append(tuple(cur))
    return out


def chunkings_1d(n, zeros=True):
    """All chunkings of a length-n axis: compositions, plus (optionally) one zero-length chunk
    inserted at every position of every composition."""
    base = compositions(n)
    out = list(base)
    if zeros and n > 0:
        for c in base:
            for pos in range(len(c) + 1):
                out.append(c[:pos] + (0,) + c[pos:])
    return out


def rand_chunks_1d(rng, n, zero_p=0.0):
    if n == 0:
        return (0,)
    mode = rng.random()
    if mode < 0.2:
        c = (1,) * n
    elif mode < 0.3:
        c = (n,)
    elif mode < 0.5:
        k = rng.randint(1, n)
        c = tuple([k] * (n // k) + ([n % k] if n % k else []))
    else:
        cuts = sorted(rng.sample(range(1, n), rng.randint(0, n - 1))) if n > 1 else []
        c = tuple(b - a for a, b in zip([0] + cuts, cuts + [n]))
    if zero_p and rng.random() < zero_p:
        pos = rng.randint(0, len(c))
        c = c[:pos] + (0,) + c[pos:]
    return c


def rand_chunks(rng, shape, zero_p=0.0):
    return tuple(rand_chunks_1d(rng, n, zero_p) for n in shape)


def big_shape_chunks(rng, maxlen=40, zero_p=0.0):
    """A 1-d or 2-d shape with one LONG axis (9 … maxlen) cut into 1–4 chunks, so that single chunks hold 7–40
    elements (code paths that depend on the chunk size — k vs. chunk length, partition sizes, thresholds — are not
    reached by the small shapes used elsewhere)."""
    n = rng.randint(9, maxlen)
    k = rng.randint(0, 3)
    cuts = sorted(rng.sample(range(1, n), k)) if k else []
    long_chunks = tuple(b - a for a, b in zip([0] + cuts, cuts + [n]))
    if zero_p and rng.random() < zero_p:
        pos = rng.randint(0, len(long_chunks))
        long_chunks = long_chunks[:pos] + (0,) + long_chunks[pos:]
    if rng.random() < 0.5:
        return (n,), (long_chunks,)
    m = rng.randint(1, 4)
    other = rand_chunks_1d(rng, m)
    if rng.random() < 0.5:
        return (n, m), (long_chunks, other)
    return (m, n), (other, long_chunks)


def block_bounds(chunks_1d):
    """[(start, stop)] for one axis."""
    out, s = [], 0
    for c in chunks_1d:
        out.append((s, s + c))
        s += c
    return out


def blocks_c_order(a, chunks, axes=None):
    """The blocks of ndarray `a` under `chunks`, in C order of the block grid: list of
    (block_index_tuple, offsets_tuple, block_ndarray)."""
    bounds = [block_bounds(c) for c in chunks]
    out = []
    for idx in itertools.product(*[range(len(b)) for b in bounds]):
        sl = tuple(slice(bounds[ax][i][0], bounds[ax][i][1]) for ax, i in enumerate(idx))
        out.append((idx, tuple(bounds[ax][i][0] for ax, i in enumerate(idx)), a[sl]))
    return out


# ---------------------------------------------------------------------------------------------
# data
# ---------------------------------------------------------------------------------------------

def rand_shape(rng, maxd=3, maxn=5, minn=1):
    d = rng.randint(1, maxd)
    return tuple(rng.randint(minn, maxn) for _ in range(d))


def rand_int_array(rng, shape, lo=-3, hi=3):
    n = int(np.prod(shape)) if shape else 1
    return np.array([rng.randint(lo, hi) for _ in range(n)], dtype=np.int64).reshape(shape)


def rand_float_array(rng, shape, nan_p=0.0, inf_p=0.0, dup=True):
    n = int(np.prod(shape)) if shape else 1
    vals = []
    for _ in range(n):
        r = rng.random()
        if r < nan_p:
            vals.append(float("nan"))
        elif r < nan_p + inf_p:
            vals.append(rng.choice([float("inf"), float("-inf")]))
        elif dup and rng.random() < 0.5:
            vals.append(float(rng.randint(-3, 3)))
        else:
            vals.append(round(rng.uniform(-50, 50), 3))
    return np.array(vals, dtype=np.float64).reshape(shape)


# ---------------------------------------------------------------------------------------------
# comparison
# ---------------------------------------------------------------------------------------------

def same_values(got, exp, exact, scale=1.0, rtol=1e-9):
    """Shape + values (exact for ints/bools, tolerance scaled by `scale` for floats, NaN == NaN)."""
    got = np.asarray(got)
    exp = np.asarray(exp)
    if got.shape != exp.shape:
        return False
    if exact:
        return bool(np.array_equal(got, exp, equal_nan=got.dtype.kind in "fc" and exp.dtype.kind in "fc"))
    with warnings.catch_warnings():
        warnings.simplefilter("ignore")
        tol = rtol * max(1.0, float(scale))
        return bool(np.allclose(got.astype(float), exp.astype(float), rtol=rtol, atol=tol, equal_nan=True))


def run_both(f_impl, f_ref):
    """Run implementation and reference; exceptions mapped to ('raised', type name)."""
    with warnings.catch_warnings():
        warnings.simplefilter("ignore")
        try:
            exp = ("ok", f_ref())
        except Exception as e:  # reference raising is part of the specification
            exp = ("raised", type(e).__name__)
        try:
            got = ("ok", f_impl())
        except Exception as e:
            got = ("raised", type(e).__name__ + ": " + str(e)[:200])
    return got, exp


def lol_flatten(x):
    if isinstance(x, list):
        out = []
        for e in x:
            out.extend(lol_flatten(e))
        return out
    return [x]


def sync_compute(x):
    return x.compute(scheduler="sync")


def fsum_abs(a):
    a = np.asarray(a, dtype=float)
    a = a[np.isfinite(a)]
    return float(np.abs(a).sum()) if a.size else 0.0


def prod_shape(shape):
    return int(math.prod(shape))


def joint_vs_solo(arrays, scheduler="sync"):
    """Compute the collections together and one by one; returns the indices whose joint result differs from
    the solo result (key/name collisions between different collections show up here), NaN == NaN."""
    import dask
    with warnings.catch_warnings():
        warnings.simplefilter("ignore")
        try:
            joint = dask.compute(*arrays, scheduler=scheduler)
        except Exception:   # noqa: BLE001 — a key collision can also make the merged graph fail outright
            for x in arrays:
                x.compute(scheduler=scheduler)      # a genuine error of one collection propagates
            return list(range(len(arrays)))
        bad = []
        for i, (x, j) in enumerate(zip(arrays, joint)):
            s = x.compute(scheduler=scheduler)
            try:
                if np.ma.isMaskedArray(s) or np.ma.isMaskedArray(j):
                    same = np.array_equal(np.ma.getmaskarray(s), np.ma.getmaskarray(j)) and \
                        np.array_equal(np.ma.filled(s, 0), np.ma.filled(j, 0), equal_nan=True)
                else:
                    s_, j_ = np.asarray(s), np.asarray(j)
                    same = s_.shape == j_.shape and bool(np.array_equal(s_, j_, equal_nan=s_.dtype.kind in "fc"))
            except TypeError:
                same = bool(np.array_equal(np.asarray(s), np.asarray(j)))
            if not same:
                bad.append(i)
    return bad


# ---------------------------------------------------------------------------------------------
# purity of the sources
# ---------------------------------------------------------------------------------------------

def _snapshot(x):
    if isinstance(x, np.ma.MaskedArray):
        return ("ma", np.ma.getdata(x).copy(), np.ma.getmaskarray(x).copy(), np.asarray(x.fill_value).copy())
    return ("nd", x.copy())


def _unchanged(x, snap):
    if snap[0] == "ma":
        d, m, f = snap[1:]
        return (np.array_equal(np.ma.getmaskarray(x), m) and _eq(np.ma.getdata(x), d) and _eq(np.asarray(x.fill_value), f))
    return _eq(x, snap[1])


def _eq(a, b):
    try:
        return bool(np.array_equal(a, b, equal_nan=True))
    except TypeError:
        return bool(np.array_equal(a, b))


def pure_sources(case):
    """Wrap a case function: every NumPy array handed to `da.from_array` during the case must be unchanged
    (data, mask, fill_value) when the case ends, and so must the dask array made from it — `from_array` keeps its
    own copy in the graph, chunk functions receive views of that copy and must not write to them (a later compute of
    the same collection, or another consumer in the same graph, would see the damage)."""
    def wrapped(ctx, inp):
        import dask.array as da
        orig = da.from_array
        seen = []

        def recording_from_array(x, *args, **kwargs):
            r = orig(x, *args, **kwargs)
            if isinstance(x, np.ndarray) and len(seen) < 32 and not any(x is y for y, _, _, _ in seen):
                seen.append((x, _snapshot(x), r, r.name))
            return r

        da.from_array = recording_from_array
        try:
            case(ctx, inp)
        finally:
            da.from_array = orig
        for x, snap, darr, name0 in seen:
            if not _unchanged(x, snap):
                ctx.fail("computing changed a NumPy array that was passed to from_array (a chunk function wrote to its input)",
                         observed=np.ma.filled(x, 0).tolist() if x.size <= 64 else list(x.shape),
                         expected=snap[1].tolist() if snap[1].size <= 64 else None)
                break
            if darr.name != name0:
                continue        # redefined in place by an API that does so (da.ma.set_fill_value)
            try:
                with warnings.catch_warnings():
                    warnings.simplefilter("ignore")
                    again = darr.compute(scheduler="sync")
            except Exception:   # noqa: BLE001 — not this oracle's business
                continue
            if not _unchanged(again, snap) if snap[0] == "ma" and isinstance(again, np.ma.MaskedArray) else not _eq(np.ma.getdata(again), snap[1]):
                ctx.fail("a source array recomputed after the case differs from the NumPy array it was made from "
                         "(a chunk function wrote to the block it was given)",
                         observed=np.ma.filled(again, 0).tolist() if np.size(again) <= 64 else None,
                         expected=snap[1].tolist() if snap[1].size <= 64 else None)
                break
    wrapped.__name__ = getattr(case, "__name__", "case")
    wrapped.__doc__ = case.__doc__
    return wrapped
