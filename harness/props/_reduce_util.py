"""Helpers shared by the `reduce` group (C22 C28 C30 C31 C32 C33): chunking generators,
array generators, graph-structure extraction, comparison helpers."""
from __future__ import annotations

import itertools
import math
import warnings

import numpy as np


# ---------------------------------------------------------------------------------------------
# chunkings
# ---------------------------------------------------------------------------------------------

def compositions(n):
    """All tuples of positive ints summing to n (n >= 1), in a fixed order."""
    if n == 0:
        return [(0,)]
    out = []
    for bits in range(1 << (n - 1)):
        cur, c = [], 1
        for i in range(n - 1):
            if bits >> i & 1:
                cur.append(c)
                c = 1
            else:
                c += 1
        cur.append(c)
        out.append(tuple(cur))
    return out


def chunkings_1d(n, zeros=True):
    """All chunkings of a length-n axis: compositions, plus (optionally) one zero-length chunk
    inserted at every position of every composition."""
    base = compositions(n)
    out = list(base)
    if zeros and n > 0:
        for c in base:
            for pos in range(len(c) + 1):
                out.append(c[:pos] + (0,) + c[pos:])
    return out


def rand_chunks_1d(rng, n, zero_p=0.0):
    if n == 0:
        return (0,)
    mode = rng.random()
    if mode < 0.2:
        c = (1,) * n
    elif mode < 0.3:
        c = (n,)
    elif mode < 0.5:
        k = rng.randint(1, n)
        c = tuple([k] * (n // k) + ([n % k] if n % k else []))
    else:
        cuts = sorted(rng.sample(range(1, n), rng.randint(0, n - 1))) if n > 1 else []
        c = tuple(b - a for a, b in zip([0] + cuts, cuts + [n]))
    if zero_p and rng.random() < zero_p:
        pos = rng.randint(0, len(c))
        c = c[:pos] + (0,) + c[pos:]
    return c


def rand_chunks(rng, shape, zero_p=0.0):
    return tuple(rand_chunks_1d(rng, n, zero_p) for n in shape)


def block_bounds(chunks_1d):
    """[(start, stop)] for one axis."""
    out, s = [], 0
    for c in chunks_1d:
        out.append((s, s + c))
        s += c
    return out


def blocks_c_order(a, chunks, axes=None):
    """The blocks of ndarray `a` under `chunks`, in C order of the block grid: list of
    (block_index_tuple, offsets_tuple, block_ndarray)."""
    bounds = [block_bounds(c) for c in chunks]
    out = []
    for idx in itertools.product(*[range(len(b)) for b in bounds]):
        sl = tuple(slice(bounds[ax][i][0], bounds[ax][i][1]) for ax, i in enumerate(idx))
        out.append((idx, tuple(bounds[ax][i][0] for ax, i in enumerate(idx)), a[sl]))
    return out


# ---------------------------------------------------------------------------------------------
# data
# ---------------------------------------------------------------------------------------------

def rand_shape(rng, maxd=3, maxn=5, minn=1):
    d = rng.randint(1, maxd)
    return tuple(rng.randint(minn, maxn) for _ in range(d))


def rand_int_array(rng, shape, lo=-3, hi=3):
    n = int(np.prod(shape)) if shape else 1
    return np.array([rng.randint(lo, hi) for _ in range(n)], dtype=np.int64).reshape(shape)


def rand_float_array(rng, shape, nan_p=0.0, inf_p=0.0, dup=True):
    n = int(np.prod(shape)) if shape else 1
    vals = []
    for _ in range(n):
        r = rng.random()
        if r < nan_p:
            vals.append(float("nan"))
        elif r < nan_p + inf_p:
            vals.append(rng.choice([float("inf"), float("-inf")]))
        elif dup and rng.random() < 0.5:
            vals.append(float(rng.randint(-3, 3)))
        else:
            vals.append(round(rng.uniform(-50, 50), 3))
    return np.array(vals, dtype=np.float64).reshape(shape)


# ---------------------------------------------------------------------------------------------
# comparison
# ---------------------------------------------------------------------------------------------

def same_values(got, exp, exact, scale=1.0, rtol=1e-9):
    """Shape + values (exact for ints/bools, tolerance scaled by `scale` for floats, NaN == NaN)."""
    got = np.asarray(got)
    exp = np.asarray(exp)
    if got.shape != exp.shape:
        return False
    if exact:
        return bool(np.array_equal(got, exp, equal_nan=got.dtype.kind in "fc" and exp.dtype.kind in "fc"))
    with warnings.catch_warnings():
        warnings.simplefilter("ignore")
        tol = rtol * max(1.0, float(scale))
        return bool(np.allclose(got.astype(float), exp.astype(float), rtol=rtol, atol=tol, equal_nan=True))


def run_both(f_impl, f_ref):
    """Run implementation and reference; exceptions mapped to ('raised', type name)."""
    with warnings.catch_warnings():
        warnings.simplefilter("ignore")
        try:
            exp = ("ok", f_ref())
        except Exception as e:  # reference raising is part of the specification
            exp = ("raised", type(e).__name__)
        try:
            got = ("ok", f_impl())
        except Exception as e:
            got = ("raised", type(e).__name__ + ": " + str(e)[:200])
    return got, exp


def lol_flatten(x):
    if isinstance(x, list):
        out = []
        for e in x:
            out.extend(lol_flatten(e))
        return out
    return [x]


def sync_compute(x):
    return x.compute(scheduler="sync")


def fsum_abs(a):
    a = np.asarray(a, dtype=float)
    a = a[np.isfinite(a)]
    return float(np.abs(a).sum()) if a.size else 0.0


def prod_shape(shape):
    return int(math.prod(shape))


def joint_vs_solo(arrays, scheduler="sync"):
    """Compute the collections together and one by one; returns the indices whose joint result differs from
    the solo result (key/name collisions between different collections show up here), NaN == NaN."""
    import dask
    with warnings.catch_warnings():
        warnings.simplefilter("ignore")
        try:
            joint = dask.compute(*arrays, scheduler=scheduler)
        except Exception:   # noqa: BLE001 — a key collision can also make the merged graph fail outright
            for x in arrays:
                x.compute(scheduler=scheduler)      # a genuine error of one collection propagates
            return list(range(len(arrays)))
        bad = []
        for i, (x, j) in enumerate(zip(arrays, joint)):
            s = x.compute(scheduler=scheduler)
            try:
                if np.ma.isMaskedArray(s) or np.ma.isMaskedArray(j):
                    same = np.array_equal(np.ma.getmaskarray(s), np.ma.getmaskarray(j)) and \
                        np.array_equal(np.ma.filled(s, 0), np.ma.filled(j, 0), equal_nan=True)
                else:
                    s_, j_ = np.asarray(s), np.asarray(j)
                    same = s_.shape == j_.shape and bool(np.array_equal(s_, j_, equal_nan=s_.dtype.kind in "fc"))
            except TypeError:
                same = bool(np.array_equal(np.asarray(s), np.asarray(j)))
            if not same:
                bad.append(i)
    return bad
