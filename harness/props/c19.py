"""C19 — elementwise and broadcasting array operations equal NumPy.

Model:    lean/DaskModel/Model/Elemwise.lean (broadcast_shapes, common_blockdim, unify_chunks, the per-axis block plan of an
          elementwise operation) on top of K13 (lean/DaskModel/Model/Blockwise.lean)
Theorems: lean/DaskModel/Props/C19.lean
Tie:      function level: broadcast_shapes, common_blockdim, unify_chunks (chunks dict and the chunks of every rechunked
          argument), the element each output position reads (position-encoding values); API level: random elementwise
          programs over dtypes/shapes/chunkings (0-d, zero-length, scalars, NumPy operands, where/astype/clip), the ufunc
          table extracted from dask/array/ufunc.py with `where=`/`out=`, all chunkings of small shapes (thorough).
"""
from __future__ import annotations

import itertools

from sexp import Sym

from props import _hlg_util as U

PROP = "C19"
READY = True
DRIVER = "dm_hlg"
LEAN_MODULES = ["DaskModel.Props.C19", "DaskModel.Props.C19xUnifyGlue"]
TABLES = ["UfuncTable"]
CASE_TIMEOUT_S = 60   # the first case of a run also pays the import of dask.array (slow on a loaded machine)
LEVEL_TEXT = ("Lean 4 theorems over a transliteration of broadcast_shapes, common_blockdim, unify_chunks and the block plan "
              "of dask.array.core.elemwise: `broadcastShapes_eq_np` (dask's broadcast_shapes — fill value -1, `dim = 0 if 0 in "
              "sizes else max`, reject sizes outside [-1,0,1,dim] — accepts exactly the shape lists NumPy's right-aligned rule "
              "accepts and returns the same shape, zero-length dimensions included; via `bdim_eq_npdim`), "
              "`commonBlockdim_refines` (the walking loop of common_blockdim terminates within "
              "the supplied fuel and returns a chunking that refines every competing chunking and has the same total; "
              "`commonBlockdim_raises` when totals differ), `elemwise_alignment` (the reversed-range index strings "
              "right-align the arguments), `elemwise_axis_den`/`elemwise_den` (for every chunking, every broadcast-compatible "
              "size and every output position the element blockwise + NumPy-in-the-block read from an argument is the "
              "element NumPy's broadcasting reads: position i, or 0 along a size-1 axis), `ufunc_names_agree` over the ufunc "
              "table extracted from dask/array/ufunc.py, `commonBlockdim_zero`. VALIDATED, not proved: that the Lean NumPy rule "
              "is numpy.broadcast_shapes (diffed exhaustively over small shapes), how unify_chunks picks the candidates it hands to "
              "common_blockdim. Extension (Props/C19xUnifyGlue): the rechunking glue of unify_chunks — `unifyChunks_shapes`/"
              "`newChunks_shape` (when unify_chunks does not raise every argument keeps its shape), `newChunks_axis` (an axis "
              "longer than 1 is rechunked to exactly chunkss[j]; an axis of length <= 1 whose unified dimension has another "
              "length stays the single chunk (size,)), for every table of unified chunks. "
              "Element values, dtype promotion and the ufunc kernels are not in the theorems: they are compared with NumPy "
              "(values and dtype) on random programs and on the extracted ufunc table, incl. where=/out=.")
LEVEL_NOTE = ("Trusted: Lean kernel + standard axioms; the model, tied by function-level differential tests "
              "(broadcast_shapes, common_blockdim, unify_chunks, element positions) and the K13 tie of C10; NumPy as the "
              "reference for values/dtypes; unknown (NaN) chunk sizes are outside the model.")
TECHNIQUE = "Lean 4 proof (induction over chunk lists / columns) + differential correspondence + NumPy oracle"
ASSUMPTIONS = ["chunk sizes and shapes are known (no NaN)",
               "a NumPy ufunc applied to aligned blocks broadcasts size-1 block dimensions (NumPy's own rule)"]
TRUSTED = ["NumPy as reference for element values, dtype promotion and ufunc kernels"]


def _ok(ans):
    return isinstance(ans, list) and ans and ans[0] == "ok"


# ------------------------------------------------------------------------------------------------
# broadcast_shapes
# ------------------------------------------------------------------------------------------------

def case_bshapes(ctx, inp):
    import numpy as np
    from dask.array.core import broadcast_shapes
    shapes = [tuple(s) for s in inp["shapes"]]
    try:
        r = broadcast_shapes(*shapes)
        impl = [Sym("ok"), [int(v) for v in r]]
    except ValueError:
        impl = [Sym("raised")]
    m = ctx.lean(Sym("bshapes"), [list(s) for s in shapes])
    ctx.eq("broadcast_shapes", m[0], impl)
    ctx.eq("broadcast_shapes vs model of NumPy's rule", m[1], impl)
    try:
        ref = [Sym("ok"), [int(v) for v in np.broadcast_shapes(*shapes)]]
    except ValueError:
        ref = [Sym("raised")]
    if impl != ref:
        ctx.fail("broadcast_shapes differs from numpy.broadcast_shapes", observed=impl, expected=ref)
    if impl[0] == "raised":
        ctx.branch("incompatible")
    if any(0 in s for s in shapes):
        ctx.branch("zero-length")
    if len({len(s) for s in shapes}) > 1:
        ctx.branch("different-ndim")
    if any(1 in s for s in shapes) and impl[0] == "ok":
        ctx.branch("size-1-broadcast")


# ------------------------------------------------------------------------------------------------
# common_blockdim
# ------------------------------------------------------------------------------------------------

def _refines(fine, coarse):
    """every boundary of `coarse` is a boundary of `fine`"""
    return set(U.cumsum0(coarse)) <= set(U.cumsum0(fine))


def case_cbd(ctx, inp):
    from dask.array.core import common_blockdim
    bds = [tuple(b) for b in inp["blockdims"]]
    arg = set(bds) if inp.get("as_set", True) else bds
    try:
        r = common_blockdim(arg)
        impl = [Sym("ok"), [int(v) for v in r]]
    except ValueError:
        impl = [Sym("raised")]
    uniq = list(dict.fromkeys(bds))
    if inp.get("as_set", True):
        # max(blockdims, key=first) over a set only depends on the order for ties of single-chunk tuples, which are equal
        uniq = list(arg)
    m = ctx.lean(Sym("cbd"), [list(b) for b in uniq])
    ctx.eq("common_blockdim", m, impl)
    nt = {b for b in bds if len(b) > 1}
    if impl[0] == "ok" and len(nt) >= 1 and all(all(c > 0 for c in b) for b in nt):
        r = impl[1]
        if sum(r) != sum(next(iter(nt))):
            ctx.fail("common_blockdim does not keep the total length", observed=r)
        for b in nt:
            if not _refines(r, b):
                ctx.fail("common_blockdim result does not refine an input chunking", observed=r, expected=list(b))
        allb = set()
        for b in nt:
            allb |= set(U.cumsum0(b))
        if set(U.cumsum0(r)) != allb:
            ctx.fail("common_blockdim result is not the coarsest common refinement", observed=r)
    if len(nt) >= 2:
        ctx.branch("walk" if impl[0] == "ok" else "sums-differ")
    elif len(nt) == 1:
        ctx.branch("single-nontrivial")
    else:
        ctx.branch("all-trivial")


# ------------------------------------------------------------------------------------------------
# unify_chunks
# ------------------------------------------------------------------------------------------------

def case_unify(ctx, inp):
    import warnings
    import numpy as np
    import dask.array as da
    from dask.array.core import unify_chunks
    args = []
    for a in inp["args"]:
        shape = tuple(sum(c) for c in a["chunks"])
        args += [da.zeros(shape, chunks=tuple(tuple(c) for c in a["chunks"]), dtype="i1"), tuple(a["ind"])]
    for lit in range(inp.get("lits", 0)):
        args += [7, None]
    try:
        with warnings.catch_warnings():
            warnings.simplefilter("ignore")
            chunkss, arrays = unify_chunks(*args)
        impl = [Sym("ok"), sorted([int(k), [int(c) for c in v]] for k, v in chunkss.items()),
                [[[int(c) for c in ax] for ax in arr.chunks] for arr in arrays if hasattr(arr, "chunks")]]
    except ValueError as e:
        impl = [Sym("raised")]
    m = ctx.lean(Sym("unify"), [[a["ind"], a["chunks"]] for a in inp["args"]])
    if _ok(m):
        m = [Sym("ok"), sorted(m[1][0]), m[1][1]]
    ctx.eq("unify_chunks", m, impl)
    if impl[0] == "ok":
        # property clauses: every argument keeps its shape; along a shared symbol all arguments longer than 1 get the
        # common chunks, which refine their previous chunks
        cs = {k: v for k, v in impl[1]}
        for a, new in zip(inp["args"], impl[2]):
            for s, old, nw in zip(a["ind"], a["chunks"], new):
                if sum(nw) != sum(old):
                    ctx.fail("unify_chunks changed the length of an axis", observed=[old, nw])
                if sum(old) > 1 and nw != cs[s]:
                    ctx.fail("unify_chunks: argument not rechunked to the common chunks", observed=[nw, cs[s]])
                if sum(old) > 1 and all(c > 0 for c in old) and not _refines(nw, old):
                    ctx.fail("unify_chunks: common chunks do not refine the previous chunks", observed=[old, nw])
        if any(new != a["chunks"] for a, new in zip(inp["args"], impl[2])):
            ctx.branch("rechunked")
        if any(sum(c) == 1 and len(cs.get(s, [])) > 1 for a in inp["args"] for s, c in zip(a["ind"], a["chunks"])):
            ctx.branch("size-1-against-many-blocks")
    else:
        ctx.branch("unify-raises")
    if any(0 in c for a in inp["args"] for c in a["chunks"]):
        ctx.branch("zero-chunk")


def gen_unify(rng, bad=False):
    nsym = rng.randint(1, 3)
    size = {s: rng.choice([0, 1, 2, 3, 4, 5, 6]) if rng.random() < 0.9 else 1 for s in range(nsym)}
    args = []
    for _ in range(rng.randint(1, 3)):
        k = rng.randint(0, nsym)
        ind = rng.sample(range(nsym), k)
        chunks = []
        for s in ind:
            n = size[s] if rng.random() < 0.8 else 1
            if bad and rng.random() < 0.3:
                n = n + 1
            chunks.append(U.rand_chunks(rng, [n], zeros=0.15)[0])
        args.append({"ind": ind, "chunks": chunks})
    return {"args": args, "lits": rng.choice([0, 0, 1])}


# ------------------------------------------------------------------------------------------------
# which element does each output position read?  (1 axis; position-encoding values)
# ------------------------------------------------------------------------------------------------

def case_argpos(ctx, inp):
    import numpy as np
    import dask.array as da
    n = sum(inp["cx"])
    x = np.arange(n, dtype="i8") * 1000
    ny = sum(inp["cy"])
    y = np.arange(ny, dtype="i8")
    dx = da.from_array(x, chunks=(tuple(inp["cx"]),))
    dy = da.from_array(y, chunks=(tuple(inp["cy"]),))
    try:
        r = dx + dy
    except ValueError:
        if ny in (1, n) or n == 1:
            ctx.fail("elementwise add raised for broadcast-compatible lengths", observed=[n, ny])
        ctx.branch("incompatible")
        return
    got = np.asarray(r.compute(scheduler="sync"))
    ref = x + y
    if got.shape != ref.shape or not np.array_equal(got, ref):
        ctx.fail("elementwise add differs from NumPy", observed=got.tolist(), expected=ref.tolist())
        return
    # positions read, decoded from the values, against the model's plan on the chunks the graph really uses
    from dask.array.core import unify_chunks
    import warnings
    with warnings.catch_warnings():
        warnings.simplefilter("ignore")
        cs, arrs = unify_chunks(dx, (0,), dy, (0,))
    cout = [int(c) for c in r.chunks[0]]
    for arr, nm, scale in ((arrs[0], "x", 1000), (arrs[1], "y", 1)):
        carg = [int(c) for c in arr.chunks[0]]
        for i in range(len(got)):
            pos = int(got[i]) // 1000 if nm == "x" else int(got[i]) % 1000
            mpos = ctx.lean(Sym("argpos"), cout, carg, i)
            ctx.eq(f"element of {nm} read for output position", mpos, pos)
    if ny == 1 and n > 1:
        ctx.branch("broadcast-y")
    if n == 1 and ny > 1:
        ctx.branch("broadcast-x")
    if inp["cx"] != inp["cy"] and ny == n:
        ctx.branch("different-chunkings")
    if n == 0:
        ctx.branch("empty")


# ------------------------------------------------------------------------------------------------
# API level: random elementwise programs vs NumPy (values and dtype)
# ------------------------------------------------------------------------------------------------

# elementwise family only (broadcast_to / expand_dims are structural operations of C24: with interior zero-length chunks
# they fail on their own — reported to their owner — and would only blur this check)
ELEM_W = {"un": 5, "bin": 9, "where": 3, "astype": 2, "clip": 2, "T": 1, "mb_new": 1}
DTYPES = ("bool", "i8", "i4", "i2", "u1", "f8", "f4", "c16", "M8[D]")


def _same(a, b):
    import numpy as np
    a, b = np.asarray(a), np.asarray(b)
    if a.shape != b.shape or a.dtype != b.dtype:
        return False
    if a.dtype.kind in "fc":
        return bool(np.allclose(a, b, rtol=1e-12, atol=0, equal_nan=True))
    return bool(np.array_equal(a, b))


def case_elem(ctx, inp):
    import numpy as np
    prog = inp["prog"]
    with np.errstate(all="ignore"):
        try:
            x = np.asarray(U.run_prog(prog, "np"))
        except Exception:
            ctx.note("numpy-invalid-program")
            return
        try:
            d = U.run_prog(prog, "da")
        except Exception as e:
            ctx.fail("dask raised while building an elementwise expression NumPy accepts: " + repr(e)[:160])
            return
        if tuple(d.shape) != x.shape:
            ctx.fail("lazy shape differs from NumPy result shape", observed=list(d.shape), expected=list(x.shape))
        if d.dtype != x.dtype:
            ctx.fail("lazy dtype differs from NumPy result dtype", observed=str(d.dtype), expected=str(x.dtype))
        try:
            r = d.compute(scheduler="sync")
        except Exception as e:
            ctx.fail("dask raised while computing an elementwise expression NumPy accepts: " + repr(e)[:160])
            return
    if not _same(r, x):
        r = np.asarray(r)
        ctx.fail("elementwise result differs from NumPy (values or dtype)",
                 observed={"dtype": str(r.dtype), "shape": list(r.shape), "values": r.tolist() if r.size < 40 and r.dtype.kind not in "Mmc" else None},
                 expected={"dtype": str(x.dtype), "shape": list(x.shape), "values": x.tolist() if x.size < 40 and x.dtype.kind not in "Mmc" else None})
    ops = U.prog_ops(prog)
    for o in set(ops):
        ctx.note("op:" + o)
    if 0 in x.shape:
        ctx.branch("zero-length-result")
    if x.ndim == 0:
        ctx.branch("0-d-result")
    if any(o.startswith("scalar") for o in ops):
        ctx.branch("python-or-numpy-scalar-operand")
    if any(o.startswith("npleaf") for o in ops):
        ctx.branch("numpy-array-operand")
    if len([o for o in ops if o.startswith("leaf")]) >= 2:
        ctx.branch("several-dask-operands")
    if any(o.startswith("where") for o in ops):
        ctx.branch("where")
    ctx.branch("dtype-kind-" + x.dtype.kind)


# ------------------------------------------------------------------------------------------------
# API level: the extracted ufunc table, with where= / out=
# ------------------------------------------------------------------------------------------------

_UFUNCS = None


def ufuncs():
    global _UFUNCS
    if _UFUNCS is None:
        import core
        import tables_hlg
        _UFUNCS = tables_hlg.ufunc_table(core.REPO)
    return _UFUNCS


def _operand(rng_vals, shape, dtype, salt):
    import numpy as np
    x = U.leaf_data(shape, dtype, salt)
    return x


def case_ufunc(ctx, inp):
    import numpy as np
    import dask.array as da
    dname, nname, kind = inp["ufunc"]
    # the reference is NumPy's function of the DASK name (np.conj / np.abs / np.invert exist as well): the wrapped name read
    # from the source (`nname`, the extracted table behind theorem ufunc_names_agree) must be that function
    npf = getattr(np, dname, None)
    if npf is None:
        npf = getattr(np, nname)
    elif getattr(np, nname, None) is not npf:
        ctx.fail(f"dask/array/ufunc.py: da.{dname} wraps np.{nname}, which is not np.{dname}")
    daf = getattr(da, dname, None)
    if daf is None:
        import dask.array.ufunc as duf
        daf = getattr(duf, dname)
    nin = getattr(npf, "nin", 1)
    shape = inp["shape"]
    xs = [U.leaf_data(shape if i == 0 else inp["shape2"], inp["dtype"], inp["salt"] + i) for i in range(nin)]
    if nname in ("left_shift", "right_shift", "ldexp"):
        xs[-1] = np.abs(xs[-1]).astype("i8") % 5
    if nname in ("power", "float_power"):
        xs[-1] = np.abs(xs[-1]) % 3
        if np.dtype(inp["dtype"]).kind in "iu":
            xs[-1] = xs[-1].astype(inp["dtype"])
    ds = [da.from_array(x, chunks=tuple(tuple(c) for c in ch)) for x, ch in zip(xs, [inp["chunks"], inp["chunks2"]])]
    kw_np, kw_da = {}, {}
    mode = inp.get("mode", "plain")
    with np.errstate(all="ignore"):
        try:
            ref0 = npf(*xs)
        except TypeError:
            ctx.note("numpy-rejects-dtype")
            return
        if isinstance(ref0, tuple):
            ctx.note("multi-output-skipped")
            return
        ref0 = np.asarray(ref0)
        if mode in ("where", "where_out") and kind == "ufunc":
            wshape = inp["wshape"]
            w = U.leaf_data(wshape, "bool", inp["salt"] + 7)
            try:
                np.broadcast_shapes(tuple(wshape), ref0.shape)
                if np.broadcast_shapes(tuple(wshape), ref0.shape) != ref0.shape:
                    raise ValueError
            except ValueError:
                ctx.note("where-shape-does-not-fit")
                return
            kw = {}
            odt = ref0.dtype
            if inp.get("with_dtype"):
                # where= and out= together with dtype= (the loop NumPy computes in)
                kw = {"dtype": inp["target_dtype"]}
                try:
                    odt = np.asarray(npf(*xs, **kw)).dtype
                except TypeError:
                    ctx.note("numpy-rejects-target-dtype")
                    return
                ctx.branch("where+out+dtype")
            base = np.full(ref0.shape, 3, dtype=odt) if odt.kind != "b" else np.zeros(ref0.shape, dtype=bool)
            out_np = base.copy()
            ref = npf(*xs, where=w, out=out_np, **kw)
            dout = da.from_array(base.copy(), chunks=tuple(tuple(c) for c in inp["ochunks"]))
            dw = da.from_array(w, chunks=tuple(tuple(c) for c in inp["wchunks"])) if inp.get("dask_where", True) else w
            try:
                res = daf(*ds, where=dw, out=dout, **kw)
            except Exception as e:
                ctx.fail(f"da.{dname}(where=, out=) raised: " + repr(e)[:160])
                return
            if res is not dout:
                ctx.fail(f"da.{dname}(out=a) did not return a")
            got = dout.compute(scheduler="sync")
            ctx.branch("where+out")
        elif mode == "out" and kind == "ufunc":
            base = np.full(ref0.shape, 3, dtype=ref0.dtype) if ref0.dtype.kind != "b" else np.zeros(ref0.shape, dtype=bool)
            ref = ref0
            dout = da.from_array(base.copy(), chunks=tuple(tuple(c) for c in inp["ochunks"]))
            try:
                # NumPy also accepts the one-element tuple form out=(a,)
                res = daf(*ds, out=(dout,) if inp.get("out_tuple") else dout)
            except Exception as e:
                ctx.fail(f"da.{dname}(out=) raised: " + repr(e)[:160])
                return
            got = dout.compute(scheduler="sync")
            ctx.branch("out" + ("-tuple" if inp.get("out_tuple") else ""))
        elif mode == "dtype" and kind == "ufunc":
            # an explicit dtype= : the result is computed/cast to it (same_kind casting)
            tgt = inp["target_dtype"]
            try:
                ref = np.asarray(npf(*xs, dtype=tgt))
            except TypeError:
                ctx.note("numpy-rejects-target-dtype")
                return
            try:
                res = daf(*ds, dtype=tgt)
                got = res.compute(scheduler="sync")
            except Exception as e:
                ctx.fail(f"da.{dname}(dtype=) raised on operands np.{nname} accepts: " + repr(e)[:160], observed=[inp["dtype"], tgt])
                return
            if res.dtype != ref.dtype:
                ctx.fail(f"da.{dname}(dtype=): lazy dtype differs from NumPy", observed=str(res.dtype), expected=str(ref.dtype))
            if np.asarray(got).dtype != res.dtype:
                ctx.fail(f"da.{dname}(dtype=): computed dtype differs from the lazy dtype", observed=str(np.asarray(got).dtype), expected=str(res.dtype))
            # NumPy computes IN the target type (dtype= selects the loop: the inputs are cast first); so must dask
            # (a57c947: it used to compute in the natural type and cast the result) — compared exactly below
            ctx.branch("explicit-dtype")
            ctx.branch("explicit-dtype-%s-to-%s" % (np.dtype(inp["dtype"]).kind, np.dtype(tgt).kind))
        else:
            ref = ref0
            try:
                res = daf(*ds)
                got = res.compute(scheduler="sync")
            except Exception as e:
                ctx.fail(f"da.{dname} raised on operands np.{nname} accepts: " + repr(e)[:160], observed=inp["dtype"])
                return
            if res.dtype != ref.dtype:
                ctx.fail(f"da.{dname}: lazy dtype differs from NumPy", observed=str(res.dtype), expected=str(ref.dtype))
            ctx.branch("plain-" + ("binary" if nin == 2 else "unary"))
    if not _same(got, ref):
        got = np.asarray(got)
        ctx.fail(f"da.{dname} differs from np.{nname} ({mode})",
                 observed={"dtype": str(got.dtype), "shape": list(got.shape)}, expected={"dtype": str(ref.dtype), "shape": list(ref.shape)},
                 sig="ufunc:dtype-kwarg-casts-result-only" if mode == "dtype" else None)
    ctx.note("ufunc:" + dname)


def gen_ufunc(rng, uf):
    dname, nname, kind = uf
    nd = rng.randint(0, 2)
    shape = [rng.randint(0 if rng.random() < 0.1 else 1, 4) for _ in range(nd)]
    # second operand: same shape or broadcastable
    t = rng.random()
    shape2 = list(shape) if t < 0.5 else [s if rng.random() < 0.5 else 1 for s in shape][rng.randint(0, nd):]
    dtype = rng.choice(["f8", "f8", "i8", "i4", "bool", "c16", "f4", "u1"])
    if nname in ("bitwise_and", "bitwise_or", "bitwise_xor", "bitwise_not", "invert", "left_shift", "right_shift"):
        dtype = rng.choice(["i8", "i4", "u1", "bool"]) if "shift" not in nname else rng.choice(["i8", "i4"])
    try:
        import numpy as np
        outshape = list(np.broadcast_shapes(tuple(shape), tuple(shape2)))
    except ValueError:
        shape2 = list(shape)
        outshape = list(shape)
    mode = rng.choice(["plain", "plain", "where_out", "out", "dtype", "dtype"]) if kind == "ufunc" else "plain"
    # dtype= selects the loop NumPy computes in: targets in which the operation gives OTHER values than in the natural
    # type (integers -> float for divisions/reciprocal, unsigned -> signed for invert/negative, narrow -> wide for overflow)
    target = rng.choice({"f8": ["f4", "c16"], "f4": ["f8"], "i8": ["f8", "f8", "c16"], "i4": ["i8", "f8", "f8"],
                         "u1": ["i4", "i8", "f8", "u1"], "bool": ["i8", "u1", "f8"], "c16": ["c16"]}.get(dtype, ["f8"]))
    wshape = [s if rng.random() < 0.6 else 1 for s in outshape][rng.randint(0, len(outshape)):]
    return {"ufunc": list(uf), "shape": shape, "shape2": shape2, "dtype": dtype, "salt": rng.randint(0, 50),
            "chunks": U.rand_chunks(rng, shape), "chunks2": U.rand_chunks(rng, shape2), "mode": mode,
            "wshape": wshape, "wchunks": U.rand_chunks(rng, wshape), "ochunks": U.rand_chunks(rng, outshape),
            "dask_where": rng.random() < 0.7, "out_tuple": rng.random() < 0.4, "target_dtype": target,
            "with_dtype": rng.random() < 0.3}


# ------------------------------------------------------------------------------------------------
# all chunkings of small shapes (thorough tier; a sample in quick)
# ------------------------------------------------------------------------------------------------

def case_allchunks(ctx, inp):
    import numpy as np
    import dask.array as da
    shape_a, shape_b = inp["a"], inp["b"]
    a = U.leaf_data(shape_a, "i8", 1)
    b = U.leaf_data(shape_b, "f8", 2)
    ref = np.where(a > 0, a * b, b - a)
    da_ = da.from_array(a, chunks=tuple(tuple(c) for c in inp["ca"]))
    db_ = da.from_array(b, chunks=tuple(tuple(c) for c in inp["cb"]))
    r = da.where(da_ > 0, da_ * db_, db_ - da_)
    got = r.compute(scheduler="sync")
    if not _same(got, ref):
        ctx.fail("where(a > 0, a * b, b - a) differs from NumPy for a chunking", observed=np.asarray(got).tolist(), expected=ref.tolist())
    for i, c in enumerate(r.chunks):
        if sum(c) != ref.shape[i]:
            ctx.fail("result chunks do not sum to the result shape", observed=[list(x) for x in r.chunks])
    if len(inp["ca"]) and any(len(c) > 1 for c in inp["ca"]) and any(len(c) > 1 for c in inp["cb"]):
        ctx.branch("both-multi-block")
    ctx.branch("allchunks")


def gen_allchunks(thorough):
    shapes = [([4], [4]), ([3], [1]), ([2, 3], [3]), ([2, 3], [2, 1]), ([1, 3], [2, 1]), ([0, 2], [2]),
              ([0, 4], [0, 4]), ([0, 4], [1, 4]), ([3, 0], [3, 1])]
    if thorough:
        shapes += [([6], [6]), ([4, 3], [4, 3]), ([3, 2, 2], [2, 2]), ([3, 2, 2], [3, 1, 2]), ([5], [5])]
    for sa, sb in shapes:
        for ca in itertools.product(*[U.comps(n) for n in sa]):
            for cb in itertools.product(*[U.comps(n) for n in sb]):
                yield {"a": sa, "b": sb, "ca": [list(c) for c in ca], "cb": [list(c) for c in cb]}


# ------------------------------------------------------------------------------------------------

# ------------------------------------------------------------------------------------------------
# API level: results that differ only in `out=` (with a `where=` mask) must not share a name
# ------------------------------------------------------------------------------------------------

def case_outname(ctx, inp):
    import numpy as np
    import dask
    import dask.array as da
    shape = inp["shape"]
    a = U.leaf_data(shape, "f8", 1)
    b = U.leaf_data(shape, "f8", 2)
    w = U.leaf_data(inp["wshape"], "bool", inp.get("salt", 3))
    if w.all():
        w = ~w if w.size == 1 or inp.get("salt", 3) % 2 else w & (np.arange(w.size).reshape(w.shape) % 2 == 0)
    o1 = np.full(shape, 10.0)
    o2 = np.full(shape, 20.0)
    ch = tuple(tuple(c) for c in inp["chunks"])
    f_np, f_da = getattr(np, inp["f"]), getattr(da, inp["f"])
    args_np = (a, b) if f_np.nin == 2 else (a,)
    dargs = tuple(da.from_array(x, chunks=ch) for x in args_np)
    dw = da.from_array(w, chunks=tuple(tuple(c) for c in inp["wchunks"]))
    do1, do2 = da.from_array(o1.copy(), chunks=ch), da.from_array(o2.copy(), chunks=ch)
    e1 = f_np(*args_np, where=w, out=o1.copy())
    e2 = f_np(*args_np, where=w, out=o2.copy())
    r1 = f_da(*dargs, where=dw, out=do1)
    r2 = f_da(*dargs, where=dw, out=do2)
    g1, g2 = dask.compute(r1, r2, scheduler="sync")
    def same(x, y):
        return bool(np.array_equal(x, y, equal_nan=True))
    if not (same(g1, e1) and same(g2, e2)):
        ctx.fail("two ufunc results that differ only in out= are mixed up when computed together",
                 observed=[np.asarray(g1).tolist(), np.asarray(g2).tolist()], expected=[e1.tolist(), e2.tolist()])
    if not same(e1, e2) and r1.name == r2.name:
        ctx.fail("results with different values share a name", observed=r1.name)
    s1, s2 = r1.compute(scheduler="sync"), r2.compute(scheduler="sync")
    if not (same(s1, e1) and same(s2, e2)):
        ctx.fail("ufunc(where=, out=) differs from NumPy when computed alone")
    if len(shape) >= 1:   # 0-d: a computed 0-d block is a NumPy scalar, which np.<ufunc>(out=) refuses (not compared here)
        # `out` is itself a COMPUTED array that other results of the same compute still read (seed C19-2: the masked
        # kernel must never write into the stored block of the upstream task)
        src = da.from_array(o1.copy(), chunks=ch) * 2.0
        keep, keep2 = src.copy(), src + 1.0
        r3 = f_da(*dargs, where=dw, out=src)
        e3 = f_np(*args_np, where=w, out=np.array(o1 * 2.0))
        g3, k1, k2 = dask.compute(r3, keep, keep2, scheduler="sync")
        if not same(g3, e3):
            ctx.fail("ufunc(where=, out=computed array) differs from NumPy", observed=np.asarray(g3).tolist(), expected=e3.tolist())
        if not (same(k1, o1 * 2.0) and same(k2, o1 * 2.0 + 1.0)):
            ctx.fail("ufunc(where=, out=computed array) changed another result that reads the old value of out in the same compute",
                     observed=[np.asarray(k1).tolist(), np.asarray(k2).tolist()], expected=[(o1 * 2.0).tolist(), (o1 * 2.0 + 1.0).tolist()])
        ctx.branch("out-is-computed-and-read-by-another-result")
    if not same(e1, e2):
        ctx.branch("out-shows-through-mask")
    # an `out` of another shape is rejected (NumPy: "non-broadcastable output operand"), never silently rebound
    wrong = list(shape) + [2]
    try:
        f_np(*args_np, out=np.zeros(wrong))
        np_rejects = False
    except ValueError:
        np_rejects = True
    dbad = da.zeros(wrong, chunks=1)
    try:
        f_da(*dargs, out=dbad)
        ctx.fail("ufunc(out=array of another shape) was accepted" if np_rejects else "out= of a broadcast-larger shape accepted")
    except ValueError:
        ctx.branch("out-shape-mismatch-rejected")
    if dbad.shape != tuple(wrong):
        ctx.fail("a rejected out= array was modified", observed=list(dbad.shape))
    ctx.branch("outname")


# ------------------------------------------------------------------------------------------------
# structured stream: a zero-length dimension next to a longer dimension whose chunkings differ between the operands
# ------------------------------------------------------------------------------------------------

def gen_zerodim(rng):
    nd = rng.randint(1, 3)
    zpos = rng.randrange(nd)
    shape = [0 if i == zpos else rng.randint(2, 6) for i in range(nd)]
    if rng.random() < 0.25 and nd >= 2:
        shape[rng.choice([i for i in range(nd) if i != zpos])] = 1

    def chunks_for(sh):
        out = []
        for s in sh:
            if s == 0:
                out.append([0] * rng.choice([1, 1, 2, 3]))
            else:
                out.append(U.rand_chunks(rng, [s], zeros=0.15)[0])
        return out
    salt = [rng.randint(0, 20)]

    def leaf(sh, dt="i8"):
        salt[0] += 1
        return {"op": "leaf", "shape": list(sh), "chunks": chunks_for(sh), "dtype": dt, "salt": salt[0]}
    a = leaf(shape, rng.choice(["i8", "f8"]))
    t = rng.random()
    if t < 0.45:
        shb = list(shape)                                  # same shape, other chunking
    elif t < 0.8:
        shb = [s if (rng.random() < 0.5 or s == 0) else 1 for s in shape]   # (1, n) style broadcasting
        if rng.random() < 0.4:
            shb[zpos] = 1                                  # the zero-length dimension against length 1
    else:
        k = rng.randint(0, nd)
        shb = list(shape[nd - k:])                         # fewer dimensions
    b = leaf(shb, rng.choice(["i8", "f8", "bool"]))
    p = {"op": "bin", "f": rng.choice(["add", "mul", "maximum", "less", "sub"]), "a": a, "b": b}
    if rng.random() < 0.3:
        c = leaf(shape)
        p = {"op": "where", "c": {"op": "bin", "f": "less", "a": p, "b": {"op": "scalar", "v": 1}}, "a": p, "b": c} \
            if rng.random() < 0.5 else {"op": "bin", "f": "add", "a": p, "b": c}
    if rng.random() < 0.5:
        p["a"], p["b"] = (p["b"], p["a"]) if p["op"] == "bin" and p["f"] in ("add", "mul", "maximum") else (p["a"], p["b"])
    return p


def _leaves(p, acc):
    if isinstance(p, dict):
        if p.get("op") == "leaf":
            acc.append(p)
        for v in p.values():
            if isinstance(v, dict):
                _leaves(v, acc)
    return acc


# ------------------------------------------------------------------------------------------------
# the unify_chunks glue as elemwise uses it (Props/C19xUnifyGlue: newChunks_shape / newChunks_axis / unifyChunks_shapes)
# ------------------------------------------------------------------------------------------------

def _glue_clauses(ctx, who, inds, olds, cs, news):
    """the conclusions of `unifyChunks_shapes` and `newChunks_axis`, read off an (ok) answer of unify_chunks"""
    for ind, old, new in zip(inds, olds, news):
        if len(ind) != len(old) or len(new) != len(old):
            ctx.fail(who + ": premise `len(ind) == ndim` broken", observed=[ind, old, new])
            continue
        for s, o, nw in zip(ind, old, new):
            n = sum(o)
            if sum(nw) != n:
                ctx.fail(who + ": newChunks_shape: an axis changed its length", observed=[o, nw])
            if n > 1:
                ctx.branch("glue-axis-common")
                if nw != cs[s]:
                    ctx.fail(who + ": newChunks_axis: axis longer than 1 not rechunked to chunkss[j]", observed=[o, nw, cs[s]])
            elif sum(cs[s]) != n:
                ctx.branch("glue-axis-broadcast")
                if nw != [n]:
                    ctx.fail(who + ": newChunks_axis: broadcast axis is not the single chunk (size,)", observed=[o, nw, cs[s]])
            else:
                ctx.branch("glue-axis-short-same-length")


def case_unifyglue(ctx, inp):
    import warnings
    import numpy as np
    import dask.array as da
    from dask.array.core import unify_chunks
    olds = [[list(c) for c in a] for a in inp["chunks"]]
    arrs = [da.zeros(tuple(sum(c) for c in a), chunks=tuple(tuple(c) for c in a), dtype="i1") for a in olds]
    # the index strings elemwise builds: `tuple(range(a.ndim))[::-1]`
    inds = [list(range(len(a)))[::-1] for a in olds]
    flat = []
    for x, ind in zip(arrs, inds):
        flat += [x, tuple(ind)]
    with warnings.catch_warnings():
        warnings.simplefilter("ignore")
        try:
            chunkss, outs = unify_chunks(*flat)
            impl = [Sym("ok"), sorted([int(k), [int(c) for c in v]] for k, v in chunkss.items()),
                    [[[int(c) for c in ax] for ax in o.chunks] for o in outs]]
        except ValueError:
            impl = [Sym("raised")]
        m = ctx.lean(Sym("unify"), [[i, o] for i, o in zip(inds, olds)])
        if _ok(m):
            m = [Sym("ok"), sorted(m[1][0]), m[1][1]]
        ctx.eq("unify_chunks (elemwise index strings)", m, impl)
        if impl[0] != "ok":
            ctx.branch("glue-raises")
            return
        _glue_clauses(ctx, "dask", inds, olds, {k: v for k, v in impl[1]}, impl[2])
        if _ok(m):
            _glue_clauses(ctx, "model", inds, olds, {k: v for k, v in m[1]}, m[2])
        # what elemwise makes of it: the lazy result has NumPy's broadcast shape and, along every axis, the unified chunks
        if len(arrs) >= 2:
            r = arrs[0]
            for x in arrs[1:]:
                r = da.add(r, x)
            want = tuple(np.broadcast_shapes(*[x.shape for x in arrs]))
            if tuple(r.shape) != want:
                ctx.fail("elemwise: lazy shape is not NumPy's broadcast shape", observed=[list(r.shape), list(want)])
            if len(arrs) == 2:
                cs = {k: v for k, v in impl[1]}
                got = [[int(c) for c in ax] for ax in r.chunks]
                exp = [cs[s] for s in range(r.ndim)][::-1]
                if got != exp:
                    ctx.fail("elemwise: chunks of the lazy result are not the unified chunks", observed=[got, exp])
                ctx.branch("glue-elemwise-chunks")
    if any(nw != o for new, old in zip(impl[2], olds) for nw, o in zip(new, old)):
        ctx.branch("glue-rechunked")


def gen_unifyglue(rng):
    nd = rng.randint(1, 3)
    base = [rng.choice([0, 1, 2, 3, 4, 5, 6]) for _ in range(nd)]
    ops = []
    for _ in range(rng.randint(2, 3)):
        sh = [d if rng.random() < 0.7 else 1 for d in base][rng.randint(0, nd - 1):]
        ops.append(U.rand_chunks(rng, sh, zeros=0.15))
    return {"chunks": ops}


CASES = {"bshapes": case_bshapes, "cbd": case_cbd, "unify": case_unify, "argpos": case_argpos, "elem": case_elem,
         "ufunc": case_ufunc, "allchunks": case_allchunks, "outname": case_outname,
         "unifyglue": case_unifyglue}


def _rand_shape(rng, nd=None):
    nd = rng.randint(0, 3) if nd is None else nd
    return [rng.choice([0, 1, 1, 2, 3, 4]) for _ in range(nd)]


def generate(ctx):
    rng = ctx.rng
    yield "bshapes", {"shapes": []}
    yield "bshapes", {"shapes": [[]]}
    yield "bshapes", {"shapes": [[], []]}
    yield "bshapes", {"shapes": [[0], [1]]}
    yield "bshapes", {"shapes": [[0], [3]]}
    yield "cbd", {"blockdims": [[3], [2, 1]]}
    yield "cbd", {"blockdims": [[1, 2], [2, 1]]}
    yield "cbd", {"blockdims": [[2, 2], [3, 1]]}
    yield "cbd", {"blockdims": [[2, 2], [3, 2]]}
    # exhaustive small space: all pairs of shapes over {0,1,2,3} with ndim <= 2 (quick), <= 3 (thorough)
    vals = [0, 1, 2, 3]
    maxnd = 3 if ctx.thorough() else 2
    small = [list(s) for nd in range(maxnd + 1) for s in itertools.product(vals, repeat=nd)]
    for s1 in small:
        for s2 in small:
            if ctx.thorough() or rng.random() < 0.6:
                yield "bshapes", {"shapes": [s1, s2]}
    for _ in range(ctx.n(300, 3000)):
        base = _rand_shape(rng)
        shapes = []
        for _ in range(rng.randint(1, 4)):
            t = rng.random()
            s = [d if rng.random() < 0.75 else 1 for d in base][rng.randint(0, len(base)):] if t < 0.8 else _rand_shape(rng)
            shapes.append(s)
        yield "bshapes", {"shapes": shapes}
    # common_blockdim: all pairs of compositions of n <= 5 (quick) / all triples n <= 5 and pairs n <= 7 (thorough)
    for n in range(1, 6):
        cs = U.comps(n)
        for c1 in cs:
            for c2 in cs:
                yield "cbd", {"blockdims": [list(c1), list(c2)]}
    if ctx.thorough():
        for n in (6, 7):
            cs = U.comps(n)
            for c1 in cs:
                for c2 in cs:
                    yield "cbd", {"blockdims": [list(c1), list(c2)]}
        for n in range(1, 6):
            cs = U.comps(n)
            for c1, c2, c3 in itertools.product(cs, repeat=3):
                yield "cbd", {"blockdims": [list(c1), list(c2), list(c3)]}
    for _ in range(ctx.n(300, 3000)):
        n = rng.randint(0, 12)
        k = rng.randint(1, 4)
        bds = [U.rand_comp(rng, n if rng.random() < 0.93 else n + 1) for _ in range(k)]
        if rng.random() < 0.3:
            bds.append([1])
        if rng.random() < 0.1:
            bds.append([n])
        yield "cbd", {"blockdims": bds, "as_set": rng.random() < 0.7}
    for _ in range(ctx.n(300, 3000)):
        yield "unify", gen_unify(rng, bad=rng.random() < 0.1)
    for _ in range(ctx.n(120, 1200)):
        yield "unifyglue", gen_unifyglue(rng)
    for _ in range(ctx.n(150, 1500)):
        n = rng.randint(0, 7)
        t = rng.random()
        ny = n if t < 0.5 else (1 if t < 0.85 else rng.randint(0, 7))
        yield "argpos", {"cx": U.rand_chunks(rng, [n], zeros=0.2)[0], "cy": U.rand_chunks(rng, [ny], zeros=0.2)[0]}
    # zero-length dimension next to a longer, differently chunked dimension; several empty chunks (0,0) vs (0,0,0)
    yield "cbd", {"blockdims": [[0, 0], [0, 0, 0]]}
    yield "cbd", {"blockdims": [[0, 0], [0]]}
    yield "unify", {"args": [{"ind": [0], "chunks": [[0, 0]]}, {"ind": [0], "chunks": [[0, 0, 0]]}], "lits": 0}
    yield "unify", {"args": [{"ind": [1, 0], "chunks": [[0], [2, 2]]}, {"ind": [1, 0], "chunks": [[0], [1, 3]]}], "lits": 0}
    yield "unify", {"args": [{"ind": [1, 0], "chunks": [[0], [2, 2]]}, {"ind": [1, 0], "chunks": [[1], [1, 3]]}], "lits": 0}
    for _ in range(ctx.n(90, 900)):
        p = gen_zerodim(rng)
        yield "elem", {"prog": p, "stream": "zerodim"}
        ls = _leaves(p, [])
        yield "unify", {"args": [{"ind": list(range(len(l["shape"])))[::-1], "chunks": l["chunks"]} for l in ls], "lits": 0}
    for _ in range(ctx.n(25, 250)):
        nd = rng.randint(0, 2)
        shape = [rng.randint(1, 4) for _ in range(nd)]
        wshape = [s if rng.random() < 0.6 else 1 for s in shape][rng.randint(0, nd):]
        yield "outname", {"shape": shape, "chunks": U.rand_chunks(rng, shape), "wshape": wshape,
                          "wchunks": U.rand_chunks(rng, wshape), "salt": rng.randint(0, 9),
                          "f": rng.choice(["add", "multiply", "negative", "sqrt", "maximum"])}
    G = U.ProgGen(rng, ELEM_W, leaf_dtypes=DTYPES, maxdim=4, maxnd=3, allow_zero=True, zero_chunks=0.12)
    for _ in range(ctx.n(140, 1800)):
        p, _x = G.gen(rng.randint(1, 4))
        yield "elem", {"prog": p}
    table = ufuncs()
    order = list(table)
    rng.shuffle(order)
    reps = 1 if not ctx.thorough() else 6
    for uf in order:
        for _ in range(reps):
            yield "ufunc", gen_ufunc(rng, uf)
    allc = list(gen_allchunks(ctx.thorough()))
    if not ctx.thorough():
        allc = rng.sample(allc, min(len(allc), 80))
    for c in allc:
        yield "allchunks", c
