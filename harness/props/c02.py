"""C02 — each needed task runs exactly once and only after its dependencies finished.

Model/theorems: lean/DaskModel/Model/Sched.lean, lean/DaskModel/Props/C02.lean.
Tie: the C01 controlled-executor trace diff (state at every callback, composition of every submitted batch)
plus, on the REAL run: execution log of the task functions (count per key, the dependency values each
call received), order of pretask / execution / posttask events, snapshot of the state each pretask saw;
real thread pools with random delays (wall-clock start >= stop of every dependency).
"""
from __future__ import annotations

import random

from props import _sched_util as U

PROP = "C02"
READY = True
DRIVER = "dm_sched"
LEAN_MODULES = ["DaskModel.Props.C02"]
CASE_TIMEOUT_S = 30
LEVEL_TEXT = (
    "Lean 4 theorems over the get_async model, for every acyclic graph, worker count, batch size and completion "
    "order: no task is fired twice (run_at_most_once; ready/running/finished/waiting pairwise disjoint, "
    "phases_disjoint), only tasks reachable from the request are fired (never_run_unneeded), on success the fired "
    "keys are exactly the needed tasks, each with one pretask and one posttask (run_exactly_once_on_success), when "
    "a task is fired every dependency is a data node or finished and its denoted value is in the cache "
    "(deps_finished_before_start), the task function is applied to exactly its dependencies' values "
    "(data_passed_is_deps), and the batching arithmetic of fire_tasks neither loses nor duplicates a popped task "
    "(fire_submits_all). The *_full versions hold for the state start_state_from_dask really builds "
    "(Sched.startState_ok); executed_iff_reachable_task: on success the fired keys are exactly the tasks reachable "
    "from the requested keys along dependencies, each fired and completed once; never_run_unreachable.")
LEVEL_NOTE = (
    "Wall-clock ordering inside real thread/process pools is not modelled (adversarial completion order is); it "
    "is checked on the real code only (`threaded` section: start(k) >= stop(dep) with perf_counter). Trusted: Lean "
    "kernel + standard axioms; the harness; dask.order; concurrent.futures.")
TECHNIQUE = "Lean 4 invariant proof over an adversarial state machine + differential state-trace correspondence and execution-log oracles"
ASSUMPTIONS = ["tasks are pure functions of their dependency values"]
TRUSTED = ["concurrent.futures / threading deliver completions in SOME order"]


def oracle_runs(ctx, out, inp, what="controlled"):
    """the clauses of C02 evaluated on the real run"""
    real, dag, fails = out["real"], out["dag"], out["fails"]
    nodes = dag["nodes"]
    if any(nd[0] == "x" for nd in nodes):
        return
    flat = out["flat_ids"]
    needed = U.needed_ids(dag, flat)
    need_tasks = {i for i in needed if nodes[i][0] == "t"}
    need_fired = {i for i in needed if nodes[i][0] in ("t", "a")}
    ev = U.reference_eval(dag, fails)
    execs = real["exec_log"]
    count = {}
    for kid, vals, *_ in execs:
        count[kid] = count.get(kid, 0) + 1
    twice = sorted(k for k, c in count.items() if c > 1)
    if twice:
        ctx.fail(f"{what}: task executed more than once", observed=twice)
    extra = sorted(set(count) - need_tasks)
    if extra:
        ctx.fail(f"{what}: a task that is not needed for the requested keys was executed", observed=extra,
                 expected=sorted(need_tasks))
    ok = real["error"] is None
    if ok and set(count) != need_tasks:
        ctx.fail(f"{what}: on success the executed tasks are not exactly the needed tasks", observed=sorted(count),
                 expected=sorted(need_tasks))
    for kid, vals, *_ in execs:
        want = tuple(ev(d) for d in nodes[kid][1])
        if any(isinstance(w, tuple) for w in want):
            ctx.fail(f"{what}: task executed although a dependency failed or is missing", observed=[kid, list(vals)])
        elif tuple(vals) != want:
            ctx.fail(f"{what}: task did not receive the computed values of its dependencies",
                     observed=[kid, list(vals)], expected=list(want))
    events = real.get("events") or []
    pre = [e[1] for e, _ in events if e[0] == "pretask"]
    post = [e[1] for e, _ in events if e[0] == "posttask"]
    if len(set(pre)) != len(pre):
        ctx.fail(f"{what}: a key got two pretask callbacks", observed=pre)
    if len(set(post)) != len(post):
        ctx.fail(f"{what}: a key got two posttask callbacks", observed=post)
    if not set(post) <= set(pre):
        ctx.fail(f"{what}: posttask without pretask", observed=[pre, post])
    if ok and (set(pre) != need_fired or set(post) != need_fired):
        ctx.fail(f"{what}: on success pretask/posttask keys are not exactly the needed non-data keys",
                 observed=[sorted(pre), sorted(post)], expected=sorted(need_fired))
    pos = {}
    for idx, (e, st) in enumerate(events):
        if e[0] in ("pretask", "posttask"):
            pos[(e[0], e[1])] = idx
        if e[0] == "pretask" and st is not None:
            k = e[1]
            cache_ids = {c[0] for c in st[4]}
            finished = set(st[7])
            for d in U.node_deps(dag, k):
                if d not in cache_ids:
                    ctx.fail(f"{what}: task fired while a dependency is not in the cache", observed=[k, d])
                if nodes[d][0] != "d" and d not in finished:
                    ctx.fail(f"{what}: task fired before a dependency finished", observed=[k, d])
    for (tag, k), idx in pos.items():
        if tag == "posttask" and pos.get(("pretask", k), -1) > idx:
            ctx.fail(f"{what}: posttask before pretask", observed=k)
        if tag == "pretask":
            for d in U.node_deps(dag, k):
                if nodes[d][0] != "d" and pos.get(("posttask", d), 10 ** 9) > idx:
                    ctx.fail(f"{what}: task fired before the posttask of a dependency", observed=[k, d])
    subs = [i for b in real.get("submits", []) for i in b]
    if sorted(subs) != sorted(pre):
        ctx.fail(f"{what}: submitted batches do not contain exactly the fired tasks", observed=[sorted(subs), sorted(pre)])
    if any(len(b) == 0 for b in real.get("submits", [])):
        ctx.fail(f"{what}: an empty batch was submitted")


def case_trace(ctx, inp):
    out = U.run_trace(ctx, inp)
    oracle_runs(ctx, out, inp)
    real = out["real"]
    if any(len(b) > 1 for b in real["submits"]):
        ctx.branch("batch>1")
    if len(real["submits"]) >= 3:
        ctx.branch(">=3 batches")
    if len(real["choices"]) >= 2 and any(c > 0 for c in real["choices"]):
        ctx.branch("non-fifo-completion")
    if inp["cs"] == -1:
        ctx.branch("chunksize=-1")
    if len(set(U.needed_ids(out["dag"], out["flat_ids"]))) < len(out["dag"]["nodes"]):
        ctx.branch("unneeded-keys-present")
    if inp.get("fails"):
        ctx.branch("failing-task")
    if not out["flat_ids"]:
        ctx.branch("empty-request")
    elif all(out["dag"]["nodes"][i][0] == "d" for i in out["flat_ids"]):
        ctx.branch("data-only-request")


def case_exh(ctx, inp):
    def run_with(prefix, branching):
        sub = dict(inp, choices=prefix)
        out = U.run_trace(ctx, sub)
        branching.extend(out["real"]["branching"])
        oracle_runs(ctx, out, sub)
    n = U.enumerate_schedules(run_with, limit=inp.get("limit", 300))
    ctx.note("schedules_enumerated", n)
    if n > 1:
        ctx.branch("exh:several-orders")


def case_threaded(ctx, inp):
    """real thread pool, randomised delays: counts, values and wall-clock order"""
    import dask.local as L
    from dask.threaded import get as tget, pack_exception
    dag, req, nw, cs = inp["dag"], inp["req"], inp["nw"], inp["cs"]
    rng = random.Random(inp["seed"])
    tasks = [i for i, nd in enumerate(dag["nodes"]) if nd[0] == "t"]
    delays = {i: rng.choice([0, 0.0003, 0.001, 0.003]) for i in tasks}
    dsk, keys = U.render(dag, None, delays)
    idof = {k: i for i, k in enumerate(keys)}
    real_req = U.map_req(req, lambda i: keys[i])
    events = []

    def pre(key, d, state):
        events.append([["pretask", idof[key]], None])

    def post(key, res, d, state, wid):
        events.append([["posttask", idof[key]], None])
    err = None
    try:
        if inp["how"] == "threaded.get":
            tget(dsk, real_req, num_workers=nw, chunksize=cs, callbacks=[(None, None, pre, post, None)])
        elif inp["how"] == "get_sync":
            L.get_sync(dsk, real_req, chunksize=cs, callbacks=[(None, None, pre, post, None)])
        elif inp["how"] == "dask.get":
            import dask
            dask.get(dsk, real_req, callbacks=[(None, None, pre, post, None)])
        else:
            from props.c01 import _pool
            L.get_async(_pool(nw).submit, nw, dsk, real_req, chunksize=cs, pack_exception=pack_exception,
                        callbacks=[(None, None, pre, post, None)])
    except Exception as e:
        err = e
        ctx.fail(f"{inp['how']} raised {type(e).__name__}: {e}", observed=str(e)[:200])
    execs = U.exec_log()
    pre_ids = [e[1] for e, _ in events if e[0] == "pretask"]
    out = {"real": {"error": err, "exec_log": execs, "events": events, "submits": [[i] for i in pre_ids]},
           "dag": dag, "fails": {}, "flat_ids": list(U.flatten_req(req))}
    oracle_runs(ctx, out, inp, what=inp["how"])
    start = {k: t0 for k, _, t0, t1, _ in execs}
    stop = {k: t1 for k, _, t0, t1, _ in execs}
    for k in start:
        for d in dag["nodes"][k][1]:
            dd = d
            while dag["nodes"][dd][0] == "a":
                dd = dag["nodes"][dd][1]
            if dd in stop and stop[dd] > start[k]:
                ctx.fail(f"{inp['how']}: task started before a dependency had stopped (wall clock)", observed=[k, dd])
    ctx.branch("threads:" + inp["how"])
    if not out["flat_ids"]:
        ctx.branch("threads:empty-request")
    if len({t for *_, t in execs}) > 1:
        ctx.branch("threads:>1 worker thread used")


CASES = {"trace": case_trace, "exh": case_exh, "threaded": case_threaded}


def generate(ctx):
    rng = ctx.rng
    for _ in range(ctx.n(1500, 8000)):
        yield "trace", U.gen_trace_input(rng, max_n=rng.choice([4, 7, 10, 14, 18]), fail_p=0.1)
    for n in range(1, 6 if ctx.thorough() else 5):
        dags = list(U.all_dags(n))
        if n == 5:
            dags = rng.sample(dags, 300)
        elif n == 4 and not ctx.thorough():
            dags = rng.sample(dags, 150)
        for nodes in dags:
            dag = {"nodes": nodes, "keys": rng.choice(["str", "tuple", "int", "falsy"]), "style": rng.choice(["legacy", "spec", "mixed"])}
            reqs = [[n - 1], list(range(n)), rng.choice([[], [[], []], [[], [0]]])] + ([[0]] if n > 1 else [])
            for req in reqs:
                yield "exh", {"dag": dag, "req": req, "nw": rng.choice([1, 2, 3]), "cs": rng.choice([1, 2, -1]),
                              "fails": {}, "seed": 0, "bias": None, "limit": 300}
    for _ in range(ctx.n(80, 800)):
        inp = U.gen_trace_input(rng, max_n=rng.choice([8, 16, 30]))
        yield "threaded", {"dag": inp["dag"], "req": inp["req"], "nw": rng.choice([2, 3, 4, 8]), "cs": rng.choice([1, 2, -1]),
                           "seed": rng.randrange(1 << 30),
                           "how": rng.choice(["threaded.get", "threaded.get", "get_async+ThreadPoolExecutor", "get_sync", "dask.get"])}


    for how in ("threaded.get", "get_sync", "dask.get", "get_async+ThreadPoolExecutor", "threaded.get", "get_sync"):
        inp = U.gen_trace_input(rng, max_n=rng.choice([4, 9]))
        yield "threaded", {"dag": inp["dag"], "req": rng.choice([[], [[], []], [[]]]), "nw": rng.choice([2, 3]), "cs": rng.choice([1, -1]),
                           "seed": 1, "how": how}


def search(ctx):
    rng = ctx.rng
    for _ in range(ctx.n(2000, 8000)):
        yield "trace", U.gen_trace_input(rng, max_n=rng.choice([4, 7, 10]), fail_p=0.1)
