"""C47 — DataFrame file round trips preserve data (CSV half; the parquet half cannot run in this sandbox).

Model:    lean/DaskModel/Model/Csv.lean on top of Model/TextBlocks.lean (read_bytes blocks, header handling of
          text_blocks_to_pandas / pandas_read_text)
Theorems: lean/DaskModel/Props/C47.lean
Tie:      API level: (a) read_csv(file, blocksize) == pandas.read_csv(file) for every blocksize down to 1 byte on random
          frames (ints, floats, strings with commas / quotes, datetimes, NA; separate stream with line terminators inside
          quoted fields); partition row counts vs the Lean block model; (b) to_csv -> read_csv round trips over
          partitionings, name_function, single_file, write index, header options; (c) several files (globs).
"""
from __future__ import annotations

import os
import shutil
import tempfile

from sexp import Sym

from props import _dfpart_util as U

PROP = "C47"
READY = True
DRIVER = "dm_dfpart"
LEAN_MODULES = ["DaskModel.Props.C47"]
CASE_TIMEOUT_S = 90
ASSUMPTIONS = ["pandas' CSV parser / formatter on one block is the oracle-checked atom (quoting rules, float text round trip)",
               "no field contains the line terminator (the quoted-newline stream is checked on the real code only)"]
LEVEL_TEXT = ("PARTIAL: CSV only. to_parquet / read_parquet cannot run here (pyarrow is absent, the import stub has no reader / "
              "writer), so the parquet half of the statement is NOT decided by this check. For CSV: Lean 4 theorems over the "
              "block model (read_bytes blocks from the C50 model with exact double offsets, header prepended to every "
              "non-first block): the data rows seen by the per-block parsers, concatenated over the blocks, are the file's "
              "lines after the header, for every blocksize and every non-empty file whose header line is newline-terminated "
              "(csv_blocks_rows, fully proved on top of C50's lines_blocksize_independent_ieee; csv_whole_file for "
              "blocksize=None). "
              "VALIDATED on every run: read_csv == pandas.read_csv for blocksizes 1 byte .. whole file on random frames, "
              "per-partition row counts == the Lean model, to_csv/read_csv round trips (partitionings, name_function, "
              "single_file, index, header), multi-file globs, quoted fields containing the line terminator (known finding).")
LEVEL_NOTE = ("Trusted: Lean kernel + standard axioms; pandas parser/formatter; fsspec local files; the TextBlocks model of "
              "group bag (C50). Parquet half: not applicable in this sandbox (no pyarrow) - stated here and in LEVEL_TEXT.")
TECHNIQUE = "Lean 4 proof over a line/block model + differential correspondence against pandas.read_csv and round trips"


def _mkframe(inp):
    import numpy as np
    import pandas as pd
    n = inp["n"]
    cols = {}
    for name, kind, seedv in inp["cols"]:
        if kind == "int":
            cols[name] = [(seedv * 7 + i * 13) % 50 - 10 for i in range(n)]
        elif kind == "float":
            cols[name] = [np.nan if (seedv + i) % 5 == 0 else ((seedv + i * 3) % 17) * 0.25 - 1.5 for i in range(n)]
        elif kind == "str":
            # no numeric-looking strings: CSV cannot tell "10" from 10 (per-block dtype inference then differs, which
            # dask reports with its documented "specify dtype" error)
            pool = ["a", "bc", "x,y", 'q"uote', "", "sp ace", "a1", "1a", "héé", "#h", "a,b,c"]
            cols[name] = [pool[(seedv + i * 5) % len(pool)] or None for i in range(n)]
        elif kind == "strnl":
            pool = ["a", "line1\nline2", "x", "b\nc\nd", "y"]
            cols[name] = [pool[(seedv + i * 3) % len(pool)] for i in range(n)]
        elif kind == "date":
            cols[name] = pd.to_datetime(["2020-01-%02d" % (1 + (seedv + i) % 28) for i in range(n)])
        elif kind == "bool":
            cols[name] = [bool((seedv + i) % 3) for i in range(n)]
    return pd.DataFrame(cols)


def _dtype_kw(inp):
    """explicit dtypes for the columns whose type cannot be inferred from a block that holds only NA
    (dask's documented remedy for per-block dtype inference)"""
    d = {name: (str if kind in ("str", "strnl") else float) for name, kind, _ in inp["cols"] if kind in ("str", "strnl", "float")}
    return {"dtype": d} if d else {}


def _same(got, exp):
    return U.same_pandas(got.reset_index(drop=True), exp.reset_index(drop=True), sort=False, names=False)


class _Tmp:
    def __enter__(self):
        self.d = tempfile.mkdtemp(prefix="c47_")
        return self.d

    def __exit__(self, *a):
        shutil.rmtree(self.d, ignore_errors=True)


def case_read_csv(ctx, inp):
    """read_csv(file, blocksize) vs pandas.read_csv(file), and the partition structure vs the Lean model"""
    import dask
    import pandas as pd
    dd = U.dd()
    df = _mkframe(inp)
    has_nl = any(k == "strnl" for _, k, _ in inp["cols"])
    with _Tmp() as d:
        p = os.path.join(d, "f.csv")
        df.to_csv(p, index=False, lineterminator=inp.get("lt", "\n"))
        data = open(p, "rb").read()
        kw = {}
        dates = [name for name, k, _ in inp["cols"] if k == "date"]
        if dates:
            kw["parse_dates"] = dates
        kw.update(_dtype_kw(inp))
        if inp.get("names"):
            # rename the columns while skipping the header line of the file
            new = ["n%d" % i for i in range(len(inp["cols"]))]
            kw["names"], kw["header"] = new, 0
            ren = dict(zip([c[0] for c in inp["cols"]], new))
            if "parse_dates" in kw:
                kw["parse_dates"] = [ren[c] for c in kw["parse_dates"]]
            if "dtype" in kw:
                kw["dtype"] = {ren[c]: t for c, t in kw["dtype"].items()}
        # "\r\n" files: pandas accepts only 1-byte `lineterminator`; both readers split on "\n" and strip the "\r"
        exp = pd.read_csv(p, **kw)
        bs = inp["blocksize"]
        try:
            with dask.config.set(scheduler="sync"):
                r = dd.read_csv(p, blocksize=bs, **kw)
                parts = U.partitions(r)
                got = pd.concat(parts) if parts else exp.iloc[:0]
        except Exception as e:  # noqa: BLE001
            sig = "read_csv:line-terminator-inside-quoted-field:block-boundary-splits-the-field" if has_nl and bs else None
            ctx.fail("read_csv raised: " + U.exc_name(e), sig=sig, observed=[U.exc_name(e), bs])
            return
    why = _same(got, exp)
    if why:
        sig = "read_csv:line-terminator-inside-quoted-field:block-boundary-splits-the-field" if has_nl and bs else None
        ctx.fail(f"read_csv(blocksize={bs}) differs from pandas.read_csv: {why}", sig=sig,
                 observed=got.head(12).to_dict("list"), expected=exp.head(12).to_dict("list"))
    ctx.branch("read_csv-" + ("whole" if not bs else "bs<=8" if bs <= 8 else "bs<=64" if bs <= 64 else "bs>64")
               + ("-quoted-nl" if has_nl else ""))
    # block model: number of partitions and rows per partition (line level; only meaningful without quoted newlines)
    if not has_nl and inp.get("lt", "\n") == "\n" and len(data) < 4000 and not inp.get("names"):
        model = ctx.lean(Sym("csv-parts"), list(data), Sym("none") if not bs else bs)
        if model[0] == "ok":
            ctx.eq("rows per partition (Lean block model vs read_csv)", [len(p) for p in model[1]], [len(p) for p in parts])
            # the model's rows are the file's data lines, in order
            lines = data.split(b"\n")
            if lines and lines[-1] == b"":
                lines = lines[:-1]
            ctx.eq("Lean csv rows vs the file's lines", [bytes(r).rstrip(b"\n") for p in model[1] for r in p], lines[1:])
        else:
            ctx.disagree("Lean block model raised", model, "ok")


def case_roundtrip(ctx, inp):
    """to_csv then read_csv reproduces the frame for any partitioning / naming / single_file / index option"""
    import dask
    import pandas as pd
    dd = U.dd()
    df = _mkframe(inp)
    if inp.get("index"):
        df.index = pd.Index([i * 2 + 1 for i in range(len(df))], name="idx")
    d0 = U.frame_from_cuts(df, inp["cuts"])
    dates = [name for name, k, _ in inp["cols"] if k == "date"]
    with _Tmp() as d:
        kw = {"index": bool(inp.get("index"))}
        single = inp.get("single_file")
        if single:
            target = os.path.join(d, "out.csv")
            kw["single_file"] = True
        else:
            target = os.path.join(d, "out-*.csv")
            if inp.get("name_function"):
                kw["name_function"] = lambda i: "p%03d" % (100 - i) if inp["name_function"] == "rev" else "x%d" % i
        try:
            with dask.config.set(scheduler="sync"):
                files = d0.to_csv(target, **kw)
                rkw = {"parse_dates": dates} if dates else {}
                rkw.update(_dtype_kw(inp))
                if single:
                    back = dd.read_csv(target, blocksize=inp.get("blocksize"), **rkw)
                    exp_files = 1
                else:
                    back = dd.read_csv([f for f in files], blocksize=inp.get("blocksize"), **rkw)
                    exp_files = len(inp["cuts"]) - 1
                got = back.compute()
        except Exception as e:  # noqa: BLE001
            ctx.fail("to_csv/read_csv raised: " + U.exc_name(e), observed=[U.exc_name(e), kw])
            return
        if len(files) != exp_files:
            ctx.fail("to_csv wrote an unexpected number of files", observed=len(files), expected=exp_files)
        if not single and kw.get("name_function") is None:
            if [os.path.basename(f) for f in files] != ["out-%d.csv" % i for i in range(exp_files)] and exp_files <= 10:
                ctx.fail("to_csv default file names are not <prefix><partition number>", observed=[os.path.basename(f) for f in files])
    exp = df.reset_index() if inp.get("index") else df
    for name, kind, _ in inp["cols"]:
        if kind in ("str", "strnl"):       # an all-None column is `object` in the source frame, `str` after the read
            exp = exp.assign(**{name: exp[name].astype("str")})
            got = got.assign(**{name: got[name].astype("str")})
    why = _same(got, exp)
    if why:
        ctx.fail(f"to_csv -> read_csv round trip differs: {why}", observed=got.head(10).to_dict("list"), expected=exp.head(10).to_dict("list"))
    ctx.branch("roundtrip-" + ("single" if single else "multi") + ("-index" if inp.get("index") else "")
               + ("-empty-partition" if any(a == b for a, b in zip(inp["cuts"], inp["cuts"][1:])) else ""))


CASES = {"read_csv": case_read_csv, "roundtrip": case_roundtrip}


def _rand_cols(rng, nl=False):
    kinds = ["int", "float", "str", "date", "bool"]
    k = rng.randint(1, 4)
    cols = [[rng.choice(["a", "b", "1", "10", "x y", "c,d"]) + str(i), rng.choice(kinds), rng.randint(0, 30)] for i in range(k)]
    if rng.random() < 0.25:
        cols[0][0] = rng.choice(["1", "a", "10"])     # a header that is a prefix of plausible data rows
        cols[0][1] = rng.choice(["int", "str"])
    if nl:
        cols.append(["t", "strnl", rng.randint(0, 9)])
    return cols


def generate(ctx):
    rng = ctx.rng
    # the header-prefix witness and a tiny-blocksize sweep on a fixed file
    for bs in [None, 1, 2, 3, 4, 5, 6, 8, 11, 16, 33]:
        yield "read_csv", {"n": 6, "cols": [["1", "int", 3]], "blocksize": bs}
    for _ in range(ctx.n(220, 2200)):
        n = rng.randint(0, 25)
        yield "read_csv", {"n": n, "cols": _rand_cols(rng), "blocksize": rng.choice([None, 1, 2, 3, 5, 7, 9, 16, 31, 64, 200, 1000]),
                           "lt": rng.choice(["\n", "\n", "\n", "\r\n"])}
    for _ in range(ctx.n(50, 500)):
        n = rng.randint(1, 20)
        yield "read_csv", {"n": n, "cols": _rand_cols(rng), "blocksize": rng.choice([None, 3, 7, 16, 40, 200]), "names": True}
    for _ in range(ctx.n(40, 400)):
        n = rng.randint(1, 12)
        yield "read_csv", {"n": n, "cols": _rand_cols(rng, nl=True), "blocksize": rng.choice([None, 4, 9, 17, 40, 10000])}
    for _ in range(ctx.n(90, 900)):
        n = rng.randint(0, 20)
        yield "roundtrip", {"n": n, "cols": _rand_cols(rng), "cuts": U.rand_cuts(rng, n, maxparts=rng.choice([1, 3, 5])),
                            "single_file": rng.random() < 0.35, "index": rng.random() < 0.4,
                            "name_function": rng.choice([None, None, "rev", "x"]),
                            "blocksize": rng.choice([None, None, 8, 50])}
