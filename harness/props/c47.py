"""C47 — DataFrame file round trips preserve data (CSV half; the parquet half cannot run in this sandbox).

Model:    lean/DaskModel/Model/Csv.lean (block model) and Model/CsvOpts.lean (header / names / skiprows handling of
          read_pandas / _header_row / _read_csv / pandas_read_text, the sample, several files, pandas at line level,
          to_csv's per-partition header decision) on top of Model/TextBlocks.lean (read_bytes blocks, group bag)
Theorems: lean/DaskModel/Props/C47.lean, lean/DaskModel/Props/C47Opts.lean
Tie:      function level (cheap, hundreds per quick run):
            pd_line      pandas.read_csv on one small text  vs  Lean `pdFrame` (the line-level atom the theorems rest on)
            header_row   csv._header_row                    vs  Lean `headerRow`
            block_kw     csv._read_csv with a spy reader    vs  Lean `firstKw/restKw/writeHeader` (text + keywords per block)
            header_bytes csv.read_pandas (spy on text_blocks_to_pandas): header bytes, kwargs['header'], raise vs Lean
            blocks       dd.read_csv on tiny files (several files, blocksizes of a few bytes, header/names/skiprows
                         combinations): every partition's columns and rows vs Lean `readFiles`, all rows vs pandas
            to_csv       to_csv(single_file / header_first_partition_only / header=False / name_function / index) bytes of
                         every file vs Lean `writeFiles`, then read back with read_csv(blocksize) and pandas.read_csv
          API level: read_csv(file, blocksize) == pandas.read_csv(file) on random frames (ints, floats+NaN, strings with
            commas / quotes / unicode, dates, bools, `\\r\\n`, quoted line terminators), row counts per partition vs the
            Lean block model; to_csv -> read_csv round trips over partitionings and options.
"""
from __future__ import annotations

import itertools
import os
import shutil
import tempfile

from sexp import Sym

from props import _dfpart_util as U

PROP = "C47"
READY = True
DRIVER = "dm_dfpart"
LEAN_MODULES = ["DaskModel.Props.C47", "DaskModel.Props.C47Opts"]
CASE_TIMEOUT_S = 90
ASSUMPTIONS = [
    "pandas' CSV parser on one text is the atom: its LINE-level behaviour (physical skiprows, blank lines are not rows, "
    "which line names the columns, when it raises EmptyDataError / ParserError) is modelled as `pdFrame` and diffed "
    "against pandas.read_csv on every run (section pd_line); field splitting, quoting, dtype inference and float text are "
    "pandas' business",
    "no field contains the line terminator (the quoted-newline stream is checked on the real code only: known finding)",
    "rectangular files (every row has as many fields as the header); `comment=`, list `skiprows`, `skipfooter`, "
    "`header='infer'` together with `names=` are not modelled",
    "the theorems take the sample to be the whole first file (file shorter than `sample`, 256 kB by default); the sample "
    "cut for `skiprows` with a small blocksize is modelled and diffed but has no theorem",
]
LEVEL_TEXT = (
    "PARTIAL: CSV only. to_parquet / read_parquet cannot run here (pyarrow is absent), so the parquet half of the statement "
    "is NOT decided by this check. CSV, proved in Lean 4 for ALL files, blocksizes and partitionings, at LINE level "
    "(pandas' parser on one text is the modelled-and-diffed atom `pdFrame`): "
    "(1) csv_blocks_rows (block model: header prepended to every block that does not start a file; rows over all blocks = "
    "the file's lines after the header, exact IEEE block offsets from C50); "
    "(2) read_file_frames / read_files_eq_pandas: for the keywords header (absent, 'infer', int, None) x names (given or "
    "not) x skiprows, the per-block keyword rewrite of _read_csv (`write_header`, popped `skiprows` / `header`), the header "
    "bytes read_pandas extracts (_header_row, proved to be pandas' header line: header_bytes_spec) and several files "
    "(first block of EVERY file parsed with the user's keywords): the partitions' rows concatenate to pandas' rows file "
    "after file and every partition has pandas' columns, under the explicit hypothesis FirstCovers (the first block of "
    "each file contains the skipped rows and the header row; evaluated by the harness for every case); csv_opts_rows / "
    "csv_names_any_file / csv_files_rows discharge it for header in {absent,'infer',0,None} x names for every blocksize; "
    "names_keep_header_refuted and blank_header_bytes_refuted are the two defects the model exposes (a seeded keyword "
    "rewrite; the blank first line, repaired in /repo e673923); csv_models_agree / headerOf_agrees tie the two models; "
    "(3) to_csv: the per-partition header decision (single_file, header_first_partition_only, header=False) and "
    "roundtrip_single_file / roundtrip_multi_file / roundtrip_no_header: reading the written file(s) block-wise returns "
    "exactly the partitions' rows in order, empty partitions included. "
    "VALIDATED on every run, not proved: pandas' line-level behaviour = pdFrame, every modelled function against the real "
    "one on tiny files (blocksizes 1..N, several files), read_csv == pandas.read_csv on random typed frames, to_csv bytes "
    "and round trips incl. name_function / index / dates; the sample cut for skiprows with a small blocksize (modelled and "
    "diffed, no theorem). Known findings: quoted fields containing the line terminator, a first block that ends before "
    "the header row / the skipped rows, the sample cut to the blocksize ending before the header row. Repaired in /repo "
    "during this review: e673923 (blank first line), af2d511 (header=None and a rowless block), 9074abb (empty files with "
    "names=).")
LEVEL_NOTE = ("Trusted: Lean kernel + standard axioms; pandas parser/formatter beyond the line level; fsspec local files; the "
              "TextBlocks model of group bag (C50). Parquet half: not applicable in this sandbox (no pyarrow) - stated here "
              "and in LEVEL_TEXT.")
TECHNIQUE = ("Lean 4 proof over a line/block model of read_pandas/_read_csv/to_csv (induction over blocks and files, exact "
             "IEEE offsets from C50) + function-level and API-level differential correspondence against pandas")
TRUSTED = ["pandas.read_csv / DataFrame.to_csv below the line level (field splitting, quoting, dtypes)"]

SIG_NL = "read_csv:line-terminator-inside-quoted-field:block-boundary-splits-the-field"
SIG_FIRST = "read_csv:first-block-ends-before-the-header-row-or-the-skipped-rows:raises-or-keeps-skipped-rows"
SIG_SAMPLE = "read_csv:skiprows+blocksize<sample:sample-cut-to-the-blocksize:header-or-head-outside-the-sample:raises"
SAMPLE = 256000


class _Tmp:
    def __enter__(self):
        self.d = tempfile.mkdtemp(prefix="c47_")
        return self.d

    def __exit__(self, *a):
        shutil.rmtree(self.d, ignore_errors=True)


# ---------------------------------------------------------------------------------------------------------------------
# keyword encoding shared by the function-level sections: kw = [header, names, skiprows] with header in
# "absent" | "infer" | "none" | int
# ---------------------------------------------------------------------------------------------------------------------

def _kw_lean(kw):
    h = kw[0]
    return [Sym(h) if isinstance(h, str) else h, bool(kw[1]), kw[2]]


def _kw_py(kw, ncols):
    out = {}
    h = kw[0]
    if h == "infer":
        out["header"] = "infer"
    elif h == "none":
        out["header"] = None
    elif h != "absent":
        out["header"] = h
    if kw[1]:
        out["names"] = ["c%d" % i for i in range(ncols)]
    if kw[2]:
        out["skiprows"] = kw[2]
    return out


_STR = {"dtype": str, "keep_default_na": False, "na_filter": False}


def _fields(line):
    return line.rstrip(b"\r\n").decode("latin-1").split(",")


def _ncols(text):
    for ln in text.split(b"\n"):
        if ln.strip(b" \t\r"):
            return ln.count(b",") + 1
    return 1


def _cols_comparable(fields):
    return all(f and f == f.strip() for f in fields) and len(set(fields)) == len(fields)


def _lean_frame(fr):
    """(cols|None, rows) of a Lean frame `(cols rows)`"""
    cols = None if fr[0] is None else _fields(bytes(fr[0]))
    return cols, [_fields(bytes(r)) for r in fr[1]]


def _pd_frame(df, names_given):
    cols = None if names_given or all(isinstance(c, int) for c in df.columns) else [str(c) for c in df.columns]
    return cols, [[str(v) for v in row] for row in df.itertuples(index=False)]


def case_pd_line(ctx, inp):
    """pandas.read_csv on ONE text vs the Lean line-level model `pdFrame` (the atom of the C47Opts theorems)"""
    import io

    import pandas as pd
    text = inp["text"].encode("latin-1")
    kw = inp["kw"]
    k = _ncols(text)
    model = ctx.lean(Sym("pd-frame"), _kw_lean(kw), list(text))
    try:
        df = pd.read_csv(io.BytesIO(text), **_STR, **_kw_py(kw, k))
        real = ["ok"]
    except (pd.errors.EmptyDataError, pd.errors.ParserError) as e:
        real = ["raised"]
        ctx.branch("pd_line-raises-" + type(e).__name__)
    ctx.eq("pandas raises / answers (line model)", model[0], real[0])
    if model[0] == "ok" and real[0] == "ok":
        mc, mr = _lean_frame(model[1])
        pc, pr = _pd_frame(df, kw[1])
        ctx.eq("pandas rows vs line model", mr, pr)
        if mc is not None and _cols_comparable(mc):
            ctx.eq("pandas columns vs line model", mc, pc)
        elif mc is None:
            ctx.eq("pandas columns: positional / names", None, pc)
        ctx.branch("pd_line-h=%s-names=%s-skip=%s" % (kw[0] if isinstance(kw[0], str) else "int", bool(kw[1]), bool(kw[2])))
        if b"\n\n" in text or text.startswith(b"\n") or b" \n" in text:
            ctx.branch("pd_line-blank-lines")


def case_header_row(ctx, inp):
    """csv._header_row vs Lean `headerRow`"""
    U.dd()
    from dask.dataframe.io import csv as C
    lines = [s.encode("latin-1") for s in inp["lines"]]
    real = C._header_row(lines, inp["firstrow"], inp["header"], True)
    model = ctx.lean(Sym("csv-header-row"), [list(x) for x in lines], inp["firstrow"], inp["header"])
    ctx.eq("_header_row", model, real)
    if real != inp["firstrow"] + inp["header"]:
        ctx.branch("header_row-skips-blank")
    elif real >= len(lines):
        ctx.branch("header_row-beyond-the-sample")


def case_block_kw(ctx, inp):
    """_read_csv with a spy reader: the text and the keywords handed to pandas for one block vs Lean"""
    import pandas as pd
    U.dd()
    from dask.dataframe.io import csv as C
    kw = inp["kw"]
    seen = {}

    def spy(bio, **kwargs):
        seen["text"] = bio.read()
        seen["kw"] = kwargs
        return pd.DataFrame({"a": []})
    header_bytes = b"HDR\n"
    block = b"1\n2\n"
    kwargs = _kw_py(kw, 1)
    # read_pandas makes `header` explicit before it calls text_blocks_to_pandas
    kwargs["header"] = kwargs.get("header", "infer" if "names" not in kwargs else None)
    if inp.get("skipfooter"):
        kwargs["skipfooter"] = 1
    C._read_csv(block, (None, inp["is_first"], inp["is_last"]), None, reader=spy, header=header_bytes, dtypes=None,
                head=pd.DataFrame({"a": []}), colname=None, full_columns=["a"], enforce=False, kwargs=kwargs, blocksize=None)
    model = ctx.lean(Sym("csv-block-kw"), _kw_lean(kw), bool(inp["is_first"]))
    mkw, mwrite = model
    got = seen["kw"]
    rh = "absent" if "header" not in got else got["header"]
    ctx.eq("keywords of the block: header", mkw[0], rh)
    ctx.eq("keywords of the block: names kept", mkw[1], "names" in got)
    ctx.eq("keywords of the block: skiprows", mkw[2], got.get("skiprows", 0))
    ctx.eq("write_header", mwrite, seen["text"] == header_bytes + block)
    if not mwrite and seen["text"] != block:
        ctx.disagree("block text", list(block), list(seen["text"]))
    if ("skipfooter" in got) != (bool(inp.get("skipfooter")) and inp["is_last"]):
        ctx.fail("skipfooter must be kept for the last block of a file only", observed=[inp, sorted(got)])
    ctx.branch("block_kw-%s-names=%s-first=%s" % (kw[0] if isinstance(kw[0], str) else "int", bool(kw[1]), inp["is_first"]))


class _Captured(Exception):
    pass


def case_header_bytes(ctx, inp):
    """read_pandas up to text_blocks_to_pandas: header bytes and kwargs['header'] vs Lean `headerBytes` / `effHeader`"""
    import pandas as pd
    U.dd()
    from dask.dataframe.io import csv as C
    text = inp["text"].encode("latin-1")
    kw = inp["kw"]
    cap = {}

    def spy(reader, block_lists, header, head, kwargs, **rest):
        cap["header"], cap["kwheader"] = header, kwargs.get("header", "absent")
        raise _Captured
    orig = C.text_blocks_to_pandas
    with _Tmp() as d:
        p = os.path.join(d, "f.csv")
        with open(p, "wb") as f:
            f.write(text)
        C.text_blocks_to_pandas = spy
        try:
            C.read_pandas(pd.read_csv, p, blocksize=inp.get("bs"), **_STR, **_kw_py(kw, _ncols(text)))
            real = ["no-call"]
        except _Captured:
            real = ["ok", list(cap["header"]), cap["kwheader"]]
        except IndexError:
            real = ["raised", "IndexError"]
        except (pd.errors.EmptyDataError, pd.errors.ParserError):
            real = ["raised", "head"]
        except ValueError as e:
            real = ["raised", "sample" if "Sample is not large enough" in str(e) else "ValueError:" + str(e)[:80]]
        finally:
            C.text_blocks_to_pandas = orig
    # the model: sample, too-small check, header bytes, head
    model = ctx.lean(Sym("csv-header-probe"), _kw_lean(kw), SAMPLE, list(text), Sym("none") if not inp.get("bs") else inp["bs"])
    ctx.eq("read_pandas: header bytes / explicit header / raise", model, real)
    ctx.branch("header_bytes-" + "-".join(str(x) for x in real[:1] + real[1:2] if not isinstance(x, list)))


def _write_files(d, files):
    paths = []
    for i, t in enumerate(files):
        p = os.path.join(d, "f%02d.csv" % i)
        with open(p, "wb") as f:
            f.write(t)
        paths.append(p)
    return paths


def case_blocks(ctx, inp):
    """dd.read_csv on tiny files: every partition (columns, rows) vs Lean `readFiles`; all rows vs pandas"""
    import dask
    import pandas as pd
    dd = U.dd()
    files = [t.encode("latin-1") for t in inp["files"]]
    kw, bs = inp["kw"], inp.get("bs")
    k = _ncols(files[0]) if files else 1
    kwpy = _kw_py(kw, k)
    lbs = Sym("none") if not bs else bs
    model = ctx.lean(Sym("csv-read-files"), _kw_lean(kw), SAMPLE, [list(t) for t in files], lbs)
    covered = all(ctx.lean(Sym("csv-file-ok"), _kw_lean(kw), list(t), lbs) is True for t in files)
    with _Tmp() as d:
        paths = _write_files(d, files)
        try:
            exp = [pd.read_csv(p, **_STR, **kwpy) for p in paths]
            exp_rows = [r for df in exp for r in _pd_frame(df, kw[1])[1]]
            exp_cols = _pd_frame(exp[0], kw[1])[0]
            same_cols = all(_pd_frame(df, kw[1])[0] == exp_cols for df in exp)   # else the files do not form one frame
            pandas_ok = True
        except (pd.errors.EmptyDataError, pd.errors.ParserError):
            pandas_ok = False
        try:
            with dask.config.set(scheduler="sync"):
                r = dd.read_csv(paths, blocksize=bs, **_STR, **kwpy)
                parts = U.partitions(r)
            real = ["ok"]
        except Exception as e:  # noqa: BLE001
            real = ["raised", U.exc_name(e)]
    ctx.eq("read_csv raises / answers (model of read_pandas + _read_csv)", model[0], real[0])
    sig = None if covered else SIG_FIRST
    if covered and kw[2] and bs and bs < SAMPLE and files:
        # skiprows with a small blocksize: the sample is cut to the blocksize; does read_pandas get past the sample?
        probe = ctx.lean(Sym("csv-header-probe"), _kw_lean(kw), SAMPLE, list(files[0]), bs)
        if probe[0] == "raised" and probe[1] != "sample":
            sig = SIG_SAMPLE
    if real[0] == "raised":
        if pandas_ok:
            # pandas reads the files, dask raises: allowed only for the documented sample error with skiprows
            if "Sample is not large enough" in real[1] and kw[2]:
                ctx.branch("blocks-documented-sample-error")
            else:
                ctx.fail("read_csv raised although pandas reads the file(s): " + real[1], sig=sig, observed=real[1])
        else:
            ctx.branch("blocks-both-raise")
        return
    got_frames = [_pd_frame(p, kw[1]) for p in parts]
    if model[0] == "ok":
        mf = [_lean_frame(f) for f in model[1]]
        ctx.eq("rows of every partition (Lean readFiles vs read_csv)", [f[1] for f in mf], [f[1] for f in got_frames])
        if all(c is None or _cols_comparable(c) for c, _ in mf):
            ctx.eq("columns of every partition (Lean readFiles vs read_csv)", [f[0] for f in mf], [f[0] for f in got_frames])
    if not pandas_ok:
        ctx.fail("read_csv answers although pandas.read_csv raises on the file(s)", sig=sig, observed=[f[1] for f in got_frames])
        return
    got_rows = [r for _, rows in got_frames for r in rows]
    if got_rows != exp_rows:
        ctx.fail(f"read_csv(blocksize={bs}, {kwpy}) rows differ from pandas.read_csv", sig=sig,
                 observed=got_rows[:12], expected=exp_rows[:12])
    elif same_cols and any(c != exp_cols for c, _ in got_frames):
        ctx.fail("a partition of read_csv has other columns than pandas.read_csv", sig=sig,
                 observed=[c for c, _ in got_frames], expected=exp_cols)
    elif not covered:
        ctx.branch("blocks-first-block-short-but-right")
    ctx.branch("blocks-h=%s-names=%s-skip=%s-files=%d-%s" % (kw[0] if isinstance(kw[0], str) else "int", bool(kw[1]), bool(kw[2]),
                                                          min(len(files), 2), "whole" if not bs else "bs<=4" if bs <= 4 else "bs>4"))
    if len(parts) > len(files):
        ctx.branch("blocks-several-blocks-per-file")
    if any(t.startswith(b"\n") or b"\n\n" in t for t in files):
        ctx.branch("blocks-blank-lines")


def _tiny_frame(inp):
    import pandas as pd
    n, k = inp["n"], inp["k"]
    cols = {("c%d" % j if not inp.get("numeric_header") else str(j + 1)): [("r%d_%d" % (i, j)) for i in range(n)] for j in range(k)}
    df = pd.DataFrame(cols)
    if inp.get("index"):
        df.index = pd.Index(["i%d" % i for i in range(n)], name="idx")
    return df


def case_to_csv(ctx, inp):
    """to_csv options: the bytes of every written file vs Lean `writeFiles`, file names, and both read-back directions"""
    import dask
    import pandas as pd
    dd = U.dd()
    df = _tiny_frame(inp)
    d0 = U.frame_from_cuts(df, inp["cuts"])
    single, hfpo, header, index = bool(inp.get("single_file")), inp.get("hfpo"), inp.get("header", True), bool(inp.get("index"))
    nf = inp.get("name_function")
    kw = {"index": index}
    if single:
        kw["single_file"] = True
    if not header:
        kw["header"] = False
    if hfpo is not None:
        kw["header_first_partition_only"] = hfpo
    names = None
    if nf and not single:
        names = {"pad": (lambda i: "p%03d" % i), "rev": (lambda i: "p%03d" % (500 - i)), "plain": (lambda i: "x%d" % i)}[nf]
        kw["name_function"] = names
    # the line-level view of the frame: header line and the data lines of every partition, as pandas writes them
    parts_df = [df.iloc[a:b] for a, b in zip(inp["cuts"], inp["cuts"][1:])]
    cols_line = df.iloc[:0].to_csv(index=index).encode()
    part_lines = [[(ln + "\n").encode() for ln in p.to_csv(index=index, header=False).split("\n") if ln] for p in parts_df]
    model = ctx.lean(Sym("csv-write"), [single, Sym("none") if hfpo is None else bool(hfpo), bool(header)], list(cols_line),
                     [[list(r) for r in p] for p in part_lines])
    with _Tmp() as d:
        target = os.path.join(d, "out.csv") if single else os.path.join(d, "out-*.csv")
        try:
            with dask.config.set(scheduler="sync"):
                files = d0.to_csv(target, **kw)
            real = ["ok"]
        except ValueError as e:
            real = ["raised", U.exc_name(e)]
        except Exception as e:  # noqa: BLE001
            ctx.fail("to_csv raised: " + U.exc_name(e), observed=[U.exc_name(e), str(kw)])
            return
        ctx.eq("to_csv raises / writes (header_first_partition_only rule)", model[0], real[0])
        if real[0] == "raised" or model[0] != "ok":
            ctx.branch("to_csv-rejected-options")
            return
        contents = [list(open(f, "rb").read()) for f in files]
        ctx.eq("bytes of every written file, in partition order (Lean writeFiles vs to_csv)", model[1], contents)
        nparts = len(inp["cuts"]) - 1
        if single:
            ctx.eq("single_file: one file", 1, len(files))
        else:
            fn = names or (lambda i: str(i))
            ctx.eq("file names: prefix + name_function(partition number), in partition order",
                   ["out-%s.csv" % fn(i) for i in range(nparts)], [os.path.basename(f) for f in files])
        # read back. header written in every file (or once in the single file): default read_csv; no header: names=
        exp = df.reset_index() if index else df
        exp_rows = [[str(v) for v in row] for row in exp.itertuples(index=False)]
        every_file_has_header = header and (single or not hfpo)
        if header and not every_file_has_header:
            ctx.branch("to_csv-header-only-in-first-file")       # reading such files back needs per-file keywords: not a round trip
            return
        rkw = dict(_STR)
        if not header:
            rkw["names"] = list(exp.columns)
            rkw["header"] = None
        order = sorted(files)                                    # what a glob gives back
        if nf == "rev" and not single:
            ctx.branch("to_csv-name_function-not-order-preserving")
            order = files                                         # documented: name_function must preserve the order
        for bs in inp.get("blocksizes", [None]):
            try:
                with dask.config.set(scheduler="sync"):
                    back = dd.read_csv(order, blocksize=bs, **rkw).compute()
            except Exception as e:  # noqa: BLE001
                ctx.fail(f"read_csv of the files written by to_csv raised (blocksize={bs}): " + U.exc_name(e), observed=U.exc_name(e))
                return
            got_rows = [[str(v) for v in row] for row in back.itertuples(index=False)]
            if got_rows != exp_rows or [str(c) for c in back.columns] != [str(c) for c in exp.columns]:
                ctx.fail(f"to_csv -> read_csv(blocksize={bs}) does not reproduce the frame", observed=got_rows[:10], expected=exp_rows[:10])
        back_pd = pd.concat([pd.read_csv(f, **rkw) for f in order]) if order else exp.iloc[:0]
        if [[str(v) for v in row] for row in back_pd.itertuples(index=False)] != exp_rows:
            ctx.fail("to_csv -> pandas.read_csv does not reproduce the frame", observed=len(back_pd), expected=len(exp_rows))
    ctx.branch("to_csv-" + ("single" if single else "multi") + ("" if header else "-noheader") + ("-index" if index else "")
               + ("-namefn" if nf else "") + ("-empty-partition" if any(a == b for a, b in zip(inp["cuts"], inp["cuts"][1:])) else ""))
    if any(a == b for a, b in zip(inp["cuts"][:2], inp["cuts"][1:2])):
        ctx.branch("to_csv-first-partition-empty")


# ---------------------------------------------------------------------------------------------------------------------
# API level on random typed frames (as before)
# ---------------------------------------------------------------------------------------------------------------------

def _mkframe(inp):
    import numpy as np
    import pandas as pd
    n = inp["n"]
    cols = {}
    for name, kind, seedv in inp["cols"]:
        if kind == "int":
            cols[name] = [(seedv * 7 + i * 13) % 50 - 10 for i in range(n)]
        elif kind == "float":
            cols[name] = [np.nan if (seedv + i) % 5 == 0 else ((seedv + i * 3) % 17) * 0.25 - 1.5 for i in range(n)]
        elif kind == "str":
            # no numeric-looking strings: CSV cannot tell "10" from 10 (per-block dtype inference then differs, which
            # dask reports with its documented "specify dtype" error)
            pool = ["a", "bc", "x,y", 'q"uote', "", "sp ace", "a1", "1a", "héé", "#h", "a,b,c"]
            cols[name] = [pool[(seedv + i * 5) % len(pool)] or None for i in range(n)]
        elif kind == "strnl":
            pool = ["a", "line1\nline2", "x", "b\nc\nd", "y"]
            cols[name] = [pool[(seedv + i * 3) % len(pool)] for i in range(n)]
        elif kind == "date":
            cols[name] = pd.to_datetime(["2020-01-%02d" % (1 + (seedv + i) % 28) for i in range(n)])
        elif kind == "bool":
            cols[name] = [bool((seedv + i) % 3) for i in range(n)]
    return pd.DataFrame(cols)


def _dtype_kw(inp):
    """explicit dtypes for the columns whose type cannot be inferred from a block that holds only NA
    (dask's documented remedy for per-block dtype inference)"""
    d = {name: (str if kind in ("str", "strnl") else float) for name, kind, _ in inp["cols"] if kind in ("str", "strnl", "float")}
    return {"dtype": d} if d else {}


def _same(got, exp):
    return U.same_pandas(got.reset_index(drop=True), exp.reset_index(drop=True), sort=False, names=False)


def case_read_csv(ctx, inp):
    """read_csv(file, blocksize) vs pandas.read_csv(file), and the partition structure vs the Lean model"""
    import dask
    import pandas as pd
    dd = U.dd()
    df = _mkframe(inp)
    has_nl = any(k == "strnl" for _, k, _ in inp["cols"])
    with _Tmp() as d:
        p = os.path.join(d, "f.csv")
        df.to_csv(p, index=False, lineterminator=inp.get("lt", "\n"))
        data = open(p, "rb").read()
        kw = {}
        dates = [name for name, k, _ in inp["cols"] if k == "date"]
        if dates:
            kw["parse_dates"] = dates
        kw.update(_dtype_kw(inp))
        if inp.get("names"):
            # rename the columns while skipping the header line of the file
            new = ["n%d" % i for i in range(len(inp["cols"]))]
            kw["names"], kw["header"] = new, 0
            ren = dict(zip([c[0] for c in inp["cols"]], new))
            if "parse_dates" in kw:
                kw["parse_dates"] = [ren[c] for c in kw["parse_dates"]]
            if "dtype" in kw:
                kw["dtype"] = {ren[c]: t for c, t in kw["dtype"].items()}
        # "\r\n" files: pandas accepts only 1-byte `lineterminator`; both readers split on "\n" and strip the "\r"
        exp = pd.read_csv(p, **kw)
        bs = inp["blocksize"]
        try:
            with dask.config.set(scheduler="sync"):
                r = dd.read_csv(p, blocksize=bs, **kw)
                parts = U.partitions(r)
                got = pd.concat(parts) if parts else exp.iloc[:0]
        except Exception as e:  # noqa: BLE001
            sig = SIG_NL if has_nl and bs else None
            ctx.fail("read_csv raised: " + U.exc_name(e), sig=sig, observed=[U.exc_name(e), bs])
            return
    why = _same(got, exp)
    if why:
        sig = SIG_NL if has_nl and bs else None
        ctx.fail(f"read_csv(blocksize={bs}) differs from pandas.read_csv: {why}", sig=sig,
                 observed=got.head(12).to_dict("list"), expected=exp.head(12).to_dict("list"))
    ctx.branch("read_csv-" + ("whole" if not bs else "bs<=8" if bs <= 8 else "bs<=64" if bs <= 64 else "bs>64")
               + ("-quoted-nl" if has_nl else ""))
    # block model: number of partitions and rows per partition (line level; only meaningful without quoted newlines)
    if not has_nl and inp.get("lt", "\n") == "\n" and len(data) < 4000 and not inp.get("names"):
        model = ctx.lean(Sym("csv-parts"), list(data), Sym("none") if not bs else bs)
        if model[0] == "ok":
            ctx.eq("rows per partition (Lean block model vs read_csv)", [len(p) for p in model[1]], [len(p) for p in parts])
            # the model's rows are the file's data lines, in order
            lines = data.split(b"\n")
            if lines and lines[-1] == b"":
                lines = lines[:-1]
            ctx.eq("Lean csv rows vs the file's lines", [bytes(r).rstrip(b"\n") for p in model[1] for r in p], lines[1:])
        else:
            ctx.disagree("Lean block model raised", model, "ok")


def case_roundtrip(ctx, inp):
    """to_csv then read_csv reproduces the frame for any partitioning / naming / single_file / index option"""
    import dask
    import pandas as pd
    dd = U.dd()
    df = _mkframe(inp)
    if inp.get("index"):
        df.index = pd.Index([i * 2 + 1 for i in range(len(df))], name="idx")
    d0 = U.frame_from_cuts(df, inp["cuts"])
    dates = [name for name, k, _ in inp["cols"] if k == "date"]
    with _Tmp() as d:
        kw = {"index": bool(inp.get("index"))}
        single = inp.get("single_file")
        if single:
            target = os.path.join(d, "out.csv")
            kw["single_file"] = True
        else:
            target = os.path.join(d, "out-*.csv")
            if inp.get("name_function"):
                kw["name_function"] = lambda i: "p%03d" % (100 - i) if inp["name_function"] == "rev" else "x%d" % i
        try:
            with dask.config.set(scheduler="sync"):
                files = d0.to_csv(target, **kw)
                rkw = {"parse_dates": dates} if dates else {}
                rkw.update(_dtype_kw(inp))
                if single:
                    back = dd.read_csv(target, blocksize=inp.get("blocksize"), **rkw)
                    exp_files = 1
                else:
                    back = dd.read_csv([f for f in files], blocksize=inp.get("blocksize"), **rkw)
                    exp_files = len(inp["cuts"]) - 1
                got = back.compute()
        except Exception as e:  # noqa: BLE001
            ctx.fail("to_csv/read_csv raised: " + U.exc_name(e), observed=[U.exc_name(e), str(kw)])
            return
        if len(files) != exp_files:
            ctx.fail("to_csv wrote an unexpected number of files", observed=len(files), expected=exp_files)
        if not single and kw.get("name_function") is None:
            if [os.path.basename(f) for f in files] != ["out-%d.csv" % i for i in range(exp_files)] and exp_files <= 10:
                ctx.fail("to_csv default file names are not <prefix><partition number>", observed=[os.path.basename(f) for f in files])
    exp = df.reset_index() if inp.get("index") else df
    for name, kind, _ in inp["cols"]:
        if kind in ("str", "strnl"):       # an all-None column is `object` in the source frame, `str` after the read
            exp = exp.assign(**{name: exp[name].astype("str")})
            got = got.assign(**{name: got[name].astype("str")})
    why = _same(got, exp)
    if why:
        ctx.fail(f"to_csv -> read_csv round trip differs: {why}", observed=got.head(10).to_dict("list"), expected=exp.head(10).to_dict("list"))
    ctx.branch("roundtrip-" + ("single" if single else "multi") + ("-index" if inp.get("index") else "")
               + ("-empty-partition" if any(a == b for a, b in zip(inp["cuts"], inp["cuts"][1:])) else ""))



# ---------------------------------------------------------------------------------------------------------------------
# joint / history / source purity: several differently parameterised reads / writes of the SAME file / frame in one graph,
# sequences of calls in one process (a file rewritten under the same name, a directory written twice), inputs unchanged
# ---------------------------------------------------------------------------------------------------------------------

def _shared_key_conflicts(graphs):
    from dask.base import tokenize
    out = []
    for a in range(len(graphs)):
        for b in range(a + 1, len(graphs)):
            for k in set(graphs[a]) & set(graphs[b]):
                if tokenize(graphs[a][k]) != tokenize(graphs[b][k]):
                    out.append(str(k)[:80])
    return out


def _frame_rows(df, names_given):
    return _pd_frame(df, names_given)[1]


def case_joint(ctx, inp):
    import dask
    import pandas as pd
    dd = U.dd()
    text = inp["text"].encode("latin-1")
    text2 = inp["text2"].encode("latin-1")
    k = _ncols(text)
    variants = inp["variants"]                       # [[bs, kw], …] : the same file read in differently parameterised ways
    with _Tmp() as d:
        p = os.path.join(d, "f.csv")
        with open(p, "wb") as f:
            f.write(text)

        def build(v):
            return dd.read_csv(p, blocksize=v[0], **_STR, **_kw_py(v[1], k))

        def ref(v, path=None):
            return pd.read_csv(path or p, **_STR, **_kw_py(v[1], k))
        try:
            with dask.config.set(scheduler="sync"):
                exprs = [build(v) for v in variants]
                graphs = [dict(e.__dask_graph__()) for e in exprs]
                solo = [build(v).compute() for v in variants]
                joint = dask.compute(*exprs)
                parts0 = U.partitions(build(variants[0]))                 # history: the first read again, after the others
                exps = [ref(v) for v in variants]
                unchanged = open(p, "rb").read() == text
                # history: the file is rewritten under the same name; a NEW read (another blocksize) must see the new content
                with open(p, "wb") as f:
                    f.write(text2)
                k2 = _ncols(text2)
                v2 = variants[-1]
                re_read = dd.read_csv(p, blocksize=inp["bs2"], **_STR, **_kw_py(v2[1], k2)).compute()
                re_exp = pd.read_csv(p, **_STR, **_kw_py(v2[1], k2))
        except (pd.errors.EmptyDataError, pd.errors.ParserError):
            ctx.branch("joint-read-refused-by-pandas")
            return
        except Exception as e:  # noqa: BLE001
            ctx.fail("joint read_csv raised: " + U.exc_name(e), sig=SIG_FIRST if "Passed header" in str(e) or "No columns" in str(e) or "Mismatched" in str(e) else None,
                     observed=U.exc_name(e))
            return
        for i, v in enumerate(variants):
            e = _frame_rows(exps[i], v[1][1])
            if _frame_rows(solo[i], v[1][1]) != e:
                ctx.branch("joint-read-solo-differs")                # the one-shot sections report this with its signature
                return
            if _frame_rows(joint[i], v[1][1]) != e or [str(c) for c in joint[i].columns] != [str(c) for c in solo[i].columns]:
                ctx.fail(f"read_csv{v} evaluated together with other reads of the same file differs from its solo result",
                         observed=_frame_rows(joint[i], v[1][1])[:12], expected=e[:12])
        if [r for q in parts0 for r in _frame_rows(q, variants[0][1][1])] != _frame_rows(exps[0], variants[0][1][1]):
            ctx.fail("read_csv: the first read repeated after other reads in the same process gives other partitions")
        bad = _shared_key_conflicts(graphs)
        if bad:
            ctx.fail("read_csv: graphs of differently parameterised reads of one file share keys with different tasks", observed=bad[:5])
        if not unchanged:
            ctx.fail("read_csv modified the file it read")
        if _frame_rows(re_read, v2[1][1]) != _frame_rows(re_exp, v2[1][1]) or [str(c) for c in re_read.columns] != [str(c) for c in re_exp.columns]:
            ctx.fail("read_csv of a file rewritten under the same name returns stale / mixed content",
                     observed=_frame_rows(re_read, v2[1][1])[:12], expected=_frame_rows(re_exp, v2[1][1])[:12])
    ctx.branch("joint-read-%d-variants" % len(variants))


def case_joint_write(ctx, inp):
    """two differently partitioned views of one frame written in ONE compute; the same directory written twice (fewer
    partitions the second time); the source frame unchanged"""
    import dask
    import pandas as pd
    dd = U.dd()
    df = _tiny_frame(inp)
    keep = df.copy(deep=True)
    rows = [[str(v) for v in r] for r in df.itertuples(index=False)]
    with _Tmp() as d:
        try:
            with dask.config.set(scheduler="sync"):
                a = U.frame_from_cuts(df, inp["cuts"]).to_csv(os.path.join(d, "a-*.csv"), index=False, compute=False)
                b = U.frame_from_cuts(df, inp["cuts2"]).to_csv(os.path.join(d, "b.csv"), index=False, single_file=True, compute=False)
                c = U.frame_from_cuts(df, inp["cuts2"]).to_csv(os.path.join(d, "c-*.csv"), index=False, header=False, compute=False)
                dask.compute(*a, *b, *c)
                na, nc = len(inp["cuts"]) - 1, len(inp["cuts2"]) - 1
                fa = [os.path.join(d, "a-%d.csv" % i) for i in range(na)]
                fc = [os.path.join(d, "c-%d.csv" % i) for i in range(nc)]
                got_a = pd.concat([pd.read_csv(f, **_STR) for f in fa])
                got_b = pd.read_csv(os.path.join(d, "b.csv"), **_STR)
                got_c = pd.concat([pd.read_csv(f, names=list(df.columns), header=None, **_STR) for f in fc])
                # history: the same target written again with fewer partitions
                first = U.frame_from_cuts(df, inp["cuts"]).to_csv(os.path.join(d, "h-*.csv"), index=False)
                fewer = [0, len(df)]
                second = U.frame_from_cuts(df.iloc[::-1], fewer).to_csv(os.path.join(d, "h-*.csv"), index=False)
                got_h = pd.concat([pd.read_csv(f, **_STR) for f in second])
        except Exception as e:  # noqa: BLE001
            ctx.fail("joint to_csv raised: " + U.exc_name(e), observed=U.exc_name(e))
            return
        for name, got in (("multi-file", got_a), ("single-file", got_b), ("header=False", got_c)):
            if [[str(v) for v in r] for r in got.itertuples(index=False)] != rows:
                ctx.fail(f"to_csv ({name}) written in one compute with two other views of the same frame does not read back",
                         observed=len(got), expected=len(rows))
        if [[str(v) for v in r] for r in got_h.itertuples(index=False)] != rows[::-1]:
            ctx.fail("to_csv: the files returned by a second write to the same target do not hold the second frame", observed=len(got_h))
        if len(second) != 1 or len(first) != na:
            ctx.fail("to_csv returns an unexpected number of written files", observed=[len(first), len(second)])
        if na > 1:
            ctx.branch("joint-write-stale-files-of-the-first-write-remain")      # not removed by design: only the returned names are read
    if not df.equals(keep):
        ctx.fail("to_csv modified the source frame")
    ctx.branch("joint-write")

CASES = {"pd_line": case_pd_line, "header_row": case_header_row, "block_kw": case_block_kw, "header_bytes": case_header_bytes,
         "blocks": case_blocks, "to_csv": case_to_csv, "read_csv": case_read_csv, "roundtrip": case_roundtrip,
         "joint": case_joint, "joint_write": case_joint_write}


# ---------------------------------------------------------------------------------------------------------------------
# generators
# ---------------------------------------------------------------------------------------------------------------------

_HDRS = ["absent", "infer", 0, "none", 1, 2]


def _rand_kw(rng, matrix_only=False):
    h = rng.choice(["absent", "absent", "infer", 0, 0, "none", "none"] + ([] if matrix_only else [1, 1, 2]))
    names = rng.random() < 0.45
    if h == "infer" and names:
        h = "absent"                       # header='infer' together with names= is not modelled
    skip = 0 if matrix_only or rng.random() < 0.7 else rng.randint(1, 3)
    return [h, names, skip]


_FIELD = ["a", "b", "c1", "7", "10", "x y", "q", "zz", "", "0"]


def _rand_text(rng, maxrows=6, blanks=True):
    """a rectangular CSV text: k fields per line, distinct non-empty header fields, optional blank lines / missing final
    terminator / \\r\\n; the header text may be a prefix of a data row"""
    k = rng.randint(1, 3)
    hdr = rng.sample(["a", "b", "c1", "q", "zz", "1", "7", "10"], k)
    n = rng.randint(0, maxrows)
    lines = [",".join(hdr)]
    for _ in range(n):
        row = [rng.choice(_FIELD) for _ in range(k)]
        if k == 1 and row[0] in ("", ):
            row[0] = "e"
        if rng.random() < 0.15:
            row = list(hdr)                # a data row equal to the header
        lines.append(",".join(row))
    if blanks:
        for _ in range(rng.choice([0, 0, 0, 1, 2])):
            lines.insert(rng.randint(0, len(lines)), rng.choice(["", "", " ", "\t"]))
    nl = "\r\n" if rng.random() < 0.1 else "\n"
    text = nl.join(lines) + (nl if rng.random() < 0.85 else "")
    if rng.random() < 0.03:
        text = ""
    return text


def _all_texts(alphabet, maxlen):
    for n in range(maxlen + 1):
        for t in itertools.product(alphabet, repeat=n):
            yield "".join(t)


def _rectangular(text):
    ls = [ln for ln in text.split("\n") if ln.strip(" \t\r")]
    return len({ln.count(",") for ln in ls}) <= 1


def _gen_pd_line(ctx):
    rng = ctx.rng
    for _ in range(ctx.n(260, 2600)):
        yield "pd_line", {"text": _rand_text(rng), "kw": _rand_kw(rng)}
    if ctx.thorough():
        # exhaustive: every rectangular text of <= 6 bytes over {h, 1, ',', '\n'} x the keyword combinations
        for t in _all_texts("h1,\n", 6):
            if _rectangular(t):
                for kw in (["absent", False, 0], [0, True, 0], ["none", False, 0], ["absent", True, 0], [1, False, 0], ["absent", False, 1]):
                    yield "pd_line", {"text": t, "kw": kw}


def _gen_header_row(ctx):
    rng = ctx.rng
    for _ in range(ctx.n(120, 1200)):
        n = rng.randint(0, 7)
        lines = [rng.choice(["", "", " ", "\t", "\r", "a", "1,2", "x"]) for _ in range(n)]
        yield "header_row", {"lines": lines, "firstrow": rng.randint(0, 3), "header": rng.randint(0, 3)}
    if ctx.thorough():
        for n in range(0, 6):
            for pat in itertools.product(["", "a"], repeat=n):
                for fr in range(0, 3):
                    for h in range(0, 3):
                        yield "header_row", {"lines": list(pat), "firstrow": fr, "header": h}


def _gen_block_kw(ctx):
    for h in _HDRS:
        for names in (False, True):
            if h == "infer" and names:
                continue
            for skip in (0, 2):
                for first in (True, False):
                    for last in (True, False):
                        yield "block_kw", {"kw": [h, names, skip], "is_first": first, "is_last": last, "skipfooter": last != first}


def _gen_header_bytes(ctx):
    rng = ctx.rng
    for _ in range(ctx.n(120, 1200)):
        yield "header_bytes", {"text": _rand_text(rng, maxrows=4), "kw": _rand_kw(rng), "bs": rng.choice([None, None, 1, 3, 6, 50])}


def _gen_blocks(ctx):
    rng = ctx.rng
    # the combinations the theorems name, several blocks AND several files, blocksizes of a few bytes
    fixed = ["a,b\n1,2\n3,4\n5,6\n", "a,b\n7,8\n\n9,10\n"]
    for kw in (["absent", False, 0], [0, False, 0], ["none", False, 0], ["absent", True, 0], [0, True, 0], ["none", True, 0]):
        for bs in (None, 1, 3, 5, 9):
            yield "blocks", {"files": fixed, "kw": kw, "bs": bs}
    yield "blocks", {"files": ["\na\n1\n2\n3\n"], "kw": ["absent", False, 0], "bs": 4}      # blank first line (fixed e673923)
    yield "blocks", {"files": ["123\n4\n"], "kw": ["none", False, 0], "bs": 1}             # rowless block, header=None (fixed af2d511)
    for _ in range(ctx.n(330, 3300)):
        nf = rng.choice([1, 1, 2, 3])
        first = _rand_text(rng, maxrows=5, blanks=rng.random() < 0.5)
        files = [first]
        hdr_line = next((ln for ln in first.split("\n") if ln.strip(" \t\r")), "a")
        k = hdr_line.count(",") + 1
        for _ in range(nf - 1):
            rows = [",".join(rng.choice(_FIELD[:8]) for _ in range(k)) for _ in range(rng.randint(0, 4))]
            files.append("\n".join([hdr_line.rstrip("\r")] + rows) + "\n")
        kw = _rand_kw(rng, matrix_only=rng.random() < 0.6)
        yield "blocks", {"files": files, "kw": kw, "bs": rng.choice([None, 1, 2, 3, 4, 5, 7, 10, 16, 40])}
    if ctx.thorough():
        # exhaustive small space: every rectangular file of <= 5 bytes over {h, 1, ',', '\n'} x every blocksize x 4 keyword sets
        for t in _all_texts("h1,\n", 5):
            if t and _rectangular(t):
                for bs in range(1, len(t) + 1):
                    for kw in (["absent", False, 0], [0, True, 0], ["none", False, 0], ["absent", True, 0]):
                        yield "blocks", {"files": [t], "kw": kw, "bs": bs}


def _gen_to_csv(ctx):
    rng = ctx.rng
    for _ in range(ctx.n(60, 600)):
        n = rng.randint(0, 7)
        single = rng.random() < 0.4
        yield "to_csv", {"n": n, "k": rng.randint(1, 3), "cuts": U.rand_cuts(rng, n, maxparts=rng.choice([1, 2, 4]), p_empty=0.5),
                         "single_file": single, "hfpo": rng.choice([None, None, None, True, False]),
                         "header": rng.random() < 0.8, "index": rng.random() < 0.3,
                         "name_function": None if single else rng.choice([None, "pad", "pad", "plain", "rev"]),
                         "numeric_header": rng.random() < 0.3,
                         "blocksizes": [None, rng.choice([1, 2, 3, 5, 8, 13, 30])]}


def _rand_cols(rng, nl=False):
    kinds = ["int", "float", "str", "date", "bool"]
    k = rng.randint(1, 4)
    cols = [[rng.choice(["a", "b", "1", "10", "x y", "c,d"]) + str(i), rng.choice(kinds), rng.randint(0, 30)] for i in range(k)]
    if rng.random() < 0.25:
        cols[0][0] = rng.choice(["1", "a", "10"])     # a header that is a prefix of plausible data rows
        cols[0][1] = rng.choice(["int", "str"])
    if nl:
        cols.append(["t", "strnl", rng.randint(0, 9)])
    return cols


def _gen_api(ctx):
    rng = ctx.rng
    # the header-prefix witness and a tiny-blocksize sweep on a fixed file
    for bs in [None, 1, 2, 3, 4, 5, 6, 8, 11, 16, 33]:
        yield "read_csv", {"n": 6, "cols": [["1", "int", 3]], "blocksize": bs}
    for _ in range(ctx.n(40, 1400)):
        n = rng.randint(0, 25)
        yield "read_csv", {"n": n, "cols": _rand_cols(rng), "blocksize": rng.choice([None, 1, 2, 3, 5, 7, 9, 16, 31, 64, 200, 1000]),
                           "lt": rng.choice(["\n", "\n", "\n", "\r\n"])}
    for _ in range(ctx.n(12, 400)):
        n = rng.randint(1, 20)
        yield "read_csv", {"n": n, "cols": _rand_cols(rng), "blocksize": rng.choice([None, 3, 7, 16, 40, 200]), "names": True}
    for _ in range(ctx.n(10, 300)):
        n = rng.randint(1, 12)
        yield "read_csv", {"n": n, "cols": _rand_cols(rng, nl=True), "blocksize": rng.choice([None, 4, 9, 17, 40, 10000])}
    for _ in range(ctx.n(25, 700)):
        n = rng.randint(0, 20)
        yield "roundtrip", {"n": n, "cols": _rand_cols(rng), "cuts": U.rand_cuts(rng, n, maxparts=rng.choice([1, 3, 5])),
                            "single_file": rng.random() < 0.35, "index": rng.random() < 0.4,
                            "name_function": rng.choice([None, None, "rev", "x"]),
                            "blocksize": rng.choice([None, None, 8, 50])}


def _gen_joint(ctx):
    rng = ctx.rng
    for _ in range(ctx.n(30, 300)):
        text = _rand_text(rng, maxrows=6, blanks=rng.random() < 0.3)
        hdr = next((ln for ln in text.split("\n") if ln.strip(" \t\r")), "a")
        k = hdr.count(",") + 1
        rows2 = [",".join(rng.choice(_FIELD[:8]) for _ in range(k)) for _ in range(rng.randint(1, 6))]
        hdr2 = hdr.rstrip("\r") if rng.random() < 0.5 else ",".join("n%d" % i for i in range(k))     # other column names
        text2 = "\n".join([hdr2] + rows2) + "\n"
        if rng.random() < 0.4:
            # the same length (and, written within the clock resolution, the same mtime) as before: the rows rotated
            ls = text.split("\n")
            body = [ln for ln in ls[1:] if ln != ""]
            if len(body) > 1 and len(set(body)) > 1 and "\r" not in text and text.endswith("\n") and ls[0].strip():
                text2 = "\n".join([ls[0]] + body[1:] + body[:1]) + "\n"
        variants = [[rng.choice([None, 1, 2, 3, 5, 8, 13]), _rand_kw(rng, matrix_only=True)] for _ in range(rng.randint(2, 3))]
        if rng.random() < 0.5:                    # same keywords, only the blocksize differs
            for v in variants[1:]:
                v[1] = list(variants[0][1])
        yield "joint", {"text": text, "text2": text2, "variants": variants, "bs2": rng.choice([None, 2, 4, 7])}
    for _ in range(ctx.n(12, 120)):
        n = rng.randint(0, 7)
        yield "joint_write", {"n": n, "k": rng.randint(1, 3), "cuts": U.rand_cuts(rng, n, maxparts=rng.choice([2, 3, 4]), p_empty=0.4),
                              "cuts2": U.rand_cuts(rng, n, maxparts=rng.choice([1, 2, 5]), p_empty=0.4)}


def _interleave(streams):
    """round-robin over the generator streams, so that a deadline cuts all of them proportionally"""
    its = [iter(s) for s in streams]
    while its:
        nxt = []
        for it in its:
            try:
                yield next(it)
                nxt.append(it)
            except StopIteration:
                pass
        its = nxt


def generate(ctx):
    yield from _gen_block_kw(ctx)           # exhaustive, ~0.3 ms each
    # each stream draws from ctx.rng lazily; the interleaving order is deterministic for a seed
    yield from _interleave([_gen_pd_line(ctx), _gen_blocks(ctx), _gen_header_row(ctx), _gen_header_bytes(ctx),
                            _gen_to_csv(ctx), _gen_api(ctx), _gen_joint(ctx)])
