"""C22 — array reductions and scans equal NumPy for every chunking and split_every.

Model:    lean/DaskModel/Model/ArrayReduce.lean (K1: partition_all / partial_reduce / _tree_reduce, the
          per-block chunk/combine/aggregate functions, arg-reductions, top-k) and
          lean/DaskModel/Model/BlockScan.lean (K2: sequential cumreduction, Blelloch sweeps).
Theorems: lean/DaskModel/Props/C22.lean (+ Lemmas/ArrayReduce.lean, Lemmas/BlockScan.lean);
          extension round: lean/DaskModel/Props/C22xNd.lean (+ Model/ArgNd.lean, Lemmas/GridReduceKd.lean, Lemmas/ArgNd.lean):
          var/std over several axes at once, argmin/argmax(axis=None) on n-d arrays; sections `momentnd`, `argnd`
Tie:      function level — (plan) the key structure of every partial_reduce layer of the real graph vs
          `treePlan`; (depth) dask's float depth formula satisfies the theorem hypothesis n ≤ k^depth;
          (blsched) the binop tasks of prefixscan_blelloch's graph vs `schedule`, and `schedOk`;
          API level — all chunkings of small arrays × axis tuples × keepdims × split_every × dtypes vs
          NumPy and (integer data) vs the Lean tree/scan models executed by the driver.
"""
from __future__ import annotations

import itertools
import math
import warnings

import numpy as np

from sexp import Sym
from props import _reduce_util as U

PROP = "C22"
READY = True
DRIVER = "dm_reduce"
LEAN_MODULES = ["DaskModel.Props.C22",   # the kernel theorems of Lemmas/* are re-exported there (K1_*, K2_*)
                "DaskModel.Props.C22xNd"]  # extension round: var / arg-reductions over several axes at once
CASE_TIMEOUT_S = 20
LEVEL_TEXT = (
    "Proved in Lean 4 (no size bound). K1 treeReduce_eq_fold — for every block list, every group size k (split_every) and "
    "every depth with n ≤ k^depth the combine/aggregate tree of _tree_reduce/partial_reduce returns exactly one block equal "
    "to the flat aggregate whenever combine/aggregate are homomorphisms on concatenation; hence split_every_irrelevant. The "
    "depth loop of _tree_reduce is inside the model (treeDepth: running maximum over the reduced axes of the exact "
    "ceil(log_k n)): axesOk_treeDepth (it satisfies n_i ≤ k_i^depth on every reduced axis, group sizes ≥ 2), treeDepth_least, "
    "and the tree theorems restated with dask's own depth or any larger one and no depth hypothesis (tree_dask_depth, "
    "sum_nd_dask_depth, nd_tree_dask_depth); treeDepthLast_refuted: a depth taken from the last reduced axis only ends in two "
    "aggregate tasks on one output key (4 instead of 12 on a 6×2 grid). Instances proved equal to the NumPy specification for "
    "every blocking: sum, prod, any, all, mean as (total,n), min/max with dask's empty-chunk rule, argmin/argmax returning the "
    "FIRST flat index of the extremum (argmin_eq_numpy_all / argmax_eq_numpy_all: 1-d / raveled order, empty blocks included), "
    "top-k (topk_eq_sort_take), var/std/moment(order 2) over exact rationals (var_eq_numpy: the k-way Chan–Pébay merge of "
    "moment_combine = NumPy's two-pass Σ(x-mean)²/(n-ddof), empty blocks included, undefined iff n ≤ ddof; nanvar_eq_numpy; "
    "var_chunking_irrelevant), nansum/nanprod/nanmin/nanmax/nanmean_eq_numpy (NaN entries dropped block by block). Several axes at once: gridReduce_eq_fold and sum/prod/any/all/mean/min/max_nd_eq_numpy (any "
    "commutative monoid, every grid of blocks, per-axis split_every; min/max through gridReduce_mapGrid); var/std over several "
    "axes at once (var_nd_eq_numpy, var_nd_dask_depth, nanvar_nd_eq_numpy: the order-2 moment partials over an n-d block grid, "
    "both keepdims settings — the tree over the partials is the image under moment_chunk of the tree over the commutative monoid "
    "of bags of numbers, gridReduce_eq_fold_kd being the keepdims=True twin of gridReduce_eq_fold); argmin/argmax with axis=None "
    "on n-d arrays (argmin_nd_eq_numpy / argmax_nd_eq_numpy, *_dask_depth: for EVERY chunking of every axis, zero-length chunks "
    "included, the per-block (value, raveled global index) partials computed as arg_chunk does — unravel in the block shape, add "
    "the block offset, ravel_multi_index in the total shape — merged by arg_combine/arg_agg over the n-d tree give the value and "
    "the FIRST C-order flat index of the extremum — argmin/argmax_nd_first_index: every earlier element of the ravel is strictly "
    "worse, no later one is better, and the tree raises iff the array is empty; blocks_tile_array: the blocks enumerate every "
    "element exactly once). K2: sequential "
    "cumreduction equals the global scan for every chunking including zero-length blocks (seqScan_eq_scan); Blelloch: the "
    "interval checker is sound (blelloch_sound) and dask's schedule is accepted for EVERY n_vals (blelloch_schedule_ok), hence "
    "cumsum/cumprod(method='blelloch') = NumPy for every chunking (cumsum_blelloch_eq_numpy, any monoid). VALIDATED, not "
    "proved: float summation order (tolerance), moments of order ≥ 3, nanstd / nanarg* / "
    "nancumsum / nancumprod, argtopk (indices checked against the values), median/quantile/percentile glue (rechunk to one block + NumPy), "
    "the n-d theorems reduce ALL axes of the model grid (kept axes are pointwise: one instance per kept cell), dtype rules, and that a reduction leaves the blocks it reads untouched (section "
    "'shared': sequences / persisted / joint computes / x - f(x, keepdims=True) after median, quantile, percentile, topk …)."
)
LEVEL_NOTE = (
    "Trusted: Lean kernel + standard axioms; NumPy kernels on one block (np.sum, np.min, np.argmin, np.partition, np.cumsum, "
    "np.median …) and NumPy as the reference; np.sqrt for std. The harness replicates dask's split_every normalisation "
    "(max(int(k**(1/naxes)),2)) to drive the model. The float math.ceil(math.log(n, k)) is compared with the exact treeDepth "
    "on every generated case and on all boundary n ≤ 4096: equal or one larger (a larger depth is covered by the theorems: "
    "axesOk_mono), never smaller."
)
TECHNIQUE = "Lean 4 proof (structural induction over the reduction tree / scan schedule; field arithmetic over ℚ for the moment merge) + differential correspondence (graph structure, per-function and end-to-end values) against dask and NumPy"
ASSUMPTIONS = [
    "a block is represented by its raveled element list; axes that are not reduced are pointwise (sliced away by the harness)",
    "np.partition/np.argpartition results are compared as multisets (top-k partial results are kept sorted in the model)",
    "depth computed by dask (math.ceil(math.log(n, k)), float) is treeDepth or treeDepth + 1 — checked on every generated case and on all boundary n ≤ 4096",
    "2 ** math.ceil(math.log2(n_vals // 2)) (float) equals the exact smallest power of two ≥ n_vals // 2 used by the model — the real schedule is diffed against the model for every n ≤ 40 (quick) / 300 (thorough)",
    "var/std theorems are over exact rationals; the float evaluation of the same formulas is compared within tolerance",
    "n-d arg-reductions: the array is a function of the global multi-index; the block handed to arg_chunk holds the values at blockIdx in the block's own C order (diffed against the real blocks), offsets = zip(accumulate(add, bd[:-1], 0), bd) per axis (diffed against the offset_info of the real arg-reduce layer)",
]
TRUSTED = ["NumPy per-block kernels and NumPy as oracle", "harness replica of split_every normalisation"]


# ---------------------------------------------------------------------------------------------
# helpers
# ---------------------------------------------------------------------------------------------

def _da():
    import dask
    import dask.array as da
    dask.config.set(scheduler="sync")
    return da


def enc_arr(a):
    a = np.asarray(a)
    if a.dtype.kind in "iub":
        return {"dtype": str(a.dtype), "shape": list(a.shape), "data": [int(v) for v in a.ravel()]}
    out = []
    for v in a.ravel():
        v = float(v)
        out.append("nan" if v != v else ("inf" if v == float("inf") else ("-inf" if v == float("-inf") else v)))
    return {"dtype": str(a.dtype), "shape": list(a.shape), "data": out}


def dec_arr(d):
    if d["dtype"].startswith("float"):
        vals = [float(v) for v in d["data"]]
    else:
        vals = d["data"]
    return np.array(vals, dtype=d["dtype"]).reshape(d["shape"])


def eff_split(split_every, axes):
    """dask's normalisation of split_every (replicated; see LEVEL_NOTE)."""
    import dask
    se = split_every or dask.config.get("split_every", 4)
    if isinstance(se, dict):
        return {k: se.get(k, 2) for k in axes}
    n = max(int(se ** (1 / (len(axes) or 1))), 2)
    return dict.fromkeys(axes, n)


def dec_split(se):
    if isinstance(se, dict):
        return {int(k): v for k, v in se.items()}
    return se


def tree_layers(arr):
    """The partial_reduce layers that produced `arr` (first round first): list of
    {output key coords: [input key coords in lol order]}, plus the name of the tree's input array."""
    layers = []
    name = arr.name
    hlg = arr.dask
    if "-aggregate-" not in name:
        # std = sqrt(var): walk back to the aggregate layer of the underlying reduction
        cands = [n for n in hlg.layers if "-aggregate-" in n]
        if len(cands) == 1:
            name = cands[0]
    while "-partial-" in name or "-aggregate-" in name:
        layer = dict(hlg.layers[name])
        rnd, src = {}, None
        for key, task in layer.items():
            ins = U.lol_flatten(task[1])
            src = ins[0][0]
            rnd[tuple(key[1:])] = [tuple(k[1:]) for k in ins]
        layers.append(rnd)
        name = src
    layers.reverse()
    return layers, name


def norm_axes(axis, ndim):
    if axis is None:
        return tuple(range(ndim))
    if isinstance(axis, int):
        return (axis % ndim,)
    return tuple(sorted(a % ndim for a in axis))


def lean_split(ndim, split):
    return [split[i] if i in split else None for i in range(ndim)]


def check_plan(ctx, what, res, numblocks, axes, keepdims, split_every):
    """Diff the graph structure of the real reduction `res` against treePlan; evaluate the oracle
    (groups partition the previous round; one block left on every reduced axis; n ≤ k^depth)."""
    layers, _src = tree_layers(res)
    depth = len(layers)
    split = eff_split(split_every, axes)
    sp = lean_split(len(numblocks), split)
    model = ctx.lean(Sym("plan"), list(numblocks), sp, bool(keepdims), depth)
    impl = [[[list(k), [list(c) for c in ins]] for k, ins in rnd.items()] for rnd in layers]
    ctx.eq(what + ": partial_reduce key structure", model, impl)
    # oracle on the real graph
    prev = set(itertools.product(*[range(n) for n in numblocks]))
    for r, rnd in enumerate(layers):
        used = [c for ins in rnd.values() for c in ins]
        if sorted(used) != sorted(prev):
            ctx.fail(f"{what}: round {r} does not consume every input block exactly once",
                     observed={"used": sorted(used)[:20], "avail": sorted(prev)[:20]})
        prev = set(rnd.keys())
    for ax in axes:
        if numblocks[ax] > split[ax] ** depth:
            ctx.fail(f"{what}: depth {depth} too small: {numblocks[ax]} blocks > {split[ax]}^{depth}",
                     observed=depth)
    # the depth loop itself: Lean `treeDepth` (exact ceil(log_k n), running maximum over the reduced axes); dask's float
    # formula may overshoot by one at exact powers — never undershoot
    if all(k >= 2 for k in split.values()):
        md, md_last = ctx.lean(Sym("treedepth"), sp, list(numblocks))
        # the float formula itself (what the loop evaluates): the real tree must have exactly that many levels
        fl = max([1] + [math.ceil(math.log(numblocks[i], split[i])) for i in split if split[i] != 1])
        if depth != fl:
            ctx.fail(f"the tree has {depth} levels, the depth loop max(1, ceil(log(n_i, k_i))) gives {fl}", observed=depth, expected=fl)
        if depth not in (md, md + 1):
            ctx.fail(f"{what}: depth {depth} of the real tree is not the depth of the _tree_reduce loop ({md}, or one more "
                     "through float rounding)", observed=depth, expected=md)
        elif depth == md + 1:
            ctx.branch("float-depth-overshoot")
        if md_last < md:
            ctx.branch("an earlier reduced axis needs more levels than the last one")
    if depth > 1:
        ctx.branch(f"depth={min(depth, 4)}")
    return depth, split


def lean_grid_reduce(ctx, op, a, chunks, axes, split, depth):
    """Run the Lean tree on every kept cell of integer array `a`; returns an ndarray of python objects
    (shape = kept axes) or the string 'raised'."""
    ndim = a.ndim
    kept = [i for i in range(ndim) if i not in axes]
    nb_r = [len(chunks[i]) for i in axes]
    sp_r = [split[i] for i in axes]
    kept_shape = tuple(a.shape[i] for i in kept)
    out = np.empty(kept_shape, dtype=object)
    for cell in itertools.product(*[range(n) for n in kept_shape]):
        sl = [slice(None)] * ndim
        for i, c in zip(kept, cell):
            sl[i] = c
        sub = a[tuple(sl)]
        blocks = [[int(v) for v in b.ravel()] for _, _, b in U.blocks_c_order(sub, [chunks[i] for i in axes])]
        r = ctx.lean(Sym("treduce"), op, nb_r, sp_r, False, depth, blocks)
        if r[0] != "ok":
            return "raised"
        if len(r) != 2:
            return "shape"
        out[cell] = r[1][1]
    return out


# ---------------------------------------------------------------------------------------------
# function level
# ---------------------------------------------------------------------------------------------

def case_plan(ctx, inp):
    da = _da()
    nb = inp["numblocks"]
    axes = norm_axes(inp["axis"], len(nb))
    se = dec_split(inp["split_every"])
    x = da.ones(tuple(nb), chunks=1)
    res = getattr(da, inp.get("op", "sum"))(x, axis=inp["axis"] if inp["axis"] is None else tuple(axes),
                                            keepdims=inp["keepdims"], split_every=se)
    depth, split = check_plan(ctx, "plan", res, nb, axes, inp["keepdims"], se)
    exp_nb = tuple((1 if i in axes else n) for i, n in enumerate(nb) if inp["keepdims"] or i not in axes)
    if tuple(res.numblocks) != exp_nb:
        ctx.fail("result numblocks differ from the declared reduction result", observed=res.numblocks, expected=exp_nb)
    if isinstance(se, dict):
        ctx.branch("split_every=dict")
    if len(axes) > 1:
        ctx.branch("multi-axis")


def case_depth(ctx, inp):
    """dask's depth for n blocks and split_every=k satisfies the hypothesis of treeReduce_eq_fold."""
    da = _da()
    n, k = inp["n"], inp["k"]
    x = da.ones(n, chunks=1)
    res = x.sum(split_every=k)
    layers, _ = tree_layers(res)
    depth = len(layers)
    exact = 0
    while k ** exact < n:
        exact += 1
    exact = max(exact, 1)
    if n > k ** depth:
        ctx.fail(f"depth {depth} violates n ≤ k^depth for n={n}, k={k}", observed=depth, expected=exact)
    if depth > exact + 1:
        ctx.fail(f"depth {depth} is more than one above ceil(log_k n) = {exact}", observed=depth, expected=exact)
    if res.numblocks != ():
        ctx.fail("scalar reduction does not end in a single block", observed=res.numblocks)
    if depth != exact:
        ctx.branch("float-depth-overshoot")
    elif depth > 1:
        ctx.branch("depth>1")
    last = layers[-1]
    if len(last) != 1:
        ctx.fail("final aggregate round has more than one output key", observed=len(last))


def _slot_of(key, name, batches_prefix):
    # key of prefix_vals[i]: either (batches.name, i) or (name, i, level, i)
    if key[0] == name and len(key) == 4:
        return key[3]
    return key[1]


def case_blsched(ctx, inp):
    da = _da()
    n = inp["n"]           # number of blocks on the scan axis
    x = da.ones(n, chunks=1)
    c = da.cumsum(x, axis=0, method="blelloch")
    layer = dict(c.dask.layers[c.name])
    steps, finals = [], {}
    for key, task in layer.items():
        if len(key) == 4:
            _, idx, level, i = key
            left, right = task[1], task[2]
            ls, rs = _slot_of(left, c.name, None), _slot_of(right, c.name, None)
            if rs != i or idx != i:
                ctx.fail("blelloch task does not update its own slot", observed=[list(map(str, key))])
            steps.append([level, i, i - ls])
        elif len(key) == 2 and key[1] >= 1:
            finals[key[1]] = task[3]
    model = ctx.lean(Sym("blsched"), max(n - 1, 0))
    ctx.eq("prefixscan_blelloch binop tasks (level, i, stride)", model, steps)
    ok = ctx.lean(Sym("schedok"), max(n - 1, 0))
    if ok is not True:
        ctx.fail(f"interval checker rejects the Blelloch schedule for n_vals={n - 1}", observed=ok)
    # every final block b >= 1 is combined with the *last* value written to slot b-1
    lastkey = {}
    for key in layer:
        if len(key) == 4:
            lastkey[key[3]] = key
    for b, val in finals.items():
        want = lastkey.get(b - 1)
        if want is not None and tuple(val) != tuple(want):
            ctx.fail("final block combined with a stale prefix value", observed=[b, str(val), str(want)])
    if n - 1 >= 2 and (n - 1) & (n - 2):
        ctx.branch("n_vals not a power of two")
    elif n - 1 >= 2:
        ctx.branch("n_vals power of two")


# ---------------------------------------------------------------------------------------------
# API level
# ---------------------------------------------------------------------------------------------

PLAIN = ["sum", "prod", "min", "max", "any", "all", "mean", "var", "std"]
NANOPS = ["nansum", "nanprod", "nanmin", "nanmax", "nanmean", "nanvar", "nanstd"]
LEAN_OPS = {"sum", "prod", "min", "max", "any", "all", "mean"}


def _rtol(*xs):
    return 2e-4 if any(np.asarray(x).dtype in (np.float32, np.float16, np.complex64) for x in xs) else 1e-9


def _check_dtype(ctx, what, lazy, got, exp):
    e = np.asarray(exp).dtype
    if np.asarray(got).dtype != e:
        ctx.fail(f"{what}: computed dtype differs from NumPy's", observed=str(np.asarray(got).dtype), expected=str(e))
    elif lazy is not None and lazy.dtype != e:
        ctx.fail(f"{what}: lazy dtype differs from the computed / NumPy dtype", observed=str(lazy.dtype), expected=str(e))


def _scale(op, a):
    s = U.fsum_abs(a)
    if op in ("var", "nanvar", "moment"):
        return max(1.0, s * s)
    if op in ("prod", "nanprod"):
        fin = np.abs(np.asarray(a, dtype=float))
        fin = fin[np.isfinite(fin)]
        return max(1.0, float(np.prod(np.maximum(fin, 1.0))))
    return max(1.0, s)


def case_reduce(ctx, inp):
    da = _da()
    a = dec_arr(inp["a"])
    chunks = tuple(tuple(c) for c in inp["chunks"])
    op, axis, kd, se = inp["op"], inp["axis"], inp["keepdims"], dec_split(inp["split_every"])
    axes = norm_axes(axis, a.ndim)
    ax_arg = None if axis is None else (axis if isinstance(axis, int) else tuple(axis))
    x = da.from_array(a, chunks=chunks)
    kw = {}
    if inp.get("dtype"):
        kw["dtype"] = inp["dtype"]
    if op == "moment":
        kw["order"] = inp.get("order", 3)

        def ref():
            m = a.mean(axis=ax_arg, keepdims=True)
            return ((a - m) ** kw["order"]).mean(axis=ax_arg, keepdims=kd)
    elif op in ("var", "std", "nanvar", "nanstd"):
        kw["ddof"] = inp.get("ddof", 0)

        def ref():
            return getattr(np, op)(a, axis=ax_arg, keepdims=kd, **kw)
    else:
        def ref():
            return getattr(np, op)(a, axis=ax_arg, keepdims=kd, **kw)
    holder = {}

    def impl():
        r = getattr(da, op)(x, axis=ax_arg, keepdims=kd, split_every=se, **kw)
        holder["r"] = r
        return U.sync_compute(r)

    got, exp = U.run_both(impl, ref)
    exact = a.dtype.kind in "iub" and op in ("sum", "prod", "min", "max", "any", "all") and not inp.get("dtype")
    if exp[0] == "raised":
        if got[0] != "raised":
            ctx.fail(f"{op}: NumPy raises {exp[1]} but dask returned a value", observed=str(got[1]))
        ctx.branch("numpy-raises")
        return
    if got[0] == "raised":
        ctx.fail(f"{op}: dask raised but NumPy returns a value: {got[1]}", observed=got[1], expected=np.asarray(exp[1]).tolist())
        return
    gv, ev = got[1], exp[1]
    if op in ("var", "std", "nanvar", "nanstd") and kw.get("ddof"):
        # degrees of freedom <= 0: NumPy warns and returns nan or inf depending on rounding (np.nanvar forces nan, np.var
        # divides by max(n - ddof, 0)); the value is undefined, only its position is compared
        with warnings.catch_warnings():
            warnings.simplefilter("ignore")
            live = ~np.isnan(a.astype(float)) if op.startswith("nan") else np.ones(a.shape, dtype=bool)
            undefined = np.sum(live, axis=ax_arg, keepdims=kd) - kw["ddof"] <= 0
            if np.any(undefined) and np.shape(gv) == np.shape(ev) == np.shape(undefined):
                gv = np.where(undefined, np.nan, np.asarray(gv, dtype=float))
                ev = np.where(undefined, np.nan, np.asarray(ev, dtype=float))
                ctx.branch("dof <= 0 cells (undefined) not compared")
    if not U.same_values(gv, ev, exact, _scale(op, a), _rtol(got[1], exp[1], a)):
        ctx.fail(f"{op} differs from NumPy", observed=np.asarray(got[1]).tolist(), expected=np.asarray(exp[1]).tolist())
    if op != "moment":
        _check_dtype(ctx, op, holder["r"], got[1], exp[1])
    if a.dtype not in (np.int64, np.float64, np.bool_):
        ctx.branch("dtype=" + str(a.dtype))
    if inp.get("dtype"):
        ctx.branch("dtype= argument")
    r = holder["r"]
    if tuple(r.shape) != np.asarray(exp[1]).shape:
        ctx.fail(f"{op}: lazy shape differs from NumPy's", observed=list(r.shape), expected=list(np.asarray(exp[1]).shape))
    # graph structure + Lean value model
    if op != "moment" or kw["order"] >= 2:
        depth, split = check_plan(ctx, op, r, [len(c) for c in chunks], axes, kd, se)
        if op in LEAN_OPS and a.dtype.kind in "iu" and a.size <= 48 and not inp.get("dtype"):
            m = lean_grid_reduce(ctx, Sym(op), a, chunks, axes, split, depth)
            if isinstance(m, str):
                ctx.disagree(f"{op}: Lean tree model {m} but dask computed a value", m, np.asarray(got[1]).tolist())
            else:
                impl_v = np.asarray(U.sync_compute(getattr(da, op)(x, axis=ax_arg, keepdims=False, split_every=se)))
                if op == "mean":
                    mv = np.array([float(p[0]) / float(p[1]) if p[1] else float("nan") for p in m.ravel()]).reshape(m.shape)
                    if not U.same_values(impl_v, mv, False, _scale(op, a)):
                        ctx.disagree("mean: Lean (total, n) tree vs dask", mv.tolist(), impl_v.tolist())
                else:
                    mv = np.array([v for v in m.ravel()], dtype=object).reshape(m.shape)
                    ctx.eq(f"{op}: Lean tree value vs dask", [None if v is None else (bool(v) if op in ("any", "all") else int(v)) for v in mv.ravel()],
                           [(bool(v) if op in ("any", "all") else int(v)) for v in impl_v.ravel()])
                ctx.branch("lean-value")
    if any(0 in c for c in chunks):
        ctx.branch("zero-length chunk")
    if any(len(c) > 1 and len(set(c)) > 1 for c in chunks):
        ctx.branch("irregular chunks")
    if a.dtype.kind == "f" and np.isnan(a).any():
        ctx.branch("nan data")
    if isinstance(se, dict):
        ctx.branch("split_every=dict")


def case_arg(ctx, inp):
    da = _da()
    a = dec_arr(inp["a"])
    chunks = tuple(tuple(c) for c in inp["chunks"])
    op, axis, kd, se = inp["op"], inp["axis"], inp["keepdims"], dec_split(inp["split_every"])
    x = da.from_array(a, chunks=chunks)
    holder = {}

    def impl():
        holder["r"] = getattr(da, op)(x, axis=axis, keepdims=kd, split_every=se)
        return U.sync_compute(holder["r"])

    got, exp = U.run_both(impl, lambda: getattr(np, op)(a, axis=axis, keepdims=kd))
    empty_chunk = any(0 in c for c in chunks)
    if exp[0] == "raised":
        if got[0] != "raised":
            ctx.fail(f"{op}: NumPy raises {exp[1]} but dask returned {got[1]!r}", observed=str(got[1]))
        ctx.branch("numpy-raises")
        return
    if got[0] == "raised":
        ctx.fail(f"{op}: dask raised but NumPy returns a value: {got[1]}", observed=got[1], expected=np.asarray(exp[1]).tolist())
        return
    if not U.same_values(got[1], exp[1], True):
        ctx.fail(f"{op} differs from NumPy (first occurrence expected)", observed=np.asarray(got[1]).tolist(), expected=np.asarray(exp[1]).tolist())
    _check_dtype(ctx, op, holder["r"], got[1], exp[1])
    axes = norm_axes(axis, a.ndim)
    nb = [len(c) for c in chunks]
    depth, split = check_plan(ctx, op, holder["r"], nb, axes, kd, se)
    # Lean model (integer data, plain argmin/argmax)
    if a.dtype.kind in "iu" and op in ("argmin", "argmax") and a.size <= 48:
        which = Sym("min" if op == "argmin" else "max")
        if axis is None or a.ndim == 1:
            blocks = [[list(b.shape), list(off), [int(v) for v in b.ravel()]] for _, off, b in U.blocks_c_order(a, chunks)]
            r = ctx.lean(Sym("argreduce"), which, list(a.shape), nb, [split[i] for i in range(a.ndim)], depth, blocks)
            mv = r[1][1][1] if r[0] == "ok" and len(r) == 2 else r
            ctx.eq(f"{op}: Lean arg tree vs dask", mv, int(np.asarray(got[1]).ravel()[0]))
        else:
            ax = axes[0]
            kept = [i for i in range(a.ndim) if i != ax]
            res = np.asarray(U.sync_compute(getattr(da, op)(x, axis=axis, split_every=se)))
            for cell in itertools.product(*[range(a.shape[i]) for i in kept]):
                sl = [slice(None)] * a.ndim
                for i, c in zip(kept, cell):
                    sl[i] = c
                line = a[tuple(sl)]
                blocks = [[[len(b)], [off[0]], [int(v) for v in b]] for _, off, b in U.blocks_c_order(line, [chunks[ax]])]
                r = ctx.lean(Sym("argreduce"), which, [len(line)], [nb[ax]], [split[ax]], depth, blocks)
                mv = r[1][1][1] if r[0] == "ok" and len(r) == 2 else r
                ctx.eq(f"{op}: Lean arg tree vs dask (axis line)", mv, int(res[cell]))
        ctx.branch("lean-value")
    vals = a.ravel()
    if len(set(vals.tolist())) < len(vals):
        ctx.branch("ties")
    if axis is None and a.ndim > 1:
        ctx.branch("ravel n-d")
    if any(0 in c for c in chunks):
        ctx.branch("zero-length chunk")


def case_cum(ctx, inp):
    da = _da()
    a = dec_arr(inp["a"])
    chunks = tuple(tuple(c) for c in inp["chunks"])
    op, axis, method = inp["op"], inp["axis"], inp["method"]
    x = da.from_array(a, chunks=chunks)
    kw = {"dtype": inp["dtype"]} if inp.get("dtype") else {}
    holder = {}

    def impl():
        holder["r"] = getattr(da, op)(x, axis=axis, method=method, **kw)
        return U.sync_compute(holder["r"])

    got, exp = U.run_both(impl, lambda: getattr(np, op)(a, axis=axis, **kw))
    zero = any(0 in c for c in chunks)
    if exp[0] == "raised":
        if got[0] != "raised":
            ctx.fail(f"{op}: NumPy raises but dask returned", observed=str(got[1]))
        return
    if got[0] == "raised":
        sig = "cum:axis=None:zero-length-chunk:reshape" if (zero and axis is None and a.ndim > 1) else None
        ctx.fail(f"{op}[{method}]: dask raised but NumPy returns a value: {got[1]}", sig=sig, observed=got[1])
        return
    exact = a.dtype.kind in "iub" and not kw
    if not U.same_values(got[1], exp[1], exact, _scale("prod" if "prod" in op else "sum", a), _rtol(got[1], exp[1], a)):
        ctx.fail(f"{op}[{method}] differs from NumPy", observed=np.asarray(got[1]).tolist(), expected=np.asarray(exp[1]).tolist())
    _check_dtype(ctx, f"{op}[{method}]", holder["r"], got[1], exp[1])
    if tuple(holder["r"].shape) != np.asarray(exp[1]).shape:
        ctx.fail(f"{op}[{method}]: lazy shape differs from NumPy's", observed=list(holder["r"].shape), expected=list(np.asarray(exp[1]).shape))
    if kw:
        ctx.branch("dtype= argument")
    if a.ndim == 1 and exact and op in ("cumsum", "cumprod") and axis is not None:
        blocks = [[int(v) for v in b] for _, _, b in U.blocks_c_order(a, chunks)]
        r = ctx.lean(Sym("seqscan" if method == "sequential" else "blelloch"), Sym("sum" if op == "cumsum" else "prod"), blocks)
        mv = [v for b in r[1] for v in b] if r[0] == "ok" else r
        ctx.eq(f"{op}[{method}]: Lean scan model vs dask", mv, [int(v) for v in np.asarray(got[1])])
        ctx.branch("lean-value")
    if zero:
        ctx.branch("zero-length chunk")
    ctx.branch(method)


def case_topk(ctx, inp):
    da = _da()
    a = dec_arr(inp["a"])
    chunks = tuple(tuple(c) for c in inp["chunks"])
    k, axis, se, arg = inp["k"], inp["axis"], dec_split(inp["split_every"]), inp["arg"]
    x = da.from_array(a, chunks=chunks)
    srt = np.sort(a, axis=axis)
    sl = [slice(None)] * a.ndim
    if k > 0:
        sl[axis] = slice(None, None, -1)
        srt = srt[tuple(sl)]
    sl[axis] = slice(0, abs(k))
    exp = srt[tuple(sl)]
    f = da.argtopk if arg else da.topk
    holder = {}

    def impl():
        holder["r"] = f(x, k, axis=axis, split_every=se)
        return U.sync_compute(holder["r"])

    got, _ = U.run_both(impl, lambda: exp)
    name = "argtopk" if arg else "topk"
    if got[0] == "raised":
        ctx.fail(f"{name}: dask raised: {got[1]}", observed=got[1], expected=exp.tolist())
        return
    r = np.asarray(got[1])
    if arg:
        if r.shape != exp.shape:
            ctx.fail("argtopk: wrong shape", observed=list(r.shape), expected=list(exp.shape))
            return
        vals = np.take_along_axis(a, r, axis)
        if not np.array_equal(vals, exp):
            ctx.fail("argtopk: values at the returned indices are not the top-k in order", observed=r.tolist(), expected=exp.tolist())
        srt_idx = np.sort(r, axis=axis)
        dsl = [slice(None)] * a.ndim
        d1, d2 = list(dsl), list(dsl)
        d1[axis], d2[axis] = slice(1, None), slice(None, -1)
        if (srt_idx[tuple(d1)] == srt_idx[tuple(d2)]).any():
            ctx.fail("argtopk: an index is returned twice", observed=r.tolist())
    else:
        if not U.same_values(r, exp, True):
            ctx.fail("topk differs from sort+take", observed=r.tolist(), expected=exp.tolist())
        _check_dtype(ctx, "topk", holder["r"], r, exp)
        if a.ndim == 1 and a.dtype.kind in "iu":
            nb = [len(chunks[0])]
            depth, split = check_plan(ctx, name, holder["r"], nb, (0,), True, se)
            blocks = [[int(v) for v in b] for _, _, b in U.blocks_c_order(a, chunks)]
            m = ctx.lean(Sym("treduce"), [Sym("topk"), k], nb, [split[0]], True, depth, blocks)
            mv = m[1][1] if m[0] == "ok" and len(m) == 2 else m
            ctx.eq("topk: Lean tree vs dask", mv, [int(v) for v in r])
            ctx.branch("lean-value")
    if abs(k) >= a.shape[axis]:
        ctx.branch("k >= axis length")
    if abs(k) >= max(chunks[axis]):
        ctx.branch("k >= largest chunk")
    if holder.get("r") is not None and tuple(holder["r"].shape) != exp.shape:
        ctx.fail(f"{name}: lazy shape differs", observed=list(holder["r"].shape), expected=list(exp.shape))


def case_quant(ctx, inp):
    da = _da()
    a = dec_arr(inp["a"])
    chunks = tuple(tuple(c) for c in inp["chunks"])
    op, axis, kd = inp["op"], inp["axis"], inp["keepdims"]
    x = da.from_array(a, chunks=chunks)
    if "quantile" in op:
        q, method = inp["q"], inp["method"]
        impl = lambda: U.sync_compute(getattr(da, op)(x, q, axis=axis, keepdims=kd, method=method))
        ref = lambda: getattr(np, op)(a, q, axis=axis, keepdims=kd, method=method)
    else:
        impl = lambda: U.sync_compute(getattr(da, op)(x, axis=axis, keepdims=kd))
        ref = lambda: getattr(np, op)(a, axis=axis, keepdims=kd)
    got, exp = U.run_both(impl, ref)
    if exp[0] == "raised":
        if got[0] != "raised":
            ctx.fail(f"{op}: NumPy raises but dask returned", observed=str(got[1]))
        return
    if got[0] == "raised":
        ctx.fail(f"{op}: dask raised: {got[1]}", observed=got[1])
        return
    if not U.same_values(got[1], exp[1], False, U.fsum_abs(a)):
        ctx.fail(f"{op} differs from NumPy", observed=np.asarray(got[1]).tolist(), expected=np.asarray(exp[1]).tolist())
    _check_dtype(ctx, op, None, got[1], exp[1])
    if any(len(chunks[ax]) > 1 for ax in norm_axes(axis, a.ndim)):
        ctx.branch("rechunk-to-single")
    if a.dtype.kind == "f" and np.isnan(a).any():
        ctx.branch("nan data")


def _build_item(da, x, it):
    k = it["kind"]
    if k == "reduce":
        kw = {}
        if it["op"] in ("var", "std", "nanvar", "nanstd"):
            kw["ddof"] = it.get("ddof", 0)
        if it["op"] == "moment":
            kw["order"] = it.get("order", 2)
        ax = it["axis"]
        return getattr(da, it["op"])(x, axis=None if ax is None else (ax if isinstance(ax, int) else tuple(ax)),
                                     keepdims=it["keepdims"], split_every=dec_split(it["split_every"]), **kw)
    if k == "arg":
        return getattr(da, it["op"])(x, axis=it["axis"], keepdims=it["keepdims"], split_every=dec_split(it["split_every"]))
    if k == "cum":
        return getattr(da, it["op"])(x, axis=it["axis"], method=it["method"])
    if k == "topk":
        return (da.argtopk if it["arg"] else da.topk)(x, it["k"], axis=it["axis"], split_every=dec_split(it["split_every"]))
    raise KeyError(k)


def _ref_item(a, it):
    """NumPy reference of a reduce / cum item (None when there is none)"""
    k = it["kind"]
    if k == "reduce":
        ax = it["axis"]
        ax = None if ax is None else (ax if isinstance(ax, int) else tuple(ax))
        if it["op"] == "moment":
            m = a.mean(axis=ax, keepdims=True)
            return ((a - m) ** it.get("order", 2)).mean(axis=ax, keepdims=it["keepdims"])
        kw = {"ddof": it.get("ddof", 0)} if it["op"] in ("var", "std", "nanvar", "nanstd") else {}
        return getattr(np, it["op"])(a, axis=ax, keepdims=it["keepdims"], **kw)
    if k == "cum":
        return getattr(np, it["op"])(a, axis=it["axis"])
    return None


def case_joint(ctx, inp):
    """Several reductions computed in ONE graph: different parameters on the same array, the same parameters on a
    second array of the same shape/chunks but other values, on the same values with another chunking, and chains
    (a reduction of a reduction / of a scan).  Each must keep its own result (distinct names/keys)."""
    da = _da()
    a = dec_arr(inp["a"])
    chunks = tuple(tuple(c) for c in inp["chunks"])
    x = da.from_array(a, chunks=chunks)
    items = inp["items"]
    with warnings.catch_warnings():
        warnings.simplefilter("ignore")
        arrs = [_build_item(da, x, it) for it in items]
        labels = [("x", it) for it in items]
        refs = [None] * len(arrs)
        if inp.get("variants"):
            a2 = (a[(slice(None, None, -1),) * a.ndim] + (1 if a.dtype.kind in "iuf" else 0)).astype(a.dtype)
            x2 = da.from_array(a2, chunks=chunks)
            x3 = da.from_array(a, chunks=tuple(tuple(c) for c in inp["chunks2"]))
            for nm, src, arr in (("other values", x2, a2), ("other chunks", x3, a)):
                for it in items:
                    arrs.append(_build_item(da, src, it))
                    labels.append((nm, it))
                    refs.append(_ref_item(arr, it) if nm == "other values" else None)
            # chains: item j applied to the (keepdims) result of item i
            for i, it1 in enumerate(items):
                if it1["kind"] not in ("reduce", "cum") or it1.get("op") == "moment":
                    continue
                it1k = dict(it1, keepdims=True) if it1["kind"] == "reduce" else it1
                mid = _build_item(da, x, it1k)
                mid_ref = _ref_item(a, it1k)
                for it2 in items[i:i + 2]:
                    if it2["kind"] not in ("reduce", "cum") or it2.get("op") == "moment":
                        continue
                    arrs.append(_build_item(da, mid, it2))
                    labels.append(("chain", [it1k, it2]))
                    try:
                        refs.append(_ref_item(np.asarray(mid_ref), it2))
                    except Exception:   # noqa: BLE001
                        refs.append(None)
        bad = U.joint_vs_solo(arrs)
        for i in bad:
            ctx.fail("a reduction computed together with others differs from the same reduction computed alone",
                     observed={"item": labels[i], "name": arrs[i].name,
                               "same_name_as": [labels[j] for j, y in enumerate(arrs) if j != i and y.name == arrs[i].name]})
        for i, (y, r) in enumerate(zip(arrs, refs)):
            if r is None or i in bad:
                continue
            v = np.asarray(U.sync_compute(y))
            r = np.asarray(r)
            exact = a.dtype.kind in "iub" and all(t.get("op") in ("sum", "prod", "min", "max", "cumsum", "cumprod")
                                                   for t in (labels[i][1] if isinstance(labels[i][1], list) else [labels[i][1]]))
            sc = _scale("var", a) if labels[i][0] == "chain" else _scale(labels[i][1].get("op", "sum"), a)
            if v.shape != r.shape or not U.same_values(v, r, exact, sc):
                ctx.fail(f"joint/{labels[i][0]}: differs from NumPy", observed={"item": labels[i], "got": v.tolist()}, expected=r.tolist())
    names = {}
    for it, y in zip(labels, arrs):
        names.setdefault(y.name, []).append(it)
    if any(len(v) > 1 for v in names.values()):
        ctx.branch("identical items share a name")
    if inp.get("variants"):
        ctx.branch("variants+chains")
    ctx.branch(f"joint×{min(len(arrs), 6)}" + ("+" if len(arrs) > 6 else ""))


# ---------------------------------------------------------------------------------------------
# shared blocks: a reduction must not damage the blocks it reads (they may be read again)
# ---------------------------------------------------------------------------------------------

def _shared_target(da, d, t):
    k = t["kind"]
    if k == "quant":
        if "quantile" in t["op"]:
            return getattr(da, t["op"])(d, t["q"], axis=t["axis"], keepdims=t["keepdims"], method=t.get("method", "linear"))
        return getattr(da, t["op"])(d, axis=t["axis"], keepdims=t["keepdims"])
    if k == "pct":
        return da.percentile(d, t["q"], method=t.get("method", "linear"), internal_method="dask")
    if k == "topk":
        return (da.argtopk if t["arg"] else da.topk)(d, t["k"], axis=t["axis"], split_every=t.get("split_every"))
    if k == "reduce":
        return getattr(da, t["op"])(d, axis=t["axis"], keepdims=t["keepdims"], split_every=t.get("split_every"))
    if k == "arg":
        return getattr(da, t["op"])(d, axis=t["axis"], keepdims=t["keepdims"])
    if k == "cum":
        return getattr(da, t["op"])(d, axis=t["axis"], method=t["method"])
    raise KeyError(k)


def _shared_ref(a, t):
    """NumPy value of the target (None: only its side effects are examined)"""
    k = t["kind"]
    if k == "quant":
        if "quantile" in t["op"]:
            return getattr(np, t["op"])(a, t["q"], axis=t["axis"], keepdims=t["keepdims"], method=t.get("method", "linear"))
        return getattr(np, t["op"])(a, axis=t["axis"], keepdims=t["keepdims"])
    if k == "topk" and not t["arg"]:
        srt = np.sort(a, axis=t["axis"])
        sl = [slice(None)] * a.ndim
        if t["k"] > 0:
            sl[t["axis"]] = slice(None, None, -1)
            srt = srt[tuple(sl)]
        sl[t["axis"]] = slice(0, abs(t["k"]))
        return srt[tuple(sl)]
    if k in ("reduce", "arg"):
        return getattr(np, t["op"])(a, axis=t["axis"], keepdims=t["keepdims"])
    if k == "cum":
        return getattr(np, t["op"])(a, axis=t["axis"])
    return None


def _follow_ups(a):
    """(label, dask function, numpy function): other consumers of the same blocks"""
    nan = a.dtype.kind == "f"
    p = "nan" if nan else ""
    last = a.ndim - 1
    out = [
        (f"{p}cumsum(axis=0)", lambda da, d: getattr(da, p + "cumsum")(d, axis=0), lambda x: getattr(np, p + "cumsum")(x, axis=0)),
        (f"{p}cumsum(axis=0, blelloch)", lambda da, d: getattr(da, p + "cumsum")(d, axis=0, method="blelloch"),
         lambda x: getattr(np, p + "cumsum")(x, axis=0)),
        (f"{p}argmax(axis=0)", lambda da, d: getattr(da, p + "argmax")(d, axis=0), lambda x: getattr(np, p + "argmax")(x, axis=0)),
        (f"{p}argmin(axis={last})", lambda da, d: getattr(da, p + "argmin")(d, axis=last), lambda x: getattr(np, p + "argmin")(x, axis=last)),
        (f"{p}sum(axis={last})", lambda da, d: getattr(da, p + "sum")(d, axis=last), lambda x: getattr(np, p + "sum")(x, axis=last)),
        (f"{p}max(axis=0, split_every=2)", lambda da, d: getattr(da, p + "max")(d, axis=0, split_every=2),
         lambda x: getattr(np, p + "max")(x, axis=0)),
        ("the array itself", lambda da, d: d, lambda x: x),
    ]
    return out


def case_shared(ctx, inp):
    """A reduction reads blocks that other tasks read too (the graph of a from_array array holds them, a persisted
    collection holds them, an intermediate is shared inside one compute): after / together with the target
    reduction, every other reduction of the same array — and the array itself — must still equal NumPy computed from a
    pristine copy that dask never saw."""
    import dask
    da = _da()
    pristine = dec_arr(inp["a"])
    chunks = tuple(tuple(c) for c in inp["chunks"])
    t, scen = inp["target"], inp["scenario"]
    tname = t.get("op") or ("argtopk" if t.get("arg") else t["kind"])
    fus = _follow_ups(pristine)
    fus = [fus[i] for i in inp["follow"]] + [fus[-1]]

    def same(label, got, want):
        got, want = np.asarray(got), np.asarray(want)
        if got.shape != want.shape or not U.same_values(got, want, want.dtype.kind in "iub", _scale("sum", pristine) * 4 + 4,
                                                        _rtol(got, want)):
            ctx.fail(f"shared/{scen}: {label} differs from NumPy (target {tname}"
                     f"{', keepdims' if t.get('keepdims') else ''}{', single-chunk axis' if inp.get('single') else ''})",
                     observed=got.tolist() if got.size <= 64 else list(got.shape),
                     expected=want.tolist() if want.size <= 64 else list(want.shape))
            return False
        return True

    def ref_of(fn, x):
        with warnings.catch_warnings():
            warnings.simplefilter("ignore")
            try:
                return fn(x)
            except Exception:   # noqa: BLE001 — NumPy raises (all-NaN slice): nothing to compare
                return None

    with warnings.catch_warnings():
        warnings.simplefilter("ignore")
        if scen in ("seq", "persist"):
            if scen == "seq":
                d, base = da.from_array(pristine.copy(), chunks=chunks), pristine
            else:
                d = (da.from_array(pristine.copy(), chunks=chunks) * 2).persist(scheduler="sync")
                base = pristine * 2
            want = ref_of(lambda x: _shared_ref(x, t), base)
            got = U.sync_compute(_shared_target(da, d, t))
            if want is not None:
                same(f"{tname} itself", got, want)
            for label, dfun, nfun in fus:
                w = ref_of(nfun, base)
                if w is not None and not same(f"{label} after {tname}", U.sync_compute(dfun(da, d)), w):
                    break
        elif scen == "joint":
            y = da.from_array(pristine.copy(), chunks=chunks) + 1
            base = pristine + 1
            order = inp.get("order", 0)
            fus = [f for f in fus if ref_of(f[2], base) is not None]
            cols = [_shared_target(da, y, t)] + [dfun(da, y) for _, dfun, _ in fus]
            idx = list(range(len(cols)))
            if order:                       # the target last / in the middle: another traversal order of the shared graph
                idx = idx[1:order + 1] + [0] + idx[order + 1:]
            got = dask.compute(*[cols[i] for i in idx], scheduler="sync")
            got = dict(zip(idx, got))
            want = ref_of(lambda x: _shared_ref(x, t), base)
            if want is not None:
                same(f"joint {tname}", got[0], want)
            for j, (label, _, nfun) in enumerate(fus, start=1):
                w = ref_of(nfun, base)
                if w is not None and not same(f"{label} computed together with {tname}", got[j], w):
                    break
        elif scen == "expr":
            z = da.from_array(pristine.copy(), chunks=chunks)
            want = ref_of(lambda x: x - _shared_ref(x, t), pristine)
            if want is not None:
                same(f"x - {tname}(x, keepdims=True)", U.sync_compute(z - _shared_target(da, z, t)), want)
                same(f"{tname}(x, keepdims=True) - x", U.sync_compute(_shared_target(da, z, t) - z), -want)
        else:
            raise KeyError(scen)
    ctx.branch(f"shared:{scen}")
    ctx.branch(f"shared target {t['kind']}")
    if inp.get("single") and t.get("keepdims"):
        ctx.branch("shared: keepdims + reduced axis in ONE chunk (the block object itself reaches the chunk function)")


# ---------------------------------------------------------------------------------------------
# var / std: moment_chunk / moment_combine / moment_agg vs the Lean model over exact rationals
# ---------------------------------------------------------------------------------------------

def _rat(x):
    from fractions import Fraction
    f = Fraction(float(x))
    return [f.numerator, f.denominator]


def _ratf(r):
    return r[0] / r[1]


def _close(a, b, scale):
    return abs(a - b) <= 1e-9 * max(1.0, scale, abs(a), abs(b))


def case_moment(ctx, inp):
    """Function level: the real moment_chunk on every block, the real moment_combine on every group of partials, the
    real moment_agg on the combined partials — each against the Lean functions (exact rationals; the real code's float
    inputs are passed exactly), the final value against np.var and against the Lean tree with dask's own depth."""
    from dask.array import reductions as R
    da = _da()
    blocks, ddof, k = inp["blocks"], inp["ddof"], inp["k"]
    arrs = [np.array(b, dtype="f8") for b in blocks]
    flat = np.concatenate(arrs) if arrs else np.array([], dtype="f8")
    scale = float(np.sum(np.abs(flat)) ** 2) + 1.0
    with warnings.catch_warnings():
        warnings.simplefilter("ignore")
        parts = [R.moment_chunk(a, order=2, axis=(0,), keepdims=True) for a in arrs]
    mparts = []
    for b, p in zip(blocks, parts):
        m = ctx.lean(Sym("momchunk"), [int(v) for v in b])
        mparts.append(m)
        got = [int(p["n"][0]), float(p["total"][0]), float(p["M"][0, 0])]
        if m[0] != got[0] or not _close(_ratf(m[1]), got[1], scale) or (m[0] and not _close(_ratf(m[2]), got[2], scale)):
            ctx.disagree("moment_chunk (n, total, M2)", [m[0], _ratf(m[1]), _ratf(m[2])], got)
    # groups of k partials -> moment_combine (one tree level), then moment_agg over the combined partials
    groups = [list(range(i, min(i + k, len(blocks)))) for i in range(0, len(blocks), k)]
    comb_real, comb_model = [], []
    for g in groups:
        with warnings.catch_warnings():
            warnings.simplefilter("ignore")
            c = R.moment_combine([parts[i] for i in g], order=2, axis=(0,))
        # the model is applied to the REAL partials (exact values of their floats): the diff is about this function only
        real_in = [[int(parts[i]["n"][0]), _rat(parts[i]["total"][0]), _rat(parts[i]["M"][0, 0])] for i in g]
        m = ctx.lean(Sym("momcombine"), real_in)
        got = [int(c["n"][0]), float(c["total"][0]), float(c["M"][0, 0])]
        if not (np.isfinite(got[1]) and np.isfinite(got[2])):
            ctx.fail("moment_combine of finite partials returned a non-finite total / M2", observed=got,
                     expected=[m[0], _ratf(m[1]), _ratf(m[2])])
            return
        if m[0] != got[0] or not _close(_ratf(m[1]), got[1], scale) or (m[0] and not _close(_ratf(m[2]), got[2], scale)):
            ctx.disagree("moment_combine (n, total, M2)", [m[0], _ratf(m[1]), _ratf(m[2])], got)
        comb_real.append(c)
        comb_model.append(ctx.lean(Sym("momcombine"), [mparts[i] for i in g]))
    with warnings.catch_warnings():
        warnings.simplefilter("ignore")
        v = R.moment_agg(comb_real, order=2, ddof=ddof, axis=(0,), keepdims=False)
        ref = np.var(flat, ddof=ddof) if flat.size else float("nan")
    v = float(np.asarray(v).ravel()[0])
    real_in = [[int(c["n"][0]), _rat(c["total"][0]), _rat(c["M"][0, 0])] for c in comb_real]
    m = ctx.lean(Sym("momagg"), ddof, real_in)
    m2 = ctx.lean(Sym("momagg"), ddof, comb_model)
    n = int(flat.size)
    if n <= ddof:
        if m is not None or m2 is not None:
            ctx.disagree("moment_agg: degrees of freedom <= 0 must be undefined in the model", m, None)
        if np.isfinite(v):
            ctx.fail("var with n - ddof <= 0 returned a finite value", observed=v)
        ctx.branch("dof <= 0")
    else:
        if m is None or not _close(_ratf(m), v, scale):
            ctx.disagree("moment_agg value", None if m is None else _ratf(m), v)
        if m2 is None or not _close(_ratf(m2), float(ref), scale):
            ctx.disagree("Lean chunk→combine→agg value vs np.var", None if m2 is None else _ratf(m2), float(ref))
        if not _close(v, float(ref), scale):
            ctx.fail("moment_chunk → moment_combine → moment_agg differs from np.var", observed=v, expected=float(ref))
        # whole tree with the depth of the _tree_reduce loop (theorem var_eq_numpy + tree_dask_depth)
        if len(blocks) >= 1 and k >= 2:
            d, _ = ctx.lean(Sym("treedepth"), [k], [len(blocks)])
            t = ctx.lean(Sym("vartree"), ddof, k, d, [[int(x) for x in b] for b in blocks])
            if t[0] != "ok" or t[1] is None or not _close(_ratf(t[1]), float(ref), scale):
                ctx.disagree("Lean var tree (dask depth) vs np.var", t, float(ref))
        x = da.concatenate([da.from_array(a, chunks=(max(len(a), 1),)) for a in arrs]) if len(arrs) > 1 else da.from_array(arrs[0], chunks=-1)
        dv = float(U.sync_compute(da.var(x, ddof=ddof, split_every=k)))
        if not _close(dv, float(ref), scale):
            ctx.fail("da.var differs from np.var", observed=dv, expected=float(ref))
    if any(len(b) == 0 for b in blocks):
        ctx.branch("empty block")
    if len(groups) > 1:
        ctx.branch("several combine groups")


# ---------------------------------------------------------------------------------------------
# extension round: var / std over several axes at once, arg-reductions with axis=None on n-d arrays
# ---------------------------------------------------------------------------------------------

def tree_layer_names(arr):
    """[(layer name, {output key coords: [input key coords in lol order]})] first round first, and the tree's input name."""
    out = []
    name = arr.name
    hlg = arr.dask
    if "-aggregate-" not in name:
        cands = [n for n in hlg.layers if "-aggregate-" in n]
        if len(cands) == 1:
            name = cands[0]
    while "-partial-" in name or "-aggregate-" in name:
        layer = dict(hlg.layers[name])
        rnd, src = {}, None
        for key, task in layer.items():
            ins = U.lol_flatten(task[1])
            src = ins[0][0]
            rnd[tuple(key[1:])] = [tuple(k[1:]) for k in ins]
        out.append((name, rnd))
        name = src
    out.reverse()
    return out, name


def _graph_values(arr, name, keys):
    import dask
    ks = [(name,) + tuple(k) for k in keys]
    with warnings.catch_warnings():
        warnings.simplefilter("ignore")
        vals = dask.get(arr.__dask_graph__(), ks)
    return dict(zip([tuple(k) for k in keys], vals))


def _mom_cell(p, c):
    return [int(p["n"][c]), _rat(p["total"][c]), _rat(p["M"][c][0])]


def case_momentnd(ctx, inp):
    """var / std over SEVERAL axes: every intermediate of the real graph (moment_chunk per block, moment_combine per
    group, moment_agg) against the Lean functions applied to the same real inputs, the whole n-d Lean tree (theorem
    var_nd_eq_numpy, both keepdims) per kept cell against np.var and dask, and the API result against NumPy."""
    da = _da()
    a = dec_arr(inp["a"]).astype("f8")
    chunks = tuple(tuple(c) for c in inp["chunks"])
    op, axis, kd, se, ddof = inp["op"], inp["axis"], inp["keepdims"], dec_split(inp["split_every"]), inp["ddof"]
    axes = norm_axes(axis, a.ndim)
    ax_arg = None if axis is None else tuple(axes)
    x = da.from_array(a, chunks=chunks)
    res = getattr(da, op)(x, axis=ax_arg, ddof=ddof, keepdims=kd, split_every=se)
    with warnings.catch_warnings():
        warnings.simplefilter("ignore")
        got = np.asarray(U.sync_compute(res))
        ref = np.asarray(getattr(np, op)(a, axis=ax_arg, ddof=ddof, keepdims=kd))
        refv = np.asarray(np.var(a, axis=ax_arg, ddof=ddof, keepdims=True))
    n_red = int(np.prod([a.shape[i] for i in axes]))
    scale = float(np.sum(np.abs(a)) ** 2) + 1.0
    nb = [len(c) for c in chunks]
    depth, split = check_plan(ctx, op + "-nd", res, nb, axes, kd, se)
    if got.shape != ref.shape:
        ctx.fail(f"{op} over axes {axes}: shape differs from NumPy", observed=list(got.shape), expected=list(ref.shape))
        return
    defined = n_red > ddof
    if defined:
        if not U.same_values(got, ref, False, scale=scale):
            ctx.fail(f"{op} over axes {list(axes)} differs from NumPy", observed=got.tolist(), expected=ref.tolist())
    else:
        if got.size and np.isfinite(got).any():
            ctx.fail(f"{op} with n - ddof <= 0 returned a finite value", observed=got.tolist())
        ctx.branch("dof <= 0")
    # ---- function level: every intermediate of the real graph
    layers, src = tree_layer_names(res)
    blocks = {idx: b for idx, _off, b in U.blocks_c_order(a, chunks)}
    prev = _graph_values(res, src, list(blocks))
    for idx, p in prev.items():                       # moment_chunk
        b = blocks[idx]
        for c in np.ndindex(p["n"].shape):
            sl = tuple(slice(None) if i in axes else c[i] for i in range(a.ndim))
            m = ctx.lean(Sym("momchunk"), [int(v) for v in b[sl].ravel()])
            g = [int(p["n"][c]), float(p["total"][c]), float(p["M"][c][0])]
            if m[0] != g[0] or not _close(_ratf(m[1]), g[1], scale) or (m[0] and not _close(_ratf(m[2]), g[2], scale)):
                ctx.disagree("n-d moment_chunk (n, total, M2)", [m[0], _ratf(m[1]), _ratf(m[2])], g)
    for li, (name, rnd) in enumerate(layers):
        outs = _graph_values(res, name, list(rnd))
        last = li == len(layers) - 1
        for key, ins in rnd.items():
            o = outs[key]
            real_ins = [prev[k] for k in ins]
            shp = real_ins[0]["n"].shape
            if last:
                o = np.asarray(o).reshape(shp)
            for c in np.ndindex(shp):
                cell_in = [_mom_cell(p, c) for p in real_ins]
                if not last:
                    m = ctx.lean(Sym("momcombine"), cell_in)
                    g = [int(o["n"][c]), float(o["total"][c]), float(o["M"][c][0])]
                    if not (np.isfinite(g[1]) and np.isfinite(g[2])):
                        ctx.fail("n-d moment_combine of finite partials returned a non-finite total / M2", observed=g)
                        return
                    if m[0] != g[0] or not _close(_ratf(m[1]), g[1], scale) or (m[0] and not _close(_ratf(m[2]), g[2], scale)):
                        ctx.disagree("n-d moment_combine (n, total, M2)", [m[0], _ratf(m[1]), _ratf(m[2])], g)
                else:
                    m = ctx.lean(Sym("momagg"), ddof, cell_in)
                    v = float(o[c])
                    if defined:
                        if m is None or not _close(_ratf(m), v, scale):
                            ctx.disagree("n-d moment_agg value", None if m is None else _ratf(m), v)
                    elif m is not None:
                        ctx.disagree("n-d moment_agg: degrees of freedom <= 0 must be undefined in the model", m, None)
            if len(ins) > 1:
                ctx.branch("group of several partials")
        prev = outs
    if len(layers) > 1:
        ctx.branch("combine rounds")
    # ---- the whole Lean tree (all reduced axes at once) on every kept cell
    kept = [i for i in range(a.ndim) if i not in axes]
    nb_r, sp_r = [nb[i] for i in axes], [split[i] for i in axes]
    want_key = [0] * len(axes) if kd else []
    cells = list(itertools.product(*[range(a.shape[i]) for i in kept]))
    for cell in cells[:6]:
        sl = [slice(None)] * a.ndim
        for i, c in zip(kept, cell):
            sl[i] = c
        sub = a[tuple(sl)]
        bl = [[int(v) for v in b.ravel()] for _, _, b in U.blocks_c_order(sub, [chunks[i] for i in axes])]
        r = ctx.lean(Sym("vargrid"), ddof, nb_r, sp_r, bool(kd), depth, bl)
        ck = tuple(_spread(cell, kept, a.ndim))
        if r[0] != "ok" or len(r) != 2:
            ctx.disagree("Lean n-d var tree: one result block expected", r, "ok")
            continue
        ctx.eq("Lean n-d var tree: output key", r[1][0], want_key)
        mv = r[1][1]
        if defined:
            if mv is None or not _close(_ratf(mv), float(refv[ck]), scale):
                ctx.disagree("Lean n-d var tree vs np.var", None if mv is None else _ratf(mv), float(refv[ck]))
        elif mv is not None:
            ctx.disagree("Lean n-d var tree: n <= ddof must be undefined", mv, None)
    ctx.branch("lean-value")
    if len(axes) > 1:
        ctx.branch("multi-axis")
    if len(axes) > 1 and kept:
        ctx.branch("multi-axis with a kept axis")
    if kd:
        ctx.branch("keepdims")
    if any(0 in chunks[i] for i in axes):
        ctx.branch("zero-length chunk on a reduced axis")
    if isinstance(se, dict):
        ctx.branch("split_every=dict")


def _spread(cell, kept, ndim):
    out = [0] * ndim
    for i, c in zip(kept, cell):
        out[i] = c
    return out


def _arg_cands(p):
    """a real partial of arg_chunk / arg_combine as the model's candidate list"""
    p = np.asarray(p)
    return [[int(v), int(i)] for v, i in zip(p["vals"].ravel().tolist(), p["arg"].ravel().tolist())]


def case_argnd(ctx, inp):
    """argmin / argmax with axis=None on an n-d array: the offsets arg_reduction hands to arg_chunk and every partial of
    the real graph (arg_chunk per block, arg_combine per group, arg_agg) against the model, the whole Lean tree
    (argmin_nd_eq_numpy) and its specification (first flat index of the extremum) against dask and NumPy."""
    da = _da()
    a = dec_arr(inp["a"])
    chunks = tuple(tuple(c) for c in inp["chunks"])
    op, kd, se = inp["op"], inp["keepdims"], dec_split(inp["split_every"])
    which = Sym("min" if op == "argmin" else "max")
    x = da.from_array(a, chunks=chunks)
    res = getattr(da, op)(x, axis=None, keepdims=kd, split_every=se)
    axes = tuple(range(a.ndim))
    nb = [len(c) for c in chunks]
    got, exp = U.run_both(lambda: U.sync_compute(res), lambda: getattr(np, op)(a, axis=None, keepdims=kd))
    flat = [int(v) for v in a.ravel()]
    if exp[0] == "raised":
        if got[0] != "raised":
            ctx.fail(f"{op}: NumPy raises {exp[1]} but dask returned {got[1]!r}", observed=str(got[1]))
        ctx.branch("numpy-raises")
    elif got[0] == "raised":
        ctx.fail(f"{op}(axis=None): dask raised but NumPy returns a value: {got[1]}", observed=got[1], expected=np.asarray(exp[1]).tolist())
        return
    else:
        # the statement itself, in plain Python: the FIRST flat index attaining the extremum
        best = min(flat) if op == "argmin" else max(flat)
        first = flat.index(best)
        g = np.asarray(got[1])
        if g.shape != np.asarray(exp[1]).shape or int(g.ravel()[0]) != first:
            ctx.fail(f"{op}(axis=None) on a {a.ndim}-d array is not the first flat index of the extremum",
                     observed=g.tolist(), expected=first)
        if int(np.asarray(exp[1]).ravel()[0]) != first:
            ctx.fail("NumPy disagrees with the plain-Python first index", observed=np.asarray(exp[1]).tolist(), expected=first)
    depth, split = check_plan(ctx, op + "-nd", res, nb, axes, kd, se)
    # ---- function level: offsets and per-block partials
    layers, src = tree_layer_names(res)
    model_parts = ctx.lean(Sym("argpartsnd"), which, [list(c) for c in chunks], flat)
    real_blocks = U.blocks_c_order(a, chunks)
    src_layer = dict(res.dask.layers[src])
    keys = [idx for idx, _, _ in real_blocks]
    prev = _graph_values(res, src, keys)
    if len(model_parts) != len(real_blocks):
        ctx.disagree("number of blocks", len(model_parts), len(real_blocks))
        return
    for (idx, off, b), mp in zip(real_blocks, model_parts):
        task = src_layer[(src,) + idx]
        info = task[3]
        ctx.eq("arg_reduction: offset handed to arg_chunk", mp[0], [int(v) for v in info[0]])
        if tuple(info[1]) != a.shape or tuple(task[2]) != axes:
            ctx.fail("arg_reduction(axis=None): total shape / axes handed to arg_chunk", observed=[list(info[1]), list(task[2])])
        ctx.eq("block shape", mp[1], list(b.shape))
        ctx.eq("block data (C order of the block)", mp[2], [int(v) for v in b.ravel()])
        ctx.eq("arg_chunk partial (value, raveled global index)", mp[3], _arg_cands(prev[idx]))
        if b.size == 0:
            ctx.branch("empty block: no candidate")
    for li, (name, rnd) in enumerate(layers):
        outs = _graph_values(res, name, list(rnd)) if exp[0] != "raised" or li < len(layers) - 1 else {}
        last = li == len(layers) - 1
        for key, ins in rnd.items():
            real_ins = [_arg_cands(prev[k]) for k in ins]
            if not last:
                ctx.eq("arg_combine of a group of partials", ctx.lean(Sym("argcomb"), which, real_ins), _arg_cands(outs[key]))
                vals = [c[0] for p in real_ins for c in p]
                if len(vals) != len(set(vals)):
                    ctx.branch("tie inside a combine group")
            else:
                m = ctx.lean(Sym("argagg"), which, real_ins)
                if exp[0] == "raised":
                    ctx.eq("arg_agg on no candidate", m, [Sym("raised")])
                else:
                    ctx.eq("arg_agg", m[2] if m[0] == "ok" else m, int(np.asarray(outs[key]).ravel()[0]))
        if not last:
            prev = outs
    if len(layers) > 1:
        ctx.branch("combine rounds")
    # ---- the whole tree and its specification
    tree, spec = ctx.lean(Sym("argtreend"), which, [list(c) for c in chunks], [split[i] for i in range(a.ndim)], bool(kd), depth, flat)
    want_key = [0] * a.ndim if kd else []
    if exp[0] == "raised":
        ctx.eq("Lean n-d arg tree on an empty array", [tree, spec], [[Sym("raised"), want_key], [Sym("raised")]])
    else:
        first = int(np.asarray(exp[1]).ravel()[0])
        ctx.eq("Lean n-d arg tree (key, value, first flat index)", tree, [Sym("ok"), want_key, flat[first], first])
        ctx.eq("Lean specification argBest of the raveled data", spec, [Sym("ok"), flat[first], first])
    ctx.branch("lean-value")
    if len(set(flat)) < len(flat):
        ctx.branch("ties")
    if a.ndim > 1:
        ctx.branch("ravel n-d")
    if a.ndim > 2:
        ctx.branch("ravel 3-d")
    if any(0 in c for c in chunks):
        ctx.branch("zero-length chunk")
    if kd:
        ctx.branch("keepdims")


CASES = {"joint": case_joint, "moment": case_moment, "shared": case_shared, "plan": case_plan, "depth": case_depth, "blsched": case_blsched, "reduce": case_reduce,
         "arg": case_arg, "cum": case_cum, "topk": case_topk, "quant": case_quant,
         "momentnd": case_momentnd, "argnd": case_argnd}
CASES = {k: U.pure_sources(v) for k, v in CASES.items()}


# ---------------------------------------------------------------------------------------------
# generators
# ---------------------------------------------------------------------------------------------

def _axis_choices(ndim):
    out = [None] + list(range(ndim))
    for r in range(2, ndim + 1):
        out += [list(c) for c in itertools.combinations(range(ndim), r)]
    return out


def _split_choice(rng, axes_norm):
    r = rng.random()
    if r < 0.3:
        return None
    if r < 0.55:
        return 2
    if r < 0.75:
        return 3
    if r < 0.85:
        return rng.choice([4, 5, 8, 9])
    return {str(ax): rng.choice([2, 2, 3, 4]) for ax in axes_norm if rng.random() < 0.8}


def _data(rng, shape, kind):
    if kind == "int":
        return U.rand_int_array(rng, shape, -2, 2)
    if kind == "bool":
        return U.rand_int_array(rng, shape, 0, 1).astype(bool)
    if kind == "int32":
        return U.rand_int_array(rng, shape, -2, 2).astype(np.int32)
    if kind == "uint8":
        return U.rand_int_array(rng, shape, 0, 2).astype(np.uint8)
    if kind == "float32":
        a = (U.rand_int_array(rng, shape, -40, 40) / 4.0).astype(np.float32)
        if rng.random() < 0.3 and a.size:
            a.ravel()[rng.randrange(a.size)] = np.nan
        return a
    if kind == "float":
        return U.rand_float_array(rng, shape)
    if kind == "nan":
        return U.rand_float_array(rng, shape, nan_p=0.25)
    if kind == "inf":
        return U.rand_float_array(rng, shape, nan_p=0.1, inf_p=0.15)
    raise ValueError(kind)


def gen_reduce(ctx, n):
    rng = ctx.rng
    for _ in range(n):
        shape = U.rand_shape(rng, 3, 5)
        if rng.random() < 0.1:
            shape = (rng.randint(6, 14),)
        chunks = U.rand_chunks(rng, shape, zero_p=0.12)
        if rng.random() < 0.1:
            shape, chunks = U.big_shape_chunks(rng, zero_p=0.1)
        axis = rng.choice(_axis_choices(len(shape)))
        axes = norm_axes(axis, len(shape))
        r = rng.random()
        if r < 0.45:
            op, kind = rng.choice(PLAIN), rng.choice(["int", "int", "float", "nan", "inf", "bool", "int32", "uint8", "float32"])
        elif r < 0.8:
            op, kind = rng.choice(NANOPS), rng.choice(["nan", "nan", "float", "int", "float32"])
        else:
            op, kind = "moment", rng.choice(["int", "float"])
        if kind == "inf" and op in ("var", "std", "prod"):
            kind = "nan"
        if max(shape) > 8 and op in ("prod", "nanprod"):
            kind = "int"        # long float products overflow to inf, and inf·0 depends on the grouping
        if kind == "bool" and op in ("var", "std", "mean", "prod"):
            kind = "int"
        inp = {"a": enc_arr(_data(rng, shape, kind)), "chunks": [list(c) for c in chunks], "op": op,
               "axis": axis, "keepdims": rng.random() < 0.4, "split_every": _split_choice(rng, axes)}
        if op == "moment":
            inp["order"] = rng.choice([2, 3, 4])
        if op in ("var", "std", "nanvar", "nanstd"):
            inp["ddof"] = rng.choice([0, 0, 1])
        if op in ("sum", "prod", "mean", "var", "std", "nansum", "nanprod", "nanmean", "nanvar", "nanstd") and rng.random() < 0.15:
            inp["dtype"] = rng.choice(["float64", "float32"] + (["int64", "int32"] if kind in ("int", "int32", "uint8", "bool") and op in ("sum", "prod", "nansum", "nanprod") else []))
        yield "reduce", inp


def gen_arg(ctx, n):
    rng = ctx.rng
    for _ in range(n):
        shape = U.rand_shape(rng, 3, 5)
        chunks = U.rand_chunks(rng, shape, zero_p=0.2)
        if rng.random() < 0.1:
            shape, chunks = U.big_shape_chunks(rng, zero_p=0.1)
        axis = rng.choice([None] + list(range(len(shape))))
        op = rng.choice(["argmin", "argmax", "argmin", "argmax", "nanargmin", "nanargmax"])
        kind = rng.choice(["int", "int", "float", "nan", "int32", "uint8", "float32", "bool"]) if op.startswith("arg") else rng.choice(["nan", "float", "float32"])
        a = _data(rng, shape, kind)
        if kind == "int":
            a = U.rand_int_array(rng, shape, 0, 2)
        yield "arg", {"a": enc_arr(a), "chunks": [list(c) for c in chunks], "op": op, "axis": axis,
                      "keepdims": rng.random() < 0.3, "split_every": _split_choice(rng, norm_axes(axis, len(shape)))}


def gen_cum(ctx, n):
    rng = ctx.rng
    for _ in range(n):
        shape = U.rand_shape(rng, 2, 6) if rng.random() < 0.5 else (rng.randint(1, 12),)
        chunks = U.rand_chunks(rng, shape, zero_p=0.25)
        if rng.random() < 0.1:
            shape, chunks = U.big_shape_chunks(rng, zero_p=0.1)
        op = rng.choice(["cumsum", "cumprod", "cumsum", "nancumsum", "nancumprod"])
        if max(shape) > 8 and op == "nancumprod":
            op = "nancumsum"
        kind = rng.choice(["int", "int", "float", "int32", "uint8", "float32", "bool"]) if not op.startswith("nan") else rng.choice(["nan", "float", "float32"])
        if max(shape) > 8 and op == "cumprod":
            kind = "int"
        axis = rng.choice(list(range(len(shape))) + ([None] if not any(0 in c for c in chunks) else []))
        inp = {"a": enc_arr(_data(rng, shape, kind)), "chunks": [list(c) for c in chunks], "op": op,
               "axis": axis, "method": rng.choice(["sequential", "blelloch"])}
        if rng.random() < 0.2:
            inp["dtype"] = rng.choice(["float64", "float32", "int64"] if kind in ("int", "int32", "uint8", "bool") else ["float64", "float32"])
        yield "cum", inp


def gen_topk(ctx, n):
    rng = ctx.rng
    for _ in range(n):
        shape = U.rand_shape(rng, 2, 7)
        chunks = U.rand_chunks(rng, shape)
        if rng.random() < 0.25:
            shape, chunks = U.big_shape_chunks(rng)
        axis = rng.randrange(len(shape))
        ln = shape[axis]
        k = rng.choice([1, ln, rng.randint(1, ln), max(chunks[axis]), min(ln, max(chunks[axis]) + 1)])
        k = max(1, min(k, ln)) * rng.choice([1, -1])
        a = U.rand_int_array(rng, shape, -5, 5) if rng.random() < 0.7 else U.rand_float_array(rng, shape)
        if rng.random() < 0.25:
            a = _data(rng, shape, rng.choice(["int32", "uint8", "float32"]))
            if a.dtype.kind == "f":
                a = np.nan_to_num(a)
        yield "topk", {"a": enc_arr(a), "chunks": [list(c) for c in chunks], "k": k, "axis": axis,
                       "split_every": rng.choice([None, 2, 3]), "arg": rng.random() < 0.5}


def gen_quant(ctx, n):
    rng = ctx.rng
    for _ in range(n):
        shape = U.rand_shape(rng, 3, 5)
        chunks = U.rand_chunks(rng, shape)
        if rng.random() < 0.1:
            shape, chunks = U.big_shape_chunks(rng)
        op = rng.choice(["median", "nanmedian", "quantile", "nanquantile"])
        axis = rng.choice(list(range(len(shape))))
        kind = rng.choice(["nan", "float", "int"]) if op.startswith("nan") else rng.choice(["float", "int"])
        inp = {"a": enc_arr(_data(rng, shape, kind)), "chunks": [list(c) for c in chunks], "op": op, "axis": axis,
               "keepdims": rng.random() < 0.4}
        if "quantile" in op:
            inp["q"] = rng.choice([0.5, [0.0, 1.0], [0.25, 0.5, 0.9], 0.0, 1.0])
            inp["method"] = rng.choice(["linear", "lower", "higher", "nearest", "midpoint"])
        yield "quant", inp


def gen_plan(ctx, n):
    rng = ctx.rng
    for _ in range(n):
        d = rng.randint(1, 3)
        nb = [rng.randint(1, [12, 7, 5][d - 1]) for _ in range(d)]
        axis = rng.choice(_axis_choices(d))
        yield "plan", {"numblocks": nb, "axis": axis, "keepdims": rng.random() < 0.5,
                       "split_every": _split_choice(rng, norm_axes(axis, d)), "op": rng.choice(["sum", "max", "mean"])}


def _depth_points(limit, kmax):
    pts = set()
    for k in range(2, kmax + 1):
        p = k
        while p <= limit * k:
            for n in (p - 1, p, p + 1):
                if 1 <= n <= limit:
                    pts.add((n, k))
            p *= k
    return sorted(pts)


def _exhaustive_small(ctx):
    """All chunkings (with zero-length chunks) of 1-d arrays of length ≤ 5 (quick) / 6 (thorough)."""
    rng = ctx.rng
    maxn = 6 if ctx.thorough() else 5
    for n in range(1, maxn + 1):
        a = U.rand_int_array(rng, (n,), -2, 2)
        f = U.rand_float_array(rng, (n,), nan_p=0.2)
        for ch in U.chunkings_1d(n, zeros=True):
            se = rng.choice([None, 2, 3])
            if not ctx.thorough() and rng.random() < 0.6 and n >= 4:
                continue
            yield "reduce", {"a": enc_arr(a), "chunks": [list(ch)], "op": rng.choice(["sum", "prod", "min", "max", "mean"]),
                             "axis": 0, "keepdims": False, "split_every": se}
            yield "cum", {"a": enc_arr(a), "chunks": [list(ch)], "op": rng.choice(["cumsum", "cumprod"]), "axis": 0,
                          "method": rng.choice(["sequential", "blelloch"])}
            yield "arg", {"a": enc_arr(U.rand_int_array(rng, (n,), 0, 1)), "chunks": [list(ch)],
                          "op": rng.choice(["argmin", "argmax"]), "axis": 0, "keepdims": False, "split_every": se}
            if 0 not in ch:
                yield "topk", {"a": enc_arr(a), "chunks": [list(ch)], "k": rng.choice([1, n, -n, max(ch)]), "axis": 0,
                               "split_every": se, "arg": rng.random() < 0.5}
            if ctx.thorough():
                yield "reduce", {"a": enc_arr(f), "chunks": [list(ch)], "op": rng.choice(NANOPS + ["var", "std"]),
                                 "axis": 0, "keepdims": False, "split_every": se}


def gen_joint(ctx, n):
    rng = ctx.rng
    for _ in range(n):
        shape = U.rand_shape(rng, 3, 5)
        chunks = U.rand_chunks(rng, shape)
        a = U.rand_int_array(rng, shape, -3, 3) if rng.random() < 0.6 else U.rand_float_array(rng, shape)
        nd = len(shape)
        items = []
        base_op = rng.choice(["sum", "max", "mean", "var", "prod"])
        for _ in range(rng.randint(3, 6)):
            r = rng.random()
            if r < 0.55:
                op = base_op if rng.random() < 0.7 else rng.choice(["sum", "min", "mean", "std", "nansum", "moment"])
                it = {"kind": "reduce", "op": op, "axis": rng.choice(_axis_choices(nd)), "keepdims": rng.random() < 0.5,
                      "split_every": rng.choice([None, 2, 3])}
                if op in ("var", "std"):
                    it["ddof"] = rng.choice([0, 1])
                if op == "moment":
                    it["order"] = rng.choice([2, 3])
            elif r < 0.7:
                it = {"kind": "arg", "op": rng.choice(["argmin", "argmax"]), "axis": rng.choice([None] + list(range(nd))),
                      "keepdims": rng.random() < 0.5, "split_every": rng.choice([None, 2])}
            elif r < 0.85:
                it = {"kind": "cum", "op": rng.choice(["cumsum", "cumprod"]), "axis": rng.randrange(nd),
                      "method": rng.choice(["sequential", "blelloch"])}
            else:
                ax = rng.randrange(nd)
                it = {"kind": "topk", "k": rng.randint(1, shape[ax]) * rng.choice([1, -1]), "axis": ax,
                      "split_every": rng.choice([None, 2]), "arg": rng.random() < 0.5}
            items.append(it)
        yield "joint", {"a": enc_arr(a), "chunks": [list(c) for c in chunks], "items": items, "variants": rng.random() < 0.6,
                        "chunks2": [list(c) for c in U.rand_chunks(rng, shape)]}


def gen_moment(ctx, n):
    rng = ctx.rng
    for _ in range(n):
        nb = rng.randint(1, 7)
        blocks = [[rng.randint(-6, 6) for _ in range(rng.choice([0, 1, 1, 2, 3, 4]))] for _ in range(nb)]
        if not any(blocks):
            blocks[rng.randrange(nb)] = [rng.randint(-6, 6)]
        yield "moment", {"blocks": blocks, "ddof": rng.choice([0, 0, 1, 2]), "k": rng.choice([2, 2, 3, 4])}


def _nd_shape_chunks(rng, zero_p):
    nd = rng.choice([2, 2, 2, 3, 3, 1])
    shape = tuple(rng.randint(1, 4 if nd == 3 else 5) for _ in range(nd))
    chunks = U.rand_chunks(rng, shape, zero_p=zero_p)
    if rng.random() < 0.15:
        # many blocks on one axis: several combine rounds
        ax = rng.randrange(nd)
        n = rng.randint(5, 9)
        shape = tuple(n if i == ax else s for i, s in enumerate(shape))
        chunks = tuple((1,) * n if i == ax else U.rand_chunks_1d(rng, s, zero_p) for i, s in enumerate(shape))
    elif rng.random() < 0.05:
        # an axis of length zero: nothing to reduce (NumPy raises for arg-reductions, var is undefined)
        ax = rng.randrange(nd)
        shape = tuple(0 if i == ax else s for i, s in enumerate(shape))
        chunks = tuple(rng.choice([(0,), (0, 0)]) if i == ax else c for i, c in enumerate(chunks))
    return shape, chunks


def gen_momentnd(ctx, n):
    rng = ctx.rng
    for _ in range(n):
        shape, chunks = _nd_shape_chunks(rng, 0.15)
        nd = len(shape)
        multi = [list(c) for r in range(2, nd + 1) for c in itertools.combinations(range(nd), r)]
        axis = rng.choice(multi + [None, None]) if nd > 1 and rng.random() < 0.85 else rng.choice([None] + list(range(nd)))
        a = U.rand_int_array(rng, shape, -6, 6)
        yield "momentnd", {"a": enc_arr(a), "chunks": [list(c) for c in chunks], "op": rng.choice(["var", "var", "std"]),
                           "axis": axis, "keepdims": rng.random() < 0.5, "ddof": rng.choice([0, 0, 1, 2]),
                           "split_every": _split_choice(rng, norm_axes(axis, nd))}


def gen_argnd(ctx, n):
    rng = ctx.rng
    for _ in range(n):
        shape, chunks = _nd_shape_chunks(rng, 0.2)
        a = U.rand_int_array(rng, shape, 0, rng.choice([1, 2, 2, 9]))
        yield "argnd", {"a": enc_arr(a), "chunks": [list(c) for c in chunks], "op": rng.choice(["argmin", "argmax"]),
                        "keepdims": rng.random() < 0.35, "split_every": _split_choice(rng, tuple(range(len(shape))))}


def gen_shared(ctx, n):
    """targets that sort / partition (median, quantile, percentile, topk, argtopk) and ordinary ones × the scenarios in
    which a block is read more than once; the reduced axis lies in ONE chunk in most cases and keepdims is mostly on
    (map_blocks / the chunk function then receives the upstream block object itself, not a concatenated copy)."""
    rng = ctx.rng
    for i in range(n):
        nd = rng.choice([1, 2, 2, 2, 3])
        shape = tuple(rng.randint(2, 7) for _ in range(nd))
        if rng.random() < 0.15:
            shape = (rng.randint(9, 30),) + shape[1:]
        kind = rng.choice(["float", "float", "nan", "int"])
        if kind == "int":
            size = int(np.prod(shape))
            pop = range(-600, 600) if size <= 1200 else range(-size, size)   # distinct values; (30, 7, 7) has 1470 elements
            a = np.array(rng.sample(pop, size), dtype=np.int64).reshape(shape)
        else:
            a = U.rand_float_array(rng, shape, nan_p=0.08 if kind == "nan" else 0.0, dup=False)
        axis = rng.randrange(nd)
        chunks = list(U.rand_chunks(rng, shape))
        single = rng.random() < 0.7
        if single:
            chunks[axis] = (shape[axis],)
        scen = ["seq", "persist", "joint", "expr"][i % 4]
        keepdims = True if scen == "expr" else rng.random() < 0.7
        r = rng.random()
        isnan = kind == "nan"
        if nd == 1 and scen != "expr" and not isnan and rng.random() < 0.3:
            t = {"kind": "pct", "q": rng.choice([[50], [0, 25, 50, 100], [10, 90]]),
                 "method": rng.choice(["linear", "lower", "higher", "nearest", "midpoint"])}
        elif r < 0.4 or scen == "expr" and r < 0.7:
            op = rng.choice(["nanmedian", "nanquantile"]) if isnan else rng.choice(["median", "median", "nanmedian", "quantile", "nanquantile"])
            t = {"kind": "quant", "op": op, "axis": axis, "keepdims": keepdims}
            if "quantile" in op:
                t["q"] = rng.choice([0.5, 0.25, 0.0, 1.0])
                t["method"] = rng.choice(["linear", "lower", "higher", "nearest", "midpoint"])
        elif r < 0.6 and scen != "expr" and not isnan:
            ln = shape[axis]
            t = {"kind": "topk", "k": rng.randint(1, ln) * rng.choice([1, -1]), "axis": axis, "arg": rng.random() < 0.5,
                 "split_every": rng.choice([None, 2])}
        elif r < 0.85:
            op = rng.choice(["sum", "max", "min", "mean", "var", "prod"] if not isnan else ["nansum", "nanmax", "nanmean", "nanvar"])
            t = {"kind": "reduce", "op": op, "axis": axis, "keepdims": keepdims, "split_every": rng.choice([None, 2])}
        elif r < 0.93 and not isnan:
            t = {"kind": "arg", "op": rng.choice(["argmin", "argmax"]), "axis": axis, "keepdims": keepdims}
        else:
            if scen == "expr":
                t = {"kind": "reduce", "op": "nanmax" if isnan else "max", "axis": axis, "keepdims": True, "split_every": None}
            else:
                t = {"kind": "cum", "op": "nancumsum" if isnan else rng.choice(["cumsum", "cumprod"]), "axis": axis,
                     "method": rng.choice(["sequential", "blelloch"])}
                if t["op"] == "cumprod":
                    a = np.sign(a).astype(a.dtype) if a.dtype.kind == "i" else np.round(a / 50.0, 2)
        yield "shared", {"a": enc_arr(a), "chunks": [list(c) for c in chunks], "target": t, "scenario": scen,
                         "single": single, "follow": sorted(rng.sample(range(6), rng.randint(2, 4))),
                         "order": rng.randint(0, 2)}


def _exhaustive_nd(ctx):
    """thorough tier: ALL chunkings (every composition of every axis) of shapes (4,3) and (3,2,2), and a
    sample of them in the quick tier."""
    rng = ctx.rng
    for shape in [(4, 3), (3, 2, 2)]:
        per_axis = [U.compositions(n) for n in shape]
        allc = list(itertools.product(*per_axis))
        if not ctx.thorough():
            allc = rng.sample(allc, 6)
        a = U.rand_int_array(rng, shape, -2, 2)
        f = U.rand_float_array(rng, shape, nan_p=0.15)
        for ch in allc:
            chunks = [list(c) for c in ch]
            axis = rng.choice(_axis_choices(len(shape)))
            se = rng.choice([None, 2, 3, {str(ax): 2 for ax in norm_axes(axis, len(shape))}])
            yield "reduce", {"a": enc_arr(a), "chunks": chunks, "op": rng.choice(["sum", "min", "max", "mean", "prod", "any", "all"]),
                             "axis": axis, "keepdims": rng.random() < 0.3, "split_every": se}
            yield "reduce", {"a": enc_arr(f), "chunks": chunks, "op": rng.choice(NANOPS + ["var", "std", "mean"]),
                             "axis": axis, "keepdims": rng.random() < 0.3, "split_every": se}
            yield "arg", {"a": enc_arr(U.rand_int_array(rng, shape, 0, 1)), "chunks": chunks, "op": rng.choice(["argmin", "argmax"]),
                          "axis": rng.choice([None] + list(range(len(shape)))), "keepdims": False, "split_every": rng.choice([None, 2])}
            ax = rng.randrange(len(shape))
            yield "cum", {"a": enc_arr(a), "chunks": chunks, "op": rng.choice(["cumsum", "cumprod"]), "axis": ax,
                          "method": rng.choice(["sequential", "blelloch"])}
            k = rng.randint(1, shape[ax]) * rng.choice([1, -1])
            yield "topk", {"a": enc_arr(a), "chunks": chunks, "k": k, "axis": ax, "split_every": rng.choice([None, 2]),
                           "arg": rng.random() < 0.5}


def generate(ctx):
    # function level
    for n in range(1, ctx.n(40, 300) + 1):
        yield "blsched", {"n": n}
    pts = _depth_points(1100 if not ctx.thorough() else 4096, 12 if not ctx.thorough() else 32)
    if not ctx.thorough():
        pts = [p for p in pts if p[0] <= 300] + ctx.rng.sample([p for p in pts if p[0] > 300], 12)
    for n, k in pts:
        yield "depth", {"n": n, "k": k}
    yield from gen_plan(ctx, ctx.n(200, 2500))
    yield from gen_moment(ctx, ctx.n(120, 1500))
    # API level
    yield from _exhaustive_small(ctx)
    yield from _exhaustive_nd(ctx)
    yield from gen_reduce(ctx, ctx.n(280, 5000))
    yield from gen_arg(ctx, ctx.n(110, 1500))
    yield from gen_cum(ctx, ctx.n(110, 1500))
    yield from gen_topk(ctx, ctx.n(90, 1200))
    yield from gen_quant(ctx, ctx.n(40, 600))
    yield from gen_joint(ctx, ctx.n(60, 600))
    yield from gen_shared(ctx, ctx.n(60, 800))
    # extension round (kept last: the random streams of the sections above are those of the earlier rounds)
    yield from gen_momentnd(ctx, ctx.n(110, 1300))
    yield from gen_argnd(ctx, ctx.n(140, 1600))


def search(ctx):
    yield from _exhaustive_small(ctx)
    yield from gen_reduce(ctx, ctx.n(300))
    yield from gen_arg(ctx, ctx.n(100))
    yield from gen_cum(ctx, ctx.n(100))
    yield from gen_topk(ctx, ctx.n(100))
    yield from gen_plan(ctx, ctx.n(100))
    yield from gen_shared(ctx, ctx.n(100))
    yield from gen_momentnd(ctx, ctx.n(60))
    yield from gen_argnd(ctx, ctx.n(60))
