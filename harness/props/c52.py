"""C52 — local diagnostics report every executed task faithfully.

Model:    lean/DaskModel/Model/Diagnostics.lean (Profiler and Cache as folds over the callback log of the
          scheduler model), theorems lean/DaskModel/Props/C52.lean
Tie:      `cprof` — the real `CacheProfiler` (counter clock) over 1-3 calls: its `results` vs the model fold over the same
                    (event, time, released set) sequence + the clauses evaluated directly;
          `prof`  — the real `Profiler` (its clock replaced by a deterministic counter) inside one context over 1-3
                    scheduler calls (sync / threaded, some with a failing task), re-entered afterwards: its
                    `results` vs the model fold over the same (event, time) sequence, and the statement's clauses
                    evaluated directly (one entry per completed task and call, start <= end, failed tasks dropped);
          `cache` — the real `Cache` callback (cachey stub) over a sequence of computations sharing keys, with
                    random eviction between calls: every result vs the same computation without the cache and vs the
                    recursive evaluation; store contents and executed tasks vs the model (`cache_run`: the graph
                    patched by `_start`, then `get_async`);
          `keylike` — cached values that look like task specs / key references (defect #33, fixed);
          `session` — a whole session under ONE real `Cache` object: 2-5 calls, each on its own sub-graph of a common
                    DAG (graphs sharing keys), some with a failing task, random eviction between calls; the store is
                    threaded by the MODEL (`Model/CacheSession.lean::session`, driver op `cache_session`) and compared
                    after every call together with outcome, result and executed tasks; oracles of
                    `Props/C52xSession.lean` evaluated directly (same values as without the Cache, nothing cached is
                    recomputed, the store only holds the keys' values).
"""
from __future__ import annotations

import random
import threading

from sexp import Sym

from props import _sched_util as U

PROP = "C52"
READY = True
DRIVER = "dm_sched"
LEAN_MODULES = ["DaskModel.Props.C52", "DaskModel.Props.C52xSession", "DaskModel.Props.C52xCost"]
CASE_TIMEOUT_S = 30
LEVEL_TEXT = (
    "Lean 4 theorems: (Profiler, modelled as a fold over the scheduler's callback log) for every event sequence "
    "of a scheduler call - pretasks distinct, posttasks distinct, each posttask preceded by its pretask, then "
    "finish - and any non-decreasing clock, `results` gains exactly one entry per key that completed, none for "
    "started-but-failed tasks, each with start <= end (profiler_one_entry_per_completed_task, via profRun_spec); "
    "combined with the scheduler invariant this holds for every graph, worker count, batch size and completion "
    "order, the entries being exactly the finished tasks (profiler_faithful). (CacheProfiler, same method) exactly one "
    "entry per completed task with cache_time <= free_time and an empty _cache after the call, whatever released sets the "
    "scheduler shows (cache_profiler_one_entry_per_completed_task, cache_profiler_faithful); an entry is closed at a "
    "posttask exactly for the keys shown as released (cache_profiler_closes_on_release). (Cache, as repaired by /repo commit "
    "f5744ad) the graph in which cached keys are replaced by their cached values denotes the same values "
    "(patch_isDen), so a computation with the Cache active returns what the original graph denotes for every "
    "completion order (cache_transparent), and everything _posttask stores - under any eviction - is again a denoted "
    "value, so reuse in later computations is sound (cache_store_stays_sound, storeAfter_sound). (Session, "
    "Props/C52xSession) for any number of calls under one Cache object - each with its own graph, request, workers, batch "
    "size, completion order, after any eviction, starting from any sound store, the graphs agreeing on what shared keys "
    "denote - every call raises no internal scheduler error, returns when it ends normally the denoted values "
    "(cache_session_transparent) = what the same call returns without the Cache for any completion order "
    "(cache_session_eq_uncached), fires only tasks whose result is not in the store, and leaves a sound store, also "
    "after failed calls (cacheCall_spec); the agreement assumption is necessary (session_needs_common_denotation).")
LEVEL_NOTE = (
    "Not modelled: ResourceProfiler (psutil absent), ProgressBar output, cachey's cost-based eviction policy "
    "(eviction is an arbitrary sub-store), wall-clock values (any non-decreasing clock). The `cachey` package is "
    "replaced by the stub in /verif/pystubs (dict store). Keys are assumed to denote the same value in every "
    "computation that shares them (dask's own assumption). OS thread timing not modelled.")
TECHNIQUE = "Lean 4 proof over folds of the scheduler callback log + differential correspondence with the real Profiler / Cache callbacks"
ASSUMPTIONS = ["default_timer is non-decreasing", "equal keys denote equal values across computations sharing a Cache",
               ]
TRUSTED = ["the cachey stub of /verif/pystubs (dict store with put/data)"]


class _Clock:
    def __init__(self):
        self.t = 0
        self.lock = threading.Lock()

    def __call__(self):
        with self.lock:
            self.t += 1
            return self.t


def _make_recprof():
    from dask.diagnostics import Profiler

    class RecProf(Profiler):
        """the real Profiler; only records which (event, time) it processed"""

        def __init__(self):
            super().__init__()
            self.trace = []

        def _pretask(self, key, dsk, state):
            super()._pretask(key, dsk, state)
            self.trace.append((("pretask", key), self._results[key][2]))

        def _posttask(self, key, value, dsk, state, id):
            super()._posttask(key, value, dsk, state, id)
            self.trace.append((("posttask", key), self._results[key][3]))

        def _finish(self, dsk, state, failed):
            self.trace.append((("finish", bool(failed)), 0))
            super()._finish(dsk, state, failed)
    return RecProf


def case_prof(ctx, inp):
    import dask.diagnostics.profile as PM
    from dask.local import get_sync
    from dask.threaded import get as tget
    dag = inp["dag"]
    clock = _Clock()
    orig = PM.default_timer
    PM.default_timer = clock
    try:
        RecProf = _make_recprof()
        prof = RecProf()
        per_call = []
        keys = None
        for round_ in range(2 if inp.get("reenter") else 1):
            with prof:
                for call in inp["calls"]:
                    fails = {int(k): v for k, v in call.get("fails", {}).items()}
                    dsk, keys = U.render(dag, fails)
                    req = U.map_req(call["req"], lambda i: keys[i])
                    n_before = len(prof.results)
                    try:
                        if call["sched"] == "threaded":
                            tget(dsk, req, num_workers=call.get("nw", 2), chunksize=call.get("cs", 1))
                        else:
                            get_sync(dsk, req)
                        failed = False
                    except (U.Boom, ValueError):
                        failed = True
                    execs = U.exec_log()
                    done = sorted(k for k, *_ in execs if k not in fails)
                    per_call.append((call, failed, done, prof.results[n_before:]))
            if round_ == 0 and inp.get("reenter"):
                first_round = len(prof.results)
        idof = {k: i for i, k in enumerate(keys)}
        results = sorted([idof[r.key], r.start_time, r.end_time] for r in prof.results)
    finally:
        PM.default_timer = orig
    # (a) statement clauses on the real profiler.  "completed" = the scheduler processed the task's result
    # (posttask); in a failing call a task whose function already ran in a worker but whose batch was never
    # processed is not completed and must not be reported.
    fin_idx = [i for i, (e, _) in enumerate(prof.trace) if e[0] == "finish"]
    segs, prev = [], 0
    for i in fin_idx:
        segs.append(prof.trace[prev:i])
        prev = i + 1
    segs = segs[-len(inp["calls"]):]
    for (call, failed, done, entries), seg in zip(per_call[-len(inp["calls"]):], segs):
        nodes = dag["nodes"]
        ekeys = sorted(idof[r.key] for r in entries)
        posted = sorted(idof[e[1]] for e, _ in seg if e[0] == "posttask")
        if ekeys != posted:
            ctx.fail("profiler entries are not exactly one per completed (posttask) key of the call",
                     observed=ekeys, expected=posted)
        etasks = sorted(k for k in ekeys if nodes[k][0] == "t")
        if not failed and etasks != done:
            ctx.fail("profiler entries are not exactly one per executed task of a successful call",
                     observed=etasks, expected=done)
        if failed and not set(etasks) <= set(done):
            ctx.fail("profiler reported a task that did not complete", observed=etasks, expected=done)
        if len(set(ekeys)) != len(ekeys):
            ctx.fail("profiler recorded a task twice in one call", observed=ekeys)
        for r in entries:
            if not r.start_time <= r.end_time:
                ctx.fail("profiler entry with start > end", observed=[idof[r.key], r.start_time, r.end_time])
        if call.get("fails") and any(int(k) in ekeys for k in call["fails"]):
            ctx.fail("profiler recorded an entry for a task that raised", observed=ekeys)
    # (b) model fold over the same events (last context only when re-entered: entering clears)
    trace = prof.trace
    if inp.get("reenter"):
        # count finish events of the first round to cut the trace
        nfin = len(inp["calls"])
        idx, seen = 0, 0
        for idx, (e, _) in enumerate(trace):
            if e[0] == "finish":
                seen += 1
                if seen == nfin:
                    break
        trace = trace[idx + 1:]
        ctx.branch("prof:re-entered (cleared)")
    evs = []
    for e, t in trace:
        if e[0] == "finish":
            evs.append([[Sym("finish"), e[1]], t])
        else:
            evs.append([[Sym(e[0]), idof[e[1]]], t])
    model = ctx.lean(Sym("prof"), evs)
    ctx.eq("Profiler.results vs model fold", model, [Sym("ok"), results, []])
    if any(c.get("fails") for c in inp["calls"]):
        ctx.branch("prof:failing-call")
    if len(inp["calls"]) > 1:
        ctx.branch("prof:several-calls-in-one-context")
    if any(c["sched"] == "threaded" for c in inp["calls"]):
        ctx.branch("prof:threaded")
    if results:
        ctx.branch("prof:entries")


def case_cprof(ctx, inp):
    """the real CacheProfiler (deterministic counter clock) over 1-3 scheduler calls in one context vs the model fold over
    the same (event, time, released set) sequence; the clauses: one entry per completed task and call, cache_time <=
    free_time, an entry is closed at the posttask at which the scheduler shows the key as released, else at finish"""
    import dask.diagnostics.profile as PM
    from dask.diagnostics import CacheProfiler
    from dask.local import get_sync
    from dask.threaded import get as tget
    dag = inp["dag"]
    clock = _Clock()
    orig = PM.default_timer
    PM.default_timer = clock

    class RecCProf(CacheProfiler):
        """the real CacheProfiler; only records which (event, time, released) it processed"""

        def __init__(self):
            super().__init__()
            self.trace = []

        def _posttask(self, key, value, dsk, state, id):
            rel = list(state["released"])
            super()._posttask(key, value, dsk, state, id)
            self.trace.append((("posttask", key), clock.t, rel))

        def _finish(self, dsk, state, failed):
            super()._finish(dsk, state, failed)
            self.trace.append((("finish", bool(failed)), clock.t, []))
    try:
        prof = RecCProf()
        per_call, keys = [], None
        with prof:
            for call in inp["calls"]:
                fails = {int(k): v for k, v in call.get("fails", {}).items()}
                dsk, keys = U.render(dag, fails)
                req = U.map_req(call["req"], lambda i: keys[i])
                n_before, t_before = len(prof.results), len(prof.trace)
                try:
                    if call["sched"] == "threaded":
                        tget(dsk, req, num_workers=call.get("nw", 2), chunksize=call.get("cs", 1))
                    else:
                        get_sync(dsk, req)
                    failed = False
                except (U.Boom, ValueError):
                    failed = True
                per_call.append((call, failed, prof.results[n_before:], prof.trace[t_before:]))
        idof = {k: i for i, k in enumerate(keys)}
        results = sorted([idof[r.key], r.cache_time, r.free_time] for r in prof.results)
        leftover = sorted(idof[k] for k in prof._cache)
    finally:
        PM.default_timer = orig
    for call, failed, entries, seg in per_call:
        posted = sorted(idof[e[1]] for e, _, _ in seg if e[0] == "posttask")
        ekeys = sorted(idof[r.key] for r in entries)
        if ekeys != posted:
            ctx.fail("CacheProfiler entries are not exactly one per completed (posttask) key of the call",
                     observed=ekeys, expected=posted)
        fin_t = [t for e, t, _ in seg if e[0] == "finish"]
        for r in entries:
            k = idof[r.key]
            if not r.cache_time <= r.free_time:
                ctx.fail("CacheProfiler entry with cache_time > free_time", observed=[k, r.cache_time, r.free_time])
            own = [t for e, t, _ in seg if e == ("posttask", r.key)]
            if own and r.cache_time != own[0]:
                ctx.fail("CacheProfiler cache_time is not the time of the task's posttask", observed=[k, r.cache_time], expected=own[0])
            freed = [t for e, t, rel in seg if e[0] == "posttask" and r.key in rel and t >= r.cache_time]
            want = freed[0] if freed else (fin_t[0] if fin_t else None)
            if want is not None and r.free_time != want:
                ctx.fail("CacheProfiler free_time is not the moment the scheduler released the key (or the end of the call)",
                         observed=[k, r.free_time], expected=want)
        if call.get("fails") and any(int(k) in ekeys for k in call["fails"]):
            ctx.fail("CacheProfiler recorded an entry for a task that raised", observed=ekeys)
    if leftover:
        ctx.fail("CacheProfiler kept entries in _cache after the call finished", observed=leftover)
    evs = []
    for e, t, rel in prof.trace:
        if e[0] == "finish":
            evs.append([[Sym("finish"), e[1]], t, []])
        else:
            evs.append([[Sym("posttask"), idof[e[1]]], t, sorted(idof[x] for x in rel)])
    model = ctx.lean(Sym("cprof"), evs)
    ctx.eq("CacheProfiler.results vs model fold", model, [results, leftover])
    if any(c.get("fails") for c in inp["calls"]):
        ctx.branch("cprof:failing-call")
    if len(inp["calls"]) > 1:
        ctx.branch("cprof:several-calls-in-one-context")
    if any(c["sched"] == "threaded" for c in inp["calls"]):
        ctx.branch("cprof:threaded")
    if any(r[2] < max(x[2] for x in results) for r in results):
        ctx.branch("cprof:freed-before-the-end")


def case_cost(ctx, inp):
    """the cost bookkeeping of the real Cache (`_pretask` / `_posttask` / `_finish`, deterministic counter clock) over 2-4
    calls under ONE Cache object (cached dependencies are patched out, so their duration counts 0) vs the model fold
    `costRun` over the same callback sequence; direct oracle: the duration handed to `cache.put` is the critical-path
    length of the task's own running times over the tasks executed in this call"""
    from core import enable_stubs
    enable_stubs()
    import dask.cache as CM
    from dask.local import get_sync
    from dask.threaded import get as tget
    dag = inp["dag"]
    rng = random.Random(inp["seed"])
    clock = _Clock()
    orig = CM.default_timer
    CM.default_timer = clock

    class RecCache(CM.Cache):
        """the real Cache; only records which callbacks it processed and the durations it computed"""

        def __init__(self, *a, **k):
            super().__init__(*a, **k)
            self.trace = []

        def _pretask(self, key, dsk, state):
            super()._pretask(key, dsk, state)
            self.trace.append(("pre", key, self.starttimes[key]))

        def _posttask(self, key, value, dsk, state, id):
            deps = list(state["dependencies"][key])
            super()._posttask(key, value, dsk, state, id)
            self.trace.append(("post", key, clock.t, deps, self.durations[key]))

        def _finish(self, dsk, state, errored):
            super()._finish(dsk, state, errored)
            self.trace.append(("finish", dict(self.starttimes), dict(self.durations)))
    try:
        cache = RecCache(1e9)
        costs = []
        real_put = cache.cache.put

        def put(key, value, cost=None, nbytes=None, **kw):
            costs.append((key, cost, nbytes))
            return real_put(key, value, cost=cost, nbytes=nbytes, **kw)
        cache.cache.put = put
        per_call, keys = [], None
        for call in inp["calls"]:
            fails = {int(k): v for k, v in call.get("fails", {}).items()}
            dsk, keys = U.render(dag, fails)
            req = U.map_req(call["req"], lambda i: keys[i])
            for k in list(cache.cache.data):
                if rng.random() < call.get("evict", 0.0):
                    del cache.cache.data[k]
            cached = set(cache.cache.data)
            t0 = len(cache.trace)
            try:
                with cache:
                    if call["sched"] == "threaded":
                        tget(dsk, req, num_workers=call.get("nw", 2), chunksize=call.get("cs", 1))
                    else:
                        get_sync(dsk, req)
                failed = False
            except (U.Boom, ValueError):
                failed = True
            per_call.append((call, failed, cached, cache.trace[t0:]))
        idof = {k: i for i, k in enumerate(keys)}
    finally:
        CM.default_timer = orig
    evs, puts = [], []
    for call, failed, cached, seg in per_call:
        start, crit = {}, {}
        if not seg or seg[-1][0] != "finish":
            ctx.fail("Cache._finish was not the last callback of the call", observed=[str(e[0]) for e in seg[-2:]])
        for e in seg:
            if e[0] == "pre":
                start[e[1]] = e[2]
                evs.append([Sym("pre"), idof[e[1]], e[2]])
            elif e[0] == "post":
                _, key, t, deps, dur = e
                own = t - start[key]
                # independent oracle: critical path over the tasks executed in this call
                want = own + max([crit.get(d, 0) for d in deps] or [0])
                crit[key] = want
                if dur != want:
                    ctx.fail("Cache: the duration of a task is not own time + the largest duration of a dependency executed in the call",
                             observed=[idof[key], dur], expected=want)
                if dur < own or any(dur < crit.get(d, 0) for d in deps):
                    ctx.fail("Cache: a task is recorded as cheaper than itself or one of its dependencies", observed=[idof[key], dur])
                if any(d in cached and d in crit for d in deps):
                    ctx.fail("Cache: a cached dependency was executed again", observed=idof[key])
                if any(d in cached for d in deps):
                    ctx.branch("cost:cached-dependency-counts-zero")
                if deps and want > own:
                    ctx.branch("cost:dependency-duration-added")
                evs.append([Sym("post"), idof[key], t, sorted(idof[d] for d in deps)])
                puts.append([idof[key], dur])
            else:
                if e[1] or e[2]:
                    ctx.fail("Cache._finish left starttimes / durations behind", observed=[len(e[1]), len(e[2])])
                evs.append([Sym("finish")])
        if failed:
            ctx.branch("cost:failing-call")
        if call["sched"] == "threaded":
            ctx.branch("cost:threaded")
    if [idof[k] for k, _, _ in costs] != [p[0] for p in puts]:
        ctx.fail("Cache: not exactly one cache.put per posttask, in order", observed=[idof[k] for k, _, _ in costs], expected=[p[0] for p in puts])
    for (k, cost, nb), (_, dur) in zip(costs, puts):
        if cost != dur / nb / 1e9:
            ctx.fail("Cache: the cost handed to cache.put is not duration / nbytes / 1e9", observed=[idof[k], cost], expected=dur / nb / 1e9)
    model = ctx.lean(Sym("cache_cost"), evs)
    ctx.eq("Cache durations handed to cache.put vs model fold", model, [Sym("ok"), puts, [], []])
    if len(inp["calls"]) > 1:
        ctx.branch("cost:several-calls-one-cache")


def case_cache(ctx, inp):
    from core import enable_stubs
    enable_stubs()
    from dask.cache import Cache
    from dask.local import get_sync
    from dask.threaded import get as tget
    dag = inp["dag"]
    rng = random.Random(inp["seed"])
    ev = U.reference_eval(dag)
    cache = Cache(1e9)
    store = {}
    for call in inp["calls"]:
        dsk, keys = U.render(dag)
        idof = {k: i for i, k in enumerate(keys)}
        req = call["req"]
        real_req = U.map_req(req, lambda i: keys[i])
        flat = list(U.flatten_req(req))
        # without the cache
        plain = get_sync(dsk, real_req)
        dsk, keys = U.render(dag)
        try:
            prio, ties = U.priorities(dsk, idof)
        except Exception:
            return
        # eviction chosen by the test before the call
        for k in list(cache.cache.data):
            if rng.random() < call.get("evict", 0.0):
                del cache.cache.data[k]
        store_in = sorted([idof[k], v] for k, v in cache.cache.data.items())
        with cache:
            if call["sched"] == "threaded":
                got = tget(dsk, real_req, num_workers=2)
            else:
                got = get_sync(dsk, real_req)
        execs = sorted(k for k, *_ in U.exec_log())
        if U._tuple_to_list(got) != U._tuple_to_list(plain):
            ctx.fail("computing with the Cache callback gives different values than without it",
                     observed=U._tuple_to_list(got), expected=U._tuple_to_list(plain))
        want = U.map_req(req, ev)
        if U._tuple_to_list(got) != U._tuple_to_list(want):
            ctx.fail("computing with the Cache callback differs from the recursive evaluation",
                     observed=U._tuple_to_list(got), expected=U._tuple_to_list(want))
        for k, v in cache.cache.data.items():
            if v != ev(idof[k]):
                ctx.fail("the Cache stores a value that is not the key's value", observed=[idof[k], v], expected=ev(idof[k]))
        # model: patched graph, FIFO completion (synchronous executor) - only for the sync scheduler and distinct priorities
        if call["sched"] == "sync" and not ties:
            nt = len(dag["nodes"]) + 2
            m = ctx.lean(Sym("cache_run"), U.enc_nodes(dag), flat, prio, 1, 1, [0] * nt, store_in)
            outcome, res, store_out, fired = m
            ctx.eq("cache run: outcome", [str(outcome[0])], ["done"])
            ctx.eq("cache run: result", [x if isinstance(x, int) else str(x) for x in res], list(U.flatten_req(U._tuple_to_list(got))) if isinstance(req, list) else [got])
            ctx.eq("cache run: store after the call", store_out, sorted([idof[k], v] for k, v in cache.cache.data.items()))
            ctx.eq("cache run: executed tasks", sorted(k for k in fired if dag["nodes"][k][0] == "t"), execs)
        if store_in:
            ctx.branch("cache:store-nonempty-at-start")
            needed_plain = {i for i in U.needed_ids(dag, flat) if dag["nodes"][i][0] == "t"}
            if len(execs) < len(needed_plain):
                ctx.branch("cache:reuse-saved-work")
        if call.get("evict"):
            ctx.branch("cache:evicted-between-calls")
    ctx.branch("cache:" + "+".join(sorted({c["sched"] for c in inp["calls"]})))


def case_session(ctx, inp):
    """one real Cache object over several calls on sub-graphs of one DAG; the model threads the store itself"""
    from core import enable_stubs
    enable_stubs()
    from dask._task_spec import DataNode
    from dask.cache import Cache
    from dask.local import get_sync
    dag = inp["dag"]
    nodes = dag["nodes"]
    rng = random.Random(inp["seed"])
    ev = U.reference_eval(dag)
    cache = Cache(1e9)
    enc_all = U.enc_nodes(dag)
    model_calls, observed, ties_any = [], [], False
    for call in inp["calls"]:
        flat = list(U.flatten_req(call["req"]))
        sub = U.needed_ids(dag, flat + list(call.get("extra", [])))
        fails = {int(k): v for k, v in call.get("fails", {}).items() if int(k) in sub}

        def graph():
            full, keys = U.render(dag, fails)
            return {k: full[k] for i, k in enumerate(keys) if i in sub and k in full}, keys
        dsk, keys = graph()
        idof = {k: i for i, k in enumerate(keys)}
        real_req = U.map_req(call["req"], lambda i: keys[i])
        try:
            plain = ["ok", U._tuple_to_list(get_sync(dsk, real_req))]
        except (U.Boom, ValueError) as e:
            plain = ["raised", type(e).__name__]
        # cachey drops what it likes between two calls
        evicted = sorted(idof[k] for k in list(cache.cache.data) if rng.random() < call.get("evict", 0.0))
        for i in evicted:
            del cache.cache.data[keys[i]]
        store_in = {idof[k]: v for k, v in cache.cache.data.items()}
        dsk, keys = graph()
        # the priorities get_async computes: order() of the graph AFTER Cache._start patched it
        patched = dict(dsk)
        for k in set(patched) & set(cache.cache.data):
            patched[k] = DataNode(k, cache.cache.data[k])
        try:
            prio, ties = U.priorities(patched, idof)
        except Exception:
            return
        ties_any = ties_any or ties
        with cache:
            try:
                got = ["ok", U._tuple_to_list(get_sync(dsk, real_req))]
            except (U.Boom, ValueError) as e:
                got = ["raised", type(e).__name__]
        execs = sorted(k for k, *_ in U.exec_log())
        store_out = sorted([idof[k], v] for k, v in cache.cache.data.items())
        # a task that raises is only noticed when it is executed: not when its result (of an earlier call, where it did
        # not raise) or everything that needs it is in the store
        must_run = {i for i in U.needed_ids(dag, flat, cache0=store_in) if i not in store_in}
        if plain[0] == "raised" and got[0] == "ok" and not (set(fails) & must_run):
            ctx.branch("session:raising-task-not-executed-(result-cached)")
        elif got != plain:
            ctx.fail("a call of a Cache session gives different values than the same call without the Cache",
                     observed=got, expected=plain)
        if got[0] == "ok":
            want = U._tuple_to_list(U.map_req(call["req"], ev))
            if got[1] != want:
                ctx.fail("a call of a Cache session differs from the recursive evaluation", observed=got[1], expected=want)
        again = sorted(set(execs) & set(store_in))
        if again:
            ctx.fail("a task whose result was in the Cache store was executed again", observed=again)
        for k, v in store_out:
            if v != ev(k):
                ctx.fail("the Cache stores a value that is not the key's value", observed=[k, v], expected=ev(k))
        model_calls.append([[n for n in enc_all if n[0] in sub], flat, prio, 1, 1, [0] * (len(nodes) + 2), evicted,
                            sorted(fails)])
        observed.append((call, got, store_out, execs, store_in, sub, fails))
        if store_in:
            ctx.branch("session:store-nonempty-at-start")
            if set(store_in) - sub:
                ctx.branch("session:store-holds-keys-outside-the-graph")
            needed_plain = {i for i in U.needed_ids(dag, flat) if nodes[i][0] != "d"}
            if got[0] == "ok" and len(execs) < len(needed_plain):
                ctx.branch("session:reuse-saved-work")
        if evicted:
            ctx.branch("session:evicted-between-calls")
        if got[0] == "raised":
            ctx.branch("session:failing-call")
        if len(sub) < len(nodes):
            ctx.branch("session:call-on-a-proper-subgraph")
    if ties_any:
        # get_sync's order of execution is not determined by the priorities: only the oracles above
        ctx.branch("session:priority-ties-(oracles-only)")
        return
    model = ctx.lean(Sym("cache_session"), [], model_calls)
    ctx.eq("session: number of calls", len(model), len(observed))
    seen_fail = False
    for n, (m, (call, got, store_out, execs, store_in, sub, fails)) in enumerate(zip(model, observed)):
        outcome, res, mstore, fired = m
        ctx.eq(f"session call {n}: outcome", str(outcome[0]), "done" if got[0] == "ok" else "failed")
        if got[0] == "ok":
            ctx.eq(f"session call {n}: result", [x if isinstance(x, int) else str(x) for x in res],
                   list(U.flatten_req(got[1])) if isinstance(call["req"], list) else [got[1]])
        else:
            ctx.eq(f"session call {n}: failing task", len(outcome) > 1 and outcome[1] in fails, True)
        ctx.eq(f"session call {n}: store after the call", mstore, store_out)
        ctx.eq(f"session call {n}: executed tasks", sorted(k for k in fired if nodes[k][0] == "t"), execs)
        if seen_fail and store_in:
            ctx.branch("session:store-survives-a-failed-call")
        seen_fail = seen_fail or got[0] == "raised"


class _Const:
    """a task function returning a constant that must not be visible to the graph conversion"""

    def __init__(self, v):
        self.v = v

    def __call__(self):
        return self.v


def _ident(x):
    return x


def _pair(a, b):
    return (a, b)


def case_keylike(ctx, inp):
    """cached values that look like keys / task specs must come back as data (defect #33)"""
    from core import enable_stubs
    enable_stubs()
    from dask.cache import Cache
    from dask.local import get_sync
    from dask.threaded import get as tget
    kind = inp["kind"]
    val = {"key-string": "zz", "tuple-with-key": ("zz", 7), "callable-tuple": (_ident, 3), "list-of-keys": ["zz", "a"],
           "nested": ("c", ("zz",))}[kind]
    dsk = {"a": (_Const(val),), "zz": (_ident, 7), "c": (_pair, "a", "zz"), "d": (_ident, "a")}
    get = tget if inp.get("sched") == "threaded" else get_sync
    try:
        plain = [get(dsk, k) for k in inp["req"]]
    except Exception as e:
        ctx.note("keylike_plain_raised:" + type(e).__name__)
        return
    cache = Cache(1e9)
    outs = []
    try:
        with cache:
            for rep in range(inp.get("reps", 2)):
                outs.append([get(dsk, k) for k in inp["req"]])
    except Exception as e:
        ctx.fail(f"computing with the Cache callback raised {type(e).__name__}: {e} (cached value re-read as a task?)",
                 observed=f"{type(e).__name__}: {str(e)[:120]}", expected=repr(plain)[:120])
        return
    for o in outs:
        if repr(o) != repr(plain):
            ctx.fail("computing with the Cache callback gives different values when cached results are reused",
                     observed=repr(o)[:160], expected=repr(plain)[:160])
    ctx.branch("keylike:" + kind)


CASES = {"prof": case_prof, "cprof": case_cprof, "cache": case_cache, "keylike": case_keylike, "session": case_session, "cost": case_cost}


def _calls(rng, dag, n, fail_p=0.0, evict=False):
    nn = len(dag["nodes"])
    calls = []
    for _ in range(n):
        req = U.gen_req(rng, nn)
        c = {"req": req, "sched": rng.choice(["sync", "sync", "threaded"]), "nw": rng.choice([1, 2, 4]), "cs": rng.choice([1, 2, -1])}
        if rng.random() < fail_p:
            needed = U.needed_ids(dag, list(U.flatten_req(req)))
            tasks = [i for i in needed if dag["nodes"][i][0] == "t"]
            if tasks:
                c["fails"] = {str(rng.choice(tasks)): rng.choice(["Boom", "ValueError"])}
        if evict:
            c["evict"] = rng.choice([0.0, 0.0, 0.3, 0.7])
        calls.append(c)
    return calls


def generate(ctx):
    rng = ctx.rng
    for kind in ("key-string", "tuple-with-key", "callable-tuple", "list-of-keys", "nested"):
        for req in (["c"], ["d", "c"], ["a", "c", "d"]):
            yield "keylike", {"kind": kind, "req": req, "reps": 2, "sched": rng.choice(["sync", "threaded"])}
    for _ in range(ctx.n(300, 3000)):
        dag = U.gen_dag(rng, rng.randint(2, 14), p_data=rng.choice([0.05, 0.2]), p_alias=rng.choice([0.0, 0.1]),
                        shape=rng.choice(["chain", "wide"]))
        yield "prof", {"dag": dag, "calls": _calls(rng, dag, rng.choice([1, 1, 2, 3]), fail_p=0.25),
                       "reenter": rng.random() < 0.2}
    for _ in range(ctx.n(200, 2000)):
        dag = U.gen_dag(rng, rng.randint(2, 14), p_data=rng.choice([0.05, 0.2]), p_alias=rng.choice([0.0, 0.1]),
                        shape=rng.choice(["chain", "wide"]))
        yield "cprof", {"dag": dag, "calls": _calls(rng, dag, rng.choice([1, 1, 2, 3]), fail_p=0.25)}
    for _ in range(ctx.n(300, 3000)):
        dag = U.gen_dag(rng, rng.randint(2, 12), p_data=rng.choice([0.05, 0.2]), p_alias=rng.choice([0.0, 0.1]),
                        shape=rng.choice(["chain", "wide"]))
        yield "cache", {"dag": dag, "calls": _calls(rng, dag, rng.choice([2, 3, 4]), evict=True), "seed": rng.randrange(1 << 30)}
    for _ in range(ctx.n(300, 3000)):
        dag = U.gen_dag(rng, rng.randint(3, 12), p_data=rng.choice([0.05, 0.2]), p_alias=rng.choice([0.0, 0.1]),
                        shape=rng.choice(["chain", "wide"]))
        nn = len(dag["nodes"])
        calls = []
        for _c in range(rng.choice([2, 3, 3, 4, 5])):
            req = U.gen_req(rng, nn)
            c = {"req": req, "evict": rng.choice([0.0, 0.0, 0.3, 0.7]),
                 "extra": [rng.randrange(nn) for _e in range(rng.choice([0, 0, 1, 3, nn]))]}
            if rng.random() < 0.2:
                tasks = [i for i in U.needed_ids(dag, list(U.flatten_req(req))) if dag["nodes"][i][0] == "t"]
                if tasks:
                    c["fails"] = {str(rng.choice(tasks)): rng.choice(["Boom", "ValueError"])}
            calls.append(c)
        yield "session", {"dag": dag, "calls": calls, "seed": rng.randrange(1 << 30)}


    for _ in range(ctx.n(150, 1500)):
        dag = U.gen_dag(rng, rng.randint(2, 12), p_data=rng.choice([0.05, 0.2]), p_alias=rng.choice([0.0, 0.1]),
                        shape=rng.choice(["chain", "wide"]))
        yield "cost", {"dag": dag, "calls": _calls(rng, dag, rng.choice([2, 3, 4]), fail_p=0.2, evict=True), "seed": rng.randrange(1 << 30)}


def search(ctx):
    yield from generate(ctx)
