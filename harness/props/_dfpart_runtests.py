"""run dask dataframe tests through the pyarrow stub: python runtests.py <repo> <pytest args>"""
import sys, os
repo = sys.argv[1]
sys.path.insert(0, repo)
sys.path.insert(0, '/verif/harness')
os.chdir(repo)
import pandas
sys.path.append('/verif/pystubs')
import dask
dask.config.set({"dataframe.convert-string": False})
import pytest
args = sys.argv[2:]
x = [] if '--no-x' in args else ['-x']
args = [a for a in args if a != '--no-x']
sys.exit(pytest.main(args + ['-q', '-p', 'no:cacheprovider', '--timeout=600'] + x))
