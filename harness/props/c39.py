"""C39 — joins and concatenation equal pandas.

Model:    lean/DaskModel/Model/Join.lean (pandas merge semantics on one pair of frames as the specification;
          hash join = shuffle both sides + partition-wise join; broadcast joins)
Theorems: lean/DaskModel/Props/C39.lean
Tie:      API level: merge / join (inner, left, right, outer, leftsemi; on columns or index; known or unknown
          divisions; hash or broadcast; tasks or disk shuffle), concat (both axes, interleave_partitions, join
          inner/outer), merge_asof — vs pandas as multisets of rows (order where promised) and, for single-key
          merges, vs the Lean specification (`join`) and the Lean plan (`hash-join`).
"""
from __future__ import annotations

from sexp import Sym

from props import _dfpart_util as U

PROP = "C39"
READY = True
DRIVER = "dm_dfpart"
LEAN_MODULES = ["DaskModel.Props.C39"]
CASE_TIMEOUT_S = 90
ASSUMPTIONS = ["pandas DataFrame.merge on one pair of partitions is the oracle-checked atom; the Lean `inner/left/leftsemi/"
               "outer/right` specification is diffed against pandas on every merge case (NaN keys match NaN keys)",
               "both sides are hash-partitioned with the same hash of the key (colocation, C40)"]
LEVEL_TEXT = ("Lean 4 theorems, for all frames, all hash functions and every number of partitions: the partition-wise join "
              "after hash-partitioning both sides yields the same multiset of output rows as the global join for inner, left, "
              "leftsemi, outer and right (hash_join_inner/left/leftsemi/outer/right; colocated_join_eq_global: the same for ANY "
              "classification of the keys into n classes, e.g. the intervals of aligned divisions of an index join; key lemmas: a left-driven join "
              "commutes with hash partitioning, the hash classes are a permutation of the frame); the broadcast plans "
              "(broadcast_inner_eq_global: every partition against every partition; broadcast_split_eq_global: pieces of the "
              "big side against the hash-partitioned small side) equal the global join; leftsemi_left_broadcast_refuted shows "
              "why the left side of a leftsemi join must not be broadcast (defect #21, repaired); concat_axis0_den. "
              "VALIDATED against pandas: index joins with known divisions (that repartitioning to common divisions co-locates the keys is the unproved C44 statement), suffixes, indicator, several key columns, "
              "concat axis 0/1 with interleave_partitions and join inner/outer, merge_asof (all directions).")
LEVEL_NOTE = ("Trusted: Lean kernel + standard axioms; pandas merge kernels on one pair of partitions; HashJoinP2P needs "
              "`distributed` (absent) and is not reachable here.")
TECHNIQUE = "Lean 4 proof (permutation of hash classes, distribution of joins over concatenation) + differential correspondence against the specification and pandas"

NA = 97    # interned NaN key for the model


def _frames(inp):
    import numpy as np
    import pandas as pd
    kl, kr = inp["lk"], inp["rk"]
    conv = (lambda v: np.nan if v is None else float(v)) if inp.get("na") else (lambda v: v)
    left = pd.DataFrame({"k": [conv(v) for v in kl], "k2": [(v or 0) % 2 for v in kl], "lv": range(len(kl))},
                        index=pd.Index(inp.get("lidx") or list(range(len(kl))), dtype="int64"))
    right = pd.DataFrame({"k": [conv(v) for v in kr], "k2": [(v or 0) % 2 for v in kr], "rv": range(len(kr))},
                         index=pd.Index(inp.get("ridx") or list(range(len(kr))), dtype="int64"))
    return left, right


def _rows(df, cols):
    out = []
    for t in df[cols].itertuples(index=False):
        out.append(tuple(None if (isinstance(v, float) and v != v) else (int(v) if isinstance(v, (int, float)) and v == int(v) else v) for v in t))
    return sorted(out, key=repr)


def case_merge(ctx, inp):
    import dask
    import pandas as pd
    dd = U.dd()
    left, right = _frames(inp)
    how, on = inp["how"], inp["on"]
    dl = U.frame_from_cuts(left, inp["lcuts"])
    dr = U.frame_from_cuts(right, inp["rcuts"])
    kw = {}
    if inp.get("broadcast") is not None:
        kw["broadcast"] = inp["broadcast"]
    if inp.get("method"):
        kw["shuffle_method"] = inp["method"]
    if inp.get("indicator") and how != "leftsemi":
        kw["indicator"] = True
    if inp.get("suffixes"):
        kw["suffixes"] = tuple(inp["suffixes"])
    dkw = dict(kw)
    if inp.get("npartitions"):
        dkw["npartitions"] = inp["npartitions"]
    # pandas reference
    if how == "leftsemi":
        keys = set(map(tuple, right[on].astype(object).where(right[on].notna(), None).itertuples(index=False)))
        mask = [tuple(None if (isinstance(v, float) and v != v) else v for v in t) in keys
                for t in left[on].astype(object).where(left[on].notna(), None).itertuples(index=False)]
        exp = left[pd.Series(mask, index=left.index, dtype=bool)]
    else:
        exp = left.merge(right, on=on, how=how, **{k: v for k, v in kw.items() if k in ("indicator", "suffixes")})
    try:
        with dask.config.set(scheduler="sync"):
            got = dl.merge(dr, on=on, how=how, **dkw).compute()
    except Exception as e:  # noqa: BLE001
        ctx.fail(f"merge(how={how}) raised: " + U.exc_name(e), observed=[U.exc_name(e), dkw])
        return
    cols = [c for c in exp.columns]
    if sorted(got.columns) != sorted(cols):
        ctx.fail("merge: columns differ from pandas", observed=list(got.columns), expected=cols)
        return
    g, e = _rows(got, cols), _rows(exp, cols)
    if g != e:
        ctx.fail(f"merge(how={how}, {dkw}) differs from pandas as a multiset of rows", observed=g[:25], expected=e[:25])
    ctx.branch(f"merge-{how}-" + ("bcast" if kw.get("broadcast") else "nobcast" if kw.get("broadcast") is False else "auto")
               + ("-multi" if len(inp["lcuts"]) > 2 and len(inp["rcuts"]) > 2 else ""))
    # Lean specification and plan on the single key `k`
    if on == ["k"] and not kw.get("indicator"):
        L = [[NA if v is None else int(v), i] for i, v in enumerate(inp["lk"])]
        R = [[NA if v is None else int(v), i] for i, v in enumerate(inp["rk"])]
        spec = ctx.lean(Sym("join"), Sym(how), L, R)
        plan = ctx.lean(Sym("hash-join"), Sym(how), max(1, inp.get("n", 3)), L, R)

        def canon(rows):
            return sorted([[None if r[0] == NA else r[0], None if r[1] == "none" else r[1], None if r[2] == "none" else r[2]] for r in rows], key=repr)
        if how == "leftsemi":
            pe = sorted([[None if (v != v) else int(v), int(i), None] for v, i in zip(exp.k, exp.lv)], key=repr)
        else:
            pe = sorted([[None if (k != k) else int(k), None if (a != a) else int(a), None if (b != b) else int(b)]
                         for k, a, b in zip(exp.k, exp.lv, exp.rv)], key=repr)
        ctx.eq("Lean join specification vs pandas", canon(spec), pe)
        ctx.eq("Lean hash-join plan vs specification", canon(plan), canon(spec))
    del pd, dd


def case_chain(ctx, inp):
    """a merge chained after a merge that is lowered to a broadcast join (many vs few partitions): the second merge must
    still co-locate the keys of its input"""
    import dask
    import pandas as pd
    dd = U.dd()
    big = pd.DataFrame({"k": inp["bk"], "k2": [k % 3 for k in inp["bk"]], "bv": range(len(inp["bk"]))})
    small = pd.DataFrame({"k": inp["sk"], "sv": range(len(inp["sk"]))})
    third = pd.DataFrame({inp["on2"]: inp["tk"], "tv": range(len(inp["tk"]))})
    try:
        with dask.config.set(scheduler="sync"):
            m1 = dd.from_pandas(big, npartitions=inp["nb"]).merge(dd.from_pandas(small, npartitions=inp["ns"]), on="k", how=inp["how1"])
            got = m1.merge(dd.from_pandas(third, npartitions=inp["nt"]), on=inp["on2"], how=inp["how2"], broadcast=inp.get("broadcast2")).compute()
    except Exception as e:  # noqa: BLE001
        ctx.fail("chained merge raised: " + U.exc_name(e), observed=U.exc_name(e))
        return
    exp = big.merge(small, on="k", how=inp["how1"]).merge(third, on=inp["on2"], how=inp["how2"])
    cols = list(exp.columns)
    if sorted(got.columns) != sorted(cols) or _rows(got, cols) != _rows(exp, cols):
        ctx.fail("merge chained after a (broadcast) merge differs from pandas", observed=[len(got)], expected=[len(exp)])
    ctx.branch(f"chain-{inp['how1']}-{inp['how2']}-on-{inp['on2']}")


def case_index_bcast(ctx, inp):
    """broadcast join whose non-broadcast side is joined on its index"""
    import dask
    dd = U.dd()
    left, right = _frames(inp)
    li = left.set_index("k")
    try:
        with dask.config.set(scheduler="sync"):
            got = dd.from_pandas(li, npartitions=inp["nl"], sort=False).merge(
                dd.from_pandas(right, npartitions=inp["nr"]), left_index=True, right_on="k", how=inp["how"], broadcast=True).compute()
    except ValueError as e:
        sig = ("merge:broadcast:how!=inner:non-broadcast-side-joined-on-index:ValueError"
               if inp["how"] != "inner" and "Length of values" in str(e) else None)
        ctx.fail("index broadcast merge raised: " + U.exc_name(e), sig=sig, observed=U.exc_name(e))
        return
    except Exception as e:  # noqa: BLE001
        ctx.fail("index broadcast merge raised: " + U.exc_name(e), observed=U.exc_name(e))
        return
    exp = li.merge(right, left_index=True, right_on="k", how=inp["how"])
    g = sorted(zip(got.lv.fillna(-1), got.rv.fillna(-1)))
    e = sorted(zip(exp.lv.fillna(-1), exp.rv.fillna(-1)))
    if g != e:
        ctx.fail("index broadcast merge differs from pandas", observed=g[:20], expected=e[:20])
    ctx.branch("index-bcast-" + inp["how"])


def case_join(ctx, inp):
    """index joins (known divisions from from_pandas, or unknown)"""
    import dask
    dd = U.dd()
    left, right = _frames(inp)
    left = left[["lv"]].set_axis(inp["lidx"], axis=0).sort_index(kind="stable")
    right = right[["rv"]].set_axis(inp["ridx"], axis=0).sort_index(kind="stable")
    how = inp["how"]
    if inp["known"]:
        dl = dd.from_pandas(left, npartitions=inp["nl"])
        dr = dd.from_pandas(right, npartitions=inp["nr"])
    else:
        dl = dd.from_pandas(left, npartitions=inp["nl"]).clear_divisions()
        dr = dd.from_pandas(right, npartitions=inp["nr"]).clear_divisions()
    try:
        with dask.config.set(scheduler="sync"):
            if inp.get("via") == "merge":
                r = dl.merge(dr, left_index=True, right_index=True, how=how)
                exp = left.merge(right, left_index=True, right_index=True, how=how)
            else:
                r = dl.join(dr, how=how)
                exp = left.join(right, how=how)
            got = r.compute()
            divs = list(r.divisions)
            parts = U.partitions(r)
    except Exception as e:  # noqa: BLE001
        ctx.fail(f"index join(how={how}) raised: " + U.exc_name(e), observed=U.exc_name(e))
        return
    gi = sorted(zip(got.index, got.lv.fillna(-1), got.rv.fillna(-1)))
    ei = sorted(zip(exp.index, exp.lv.fillna(-1), exp.rv.fillna(-1)))
    if gi != ei:
        ctx.fail(f"index join(how={how}) differs from pandas as a multiset of rows", observed=gi[:25], expected=ei[:25])
    if divs[0] is not None:
        why = U.truthful(divs, parts)
        if why:
            ctx.fail("index join result not truthful: " + why, observed=[divs, [list(p.index) for p in parts]])
    ctx.branch(f"join-{how}-" + ("known" if inp["known"] else "unknown"))


def case_concat(ctx, inp):
    import dask
    import pandas as pd
    dd = U.dd()
    frames, dfs = [], []
    for i, spec in enumerate(inp["frames"]):
        idx = sorted(spec["idx"]) if inp["known"] else spec["idx"]
        cols = {"x": [i * 100 + j for j in range(len(idx))]}
        if spec.get("extra"):
            cols["y%d" % (i % 2)] = [float(j) for j in range(len(idx))]
        df = pd.DataFrame(cols, index=pd.Index(idx, dtype="int64"))
        dfs.append(df)
        d = dd.from_pandas(df, npartitions=spec["n"], sort=inp["known"])
        frames.append(d)
    axis = inp["axis"]
    kw = {"join": inp["join"]}
    if axis == 0:
        kw["interleave_partitions"] = inp["interleave"]
    try:
        with dask.config.set(scheduler="sync"):
            if axis == 1:
                # axis=1 needs unique aligned indexes: use the first frame's index for all
                base = dfs[0].index.unique()
                dfs = [df[~df.index.duplicated()].reindex(base).rename(columns=lambda c, i=i: f"{c}_{i}") for i, df in enumerate(dfs)]
                frames = [dd.from_pandas(df, npartitions=inp["frames"][i]["n"], sort=True) for i, df in enumerate(dfs)]
                r = dd.concat(frames, axis=1, join=inp["join"])
                exp = pd.concat([df.sort_index() for df in dfs], axis=1, join=inp["join"])
            else:
                r = dd.concat(frames, axis=0, **kw)
                exp = pd.concat(dfs, axis=0, join=inp["join"])
                if inp.get("project"):
                    cols_p = [c for c in inp["project"] if c in exp.columns]
                    if cols_p:
                        r, exp = r[cols_p], exp[cols_p]
            got = r.compute()
            divs = list(r.divisions)
            parts = U.partitions(r)
    except ValueError as e:
        if axis == 0 and inp["known"] and not inp["interleave"] and "interleave_partitions" in str(e):
            ctx.branch("concat-rejected-overlap")      # documented: overlapping divisions need interleave_partitions=True
            return
        ctx.fail("concat raised: " + U.exc_name(e), observed=U.exc_name(e))
        return
    except Exception as e:  # noqa: BLE001
        ctx.fail("concat raised: " + U.exc_name(e), observed=U.exc_name(e))
        return
    if sorted(got.columns) != sorted(exp.columns):
        ctx.fail("concat: columns differ from pandas", observed=list(got.columns), expected=list(exp.columns))
        return
    cols = list(exp.columns)
    g = sorted(zip(got.index, *[got[c].fillna(-1) for c in cols]))
    e = sorted(zip(exp.index, *[exp[c].fillna(-1) for c in cols]))
    if g != e:
        ctx.fail("concat differs from pandas as a multiset of rows", observed=g[:20], expected=e[:20])
    if axis == 0 and not inp["interleave"] and not (divs[0] is not None):
        # plain stacking promises the order of pandas.concat
        if "x" in exp.columns and list(got.x) != list(exp.x):
            ctx.fail("concat(axis=0) without known divisions does not stack the partitions in order", observed=list(got.x)[:30])
    if divs[0] is not None:
        why = U.truthful(divs, parts)
        if why:
            ctx.fail("concat result not truthful: " + why, observed=[divs, [list(p.index) for p in parts]])
    ctx.branch(f"concat-axis{axis}-{inp['join']}-" + ("known" if inp["known"] else "unknown") + ("-interleave" if axis == 0 and inp["interleave"] else ""))


def case_asof(ctx, inp):
    import dask
    import pandas as pd
    dd = U.dd()
    left = pd.DataFrame({"t": sorted(inp["lt"]), "lv": range(len(inp["lt"]))})
    right = pd.DataFrame({"t": sorted(inp["rt"]), "rv": range(len(inp["rt"]))})
    kw = {"on": "t", "direction": inp["direction"]}
    if inp.get("tolerance") is not None:
        kw["tolerance"] = inp["tolerance"]
    if inp.get("exact") is False:
        kw["allow_exact_matches"] = False
    exp = pd.merge_asof(left, right, **kw)
    try:
        with dask.config.set(scheduler="sync"):
            got = dd.merge_asof(dd.from_pandas(left, npartitions=inp["nl"]), dd.from_pandas(right, npartitions=inp["nr"]), **kw).compute()
    except Exception as e:  # noqa: BLE001
        ctx.fail("merge_asof raised: " + U.exc_name(e), observed=U.exc_name(e))
        return
    g = sorted(zip(got.t, got.lv, got.rv.fillna(-1)))
    e = sorted(zip(exp.t, exp.lv, exp.rv.fillna(-1)))
    if g != e:
        ctx.fail(f"merge_asof({kw}) differs from pandas", observed=g[:25], expected=e[:25])
    ctx.branch("asof-" + inp["direction"])


CASES = {"merge": case_merge, "join": case_join, "concat": case_concat, "asof": case_asof, "chain": case_chain,
         "index_bcast": case_index_bcast}


def _keys(rng, n, hi, na):
    ks = [rng.randint(0, hi) for _ in range(n)]
    if na:
        ks = [None if rng.random() < 0.15 else k for k in ks]
    return ks


def generate(ctx):
    rng = ctx.rng
    for _ in range(ctx.n(170, 1700)):
        nl, nr = rng.randint(0, 14), rng.randint(0, 14)
        hi = rng.choice([1, 3, 6, 15])
        na = rng.random() < 0.25
        yield "merge", {"lk": _keys(rng, nl, hi, na), "rk": _keys(rng, nr, hi, na), "na": na,
                        "lcuts": U.rand_cuts(rng, nl, maxparts=rng.choice([1, 2, 4, 6])),
                        "rcuts": U.rand_cuts(rng, nr, maxparts=rng.choice([1, 2, 4, 6])),
                        "how": rng.choice(["inner", "left", "right", "outer", "leftsemi", "leftsemi"]),
                        "on": rng.choice([["k"], ["k"], ["k"], ["k", "k2"]]),
                        "broadcast": rng.choice([None, True, True, False, 0.9]),
                        "method": rng.choice([None, "tasks", "disk"]),
                        "indicator": rng.random() < 0.15, "suffixes": rng.choice([None, None, ["_l", "_r"]]),
                        "n": rng.randint(1, 5), "npartitions": rng.choice([None, None, 1, 2, 3, 7])}
    for _ in range(ctx.n(60, 600)):
        nl, nr = rng.randint(1, 12), rng.randint(1, 12)
        uniq = rng.random() < 0.5
        lidx = rng.sample(range(20), nl) if uniq else [rng.randint(0, 8) for _ in range(nl)]
        ridx = rng.sample(range(20), nr) if uniq else [rng.randint(0, 8) for _ in range(nr)]
        yield "join", {"lk": [0] * nl, "rk": [0] * nr, "lidx": lidx, "ridx": ridx,
                       "how": rng.choice(["inner", "left", "right", "outer"]), "known": rng.random() < 0.7,
                       "nl": rng.randint(1, 4), "nr": rng.randint(1, 4), "via": rng.choice(["join", "merge"])}
    for _ in range(ctx.n(60, 600)):
        known = rng.random() < 0.6
        k = rng.randint(2, 3)
        frames = []
        for i in range(k):
            n = rng.randint(1, 8)
            lo = i * 10 if rng.random() < 0.4 else 0
            frames.append({"idx": [rng.randint(lo, lo + 9) for _ in range(n)], "n": rng.randint(1, 3), "extra": rng.random() < 0.5})
        yield "concat", {"frames": frames, "axis": rng.choice([0, 0, 0, 1]), "join": rng.choice(["outer", "inner"]),
                         "interleave": rng.random() < 0.6, "known": known,
                         "project": rng.choice([None, ["y0"], ["y1"], ["x", "y1"], ["y0", "y1"]])}
    for _ in range(ctx.n(25, 250)):
        nbig = rng.randint(20, 80)
        hi = rng.choice([5, 12, 20])
        on2 = rng.choice(["k", "k", "k2"])
        yield "chain", {"bk": [rng.randint(0, hi) for _ in range(nbig)], "sk": list(range(hi + 1)) if rng.random() < 0.5 else [rng.randint(0, hi) for _ in range(rng.randint(1, 10))],
                        "tk": [rng.randint(0, hi if on2 == "k" else 2) for _ in range(rng.randint(1, 15))], "on2": on2,
                        "nb": rng.choice([12, 20, 32, 40]), "ns": rng.choice([1, 2, 2, 3]), "nt": rng.randint(1, 6),
                        "how1": rng.choice(["inner", "inner", "left"]), "how2": rng.choice(["inner", "left", "outer"]),
                        "broadcast2": rng.choice([None, False])}
    for _ in range(ctx.n(12, 120)):
        nl, nr = rng.randint(2, 14), rng.randint(2, 14)
        yield "index_bcast", {"lk": _keys(rng, nl, 6, False), "rk": _keys(rng, nr, 6, False), "nl": rng.randint(1, 5), "nr": rng.randint(1, 5),
                              "how": rng.choice(["inner", "left", "right"])}
    # merge_asof around partition boundaries: the left frame's last key equals a key of the right frame that starts a
    # later right partition
    for _ in range(ctx.n(30, 300)):
        nr = rng.randint(4, 14)
        rt = sorted(rng.randint(0, 20) for _ in range(nr))
        pick = rt[rng.randrange(1, nr)]
        lt = sorted([rng.randint(0, pick) for _ in range(rng.randint(1, 8))] + [pick] * rng.randint(1, 2))
        yield "asof", {"lt": lt, "rt": rt, "nl": rng.randint(1, 3), "nr": rng.randint(2, 5),
                       "direction": rng.choice(["backward", "forward", "nearest"]), "tolerance": None, "exact": rng.choice([None, False])}
    for _ in range(ctx.n(40, 400)):
        nl, nr = rng.randint(1, 12), rng.randint(1, 12)
        yield "asof", {"lt": [rng.randint(0, 30) for _ in range(nl)], "rt": [rng.randint(0, 30) for _ in range(nr)],
                       "nl": rng.randint(1, 4), "nr": rng.randint(1, 4), "direction": rng.choice(["backward", "forward", "nearest"]),
                       "tolerance": rng.choice([None, None, 3]), "exact": rng.choice([None, None, False])}
