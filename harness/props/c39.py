"""C39 — joins and concatenation equal pandas.

Model:    lean/DaskModel/Model/Join.lean (pandas merge semantics on one pair of frames as the specification; hash join =
          shuffle both sides + partition-wise join; broadcast joins), Model/MergePlan.lean (which plan Merge._lower picks),
          Model/Align.lean (index joins / interleaved concat on the union divisions), Model/MergeAsof.lean (pair_partitions,
          tails / heads, the padded partition-wise merge_asof, pandas' per-row asof semantics)
Theorems: lean/DaskModel/Props/C39.lean, C39Plan.lean, C39Align.lean, C39Asof.lean, C39xAlignDivs.lean
Tie:      function level: merge_plan (Merge._lower's lowered expression vs MergePlan.lower, no compute), pair_partitions
          (real plan vs the Lean walk + the certificate planOK on the real plan), asof_spec (pandas.merge_asof vs Lean asof),
          asof_pads (compute_tails / compute_heads graphs vs tailOf / headOf), asof_plan (every output partition of
          dd.merge_asof, row by row in order, vs Lean planOut on the real plan), index_join_plan (union divisions, the
          aligned partitions keep rows / are truthful, every output partition vs Lean alignedJoin), interleave_plan,
          align_divs / align_apply (props/_c39x_align.py: calc_divisions_for_align, MaybeAlignPartitions._divisions/_lower,
          Concat axis=1, Merge._lower divisions vs Model/AlignDivs.lean; the lowered operands' partitions vs applyPlan);
          API level: merge / join (inner, left, right, outer, leftsemi; on columns or index; known or unknown divisions;
          hash or broadcast; tasks or disk shuffle; npartitions=; chained merges), concat (both axes, interleave_partitions,
          join inner/outer, projections), merge_asof on columns — vs pandas as multisets of rows (order where promised) and,
          for single-key merges, vs the Lean specification (`join`) and the Lean plan (`hash-join`).
"""
from __future__ import annotations

import itertools

from sexp import Sym

from props import _c39x_align as XA
from props import _dfpart_util as U

PROP = "C39"
READY = True
DRIVER = "dm_dfpart"
LEAN_MODULES = ["DaskModel.Props.C39", "DaskModel.Props.C39Asof", "DaskModel.Props.C39Align", "DaskModel.Props.C39Plan",
                "DaskModel.Props.C39xAlignDivs"]
CASE_TIMEOUT_S = 90
ASSUMPTIONS = ["pandas DataFrame.merge on one pair of partitions is the oracle-checked atom; the Lean `inner/left/leftsemi/"
               "outer/right` specification is diffed against pandas on every merge case (NaN keys match NaN keys)",
               "pandas.merge_asof on one pair of frames = the Lean per-row `asof` (last row at/before, first row at/after, the "
               "closer one with ties going backward, tolerance, allow_exact_matches): diffed on every run (asof_spec); `by=` "
               "is not modelled",
               "a shuffle delivers to partition p a permutation of the rows whose key hashes to p (C40); the alignment step "
               "is no longer an assumption: Props/C39xAlignDivs composes the common-division computation with C44's "
               "divisions_total / divisions_rows_order_truthful (frames with legal known divisions whose partitions are "
               "truthful and in index order — what from_pandas / set_index / sorted sources deliver)",
               "division values enter the alignment code only through <, ==, min, max: string divisions are tied through a "
               "strictly monotone word list (the model sees the ranks)",
               "the scan networks prefix_reduction / suffix_reduction return the last row of the most recent / first row of "
               "the next non-empty partition (diffed against tailOf / headOf on every run, not proved)"]
LEVEL_TEXT = ("Lean 4 theorems for ALL frames and partitionings (multisets of output rows; rows are (key, id)): "
              "(1) hash join = global join for inner/left/leftsemi/outer/right, every hash function and partition count "
              "(hash_join_*); colocated_join_eq_global / colocated_join_perm: the same for ANY classification of the keys and "
              "rows in any order inside the partitions; "
              "(2) the broadcast plans (broadcast_inner_eq_global, broadcast_split_eq_global; leftsemi_left_broadcast_refuted is "
              "the repaired defect #21); the single-partition plan (joinWith_flatten_left, inner_flatten_right, "
              "right_flatten_right); which plan Merge._lower picks is modelled (MergePlan.lower, after fix 5e52220) and diffed "
              "against the lowered expression, with lower_single_sound / lower_broadcast_sound saying the chosen plan is one a "
              "theorem covers; "
              "(3) index joins with known divisions: index_join_eq_global / index_outer_eq_global (blockwise join of the "
              "partitions aligned to the union divisions = global join; the alignment step is the C44 theorem "
              "Repart.layer_sound, cited as hypothesis and checked on every case); concat_interleave_sorted (rows of all "
              "frames, truthful for the union divisions); concat_axis0_den; "
              "(3x) the alignment step itself (Model/AlignDivs.lean, for any number of frames and all legal division "
              "vectors): common_divisions_sorted_unique (strictly increasing with >= 2 entries, or (d, d)), "
              "align_divisions_valid (calc_divisions_for_align / MaybeAlignPartitions._divisions / Concat._divisions(axis=1) "
              "never raise and return legal divisions), common_divisions_cover (every input interval is a run of common "
              "intervals, no boundary invented), common_divisions_guards + aligned_total (Repartition(force=True) onto them "
              "never raises), aligned_partitions_colocate (rows kept in order, truthful, equal index value => same partition "
              "number in every frame), aligned_plan_truthful / aligned_plan_colocate (the same for the plan "
              "MaybeAlignPartitions._lower picks: as they are / SetDivisions / repartition), index_join_eq_global_full, "
              "index_outer_eq_global_full, aligned_binop_eq_global_full (partition-wise index join / outer pairing = global, "
              "hypotheses on the INPUT frames only); "
              "(4) merge_asof: pairPartitions_ok (pair_partitions is total and its plan passes the certificate planOK for all "
              "non-decreasing divisions), asof_plan_eq_global and merge_asof_eq_global (for truthful sorted frames the padded "
              "partition-wise merge_asof gives every left row, in order, the match it has in the WHOLE right frame, for "
              "backward / forward / nearest, tolerance and allow_exact_matches). "
              "VALIDATED against pandas only: suffixes, indicator, several key columns, NaN keys, merges on columns of "
              "merge_asof (left_on/right_on), the column handling of concat axis=1 (join=inner/outer), unknown divisions, disk "
              "shuffle; the element-wise operator / pandas concat kernel applied to the paired rows of one partition.")
LEVEL_NOTE = ("Trusted: Lean kernel + standard axioms; pandas merge / merge_asof kernels on one pair of partitions; HashJoinP2P "
              "needs `distributed` (absent) and is not reachable here; float `broadcast=` bias is not modelled.")
TECHNIQUE = ("Lean 4 proof (permutation of key classes, distribution of joins over concatenation, loop invariant of the "
             "pair_partitions walk, certificate soundness) + function-level and API-level differential correspondence")
TRUSTED = ["pandas.DataFrame.merge / pandas.merge_asof on in-memory frames"]

NA = 97    # interned NaN key for the model


def _frames(inp):
    import numpy as np
    import pandas as pd
    kl, kr = inp["lk"], inp["rk"]
    conv = (lambda v: np.nan if v is None else float(v)) if inp.get("na") else (lambda v: v)
    left = pd.DataFrame({"k": [conv(v) for v in kl], "k2": [(v or 0) % 2 for v in kl], "lv": range(len(kl))},
                        index=pd.Index(inp.get("lidx") or list(range(len(kl))), dtype="int64"))
    right = pd.DataFrame({"k": [conv(v) for v in kr], "k2": [(v or 0) % 2 for v in kr], "rv": range(len(kr))},
                         index=pd.Index(inp.get("ridx") or list(range(len(kr))), dtype="int64"))
    return left, right


def _rows(df, cols):
    out = []
    for t in df[cols].itertuples(index=False):
        out.append(tuple(None if (isinstance(v, float) and v != v) else (int(v) if isinstance(v, (int, float)) and v == int(v) else v) for v in t))
    return sorted(out, key=repr)


def case_merge(ctx, inp):
    import dask
    import pandas as pd
    dd = U.dd()
    left, right = _frames(inp)
    how, on = inp["how"], inp["on"]
    dl = U.frame_from_cuts(left, inp["lcuts"])
    dr = U.frame_from_cuts(right, inp["rcuts"])
    kw = {}
    if inp.get("broadcast") is not None:
        kw["broadcast"] = inp["broadcast"]
    if inp.get("method"):
        kw["shuffle_method"] = inp["method"]
    if inp.get("indicator") and how != "leftsemi":
        kw["indicator"] = True
    if inp.get("suffixes"):
        kw["suffixes"] = tuple(inp["suffixes"])
    dkw = dict(kw)
    if inp.get("npartitions"):
        dkw["npartitions"] = inp["npartitions"]
    # pandas reference
    if how == "leftsemi":
        keys = set(map(tuple, right[on].astype(object).where(right[on].notna(), None).itertuples(index=False)))
        mask = [tuple(None if (isinstance(v, float) and v != v) else v for v in t) in keys
                for t in left[on].astype(object).where(left[on].notna(), None).itertuples(index=False)]
        exp = left[pd.Series(mask, index=left.index, dtype=bool)]
    else:
        exp = left.merge(right, on=on, how=how, **{k: v for k, v in kw.items() if k in ("indicator", "suffixes")})
    try:
        with dask.config.set(scheduler="sync"):
            got = dl.merge(dr, on=on, how=how, **dkw).compute()
    except Exception as e:  # noqa: BLE001
        ctx.fail(f"merge(how={how}) raised: " + U.exc_name(e), observed=[U.exc_name(e), dkw])
        return
    cols = [c for c in exp.columns]
    if sorted(got.columns) != sorted(cols):
        ctx.fail("merge: columns differ from pandas", observed=list(got.columns), expected=cols)
        return
    g, e = _rows(got, cols), _rows(exp, cols)
    if g != e:
        ctx.fail(f"merge(how={how}, {dkw}) differs from pandas as a multiset of rows", observed=g[:25], expected=e[:25])
    ctx.branch(f"merge-{how}-" + ("bcast" if kw.get("broadcast") else "nobcast" if kw.get("broadcast") is False else "auto")
               + ("-multi" if len(inp["lcuts"]) > 2 and len(inp["rcuts"]) > 2 else ""))
    # Lean specification and plan on the single key `k`
    if on == ["k"] and not kw.get("indicator"):
        L = [[NA if v is None else int(v), i] for i, v in enumerate(inp["lk"])]
        R = [[NA if v is None else int(v), i] for i, v in enumerate(inp["rk"])]
        spec = ctx.lean(Sym("join"), Sym(how), L, R)
        plan = ctx.lean(Sym("hash-join"), Sym(how), max(1, inp.get("n", 3)), L, R)

        def canon(rows):
            return sorted([[None if r[0] == NA else r[0], None if r[1] == "none" else r[1], None if r[2] == "none" else r[2]] for r in rows], key=repr)
        if how == "leftsemi":
            pe = sorted([[None if (v != v) else int(v), int(i), None] for v, i in zip(exp.k, exp.lv)], key=repr)
        else:
            pe = sorted([[None if (k != k) else int(k), None if (a != a) else int(a), None if (b != b) else int(b)]
                         for k, a, b in zip(exp.k, exp.lv, exp.rv)], key=repr)
        ctx.eq("Lean join specification vs pandas", canon(spec), pe)
        ctx.eq("Lean hash-join plan vs specification", canon(plan), canon(spec))
    del pd, dd


def case_chain(ctx, inp):
    """a merge chained after a merge that is lowered to a broadcast join (many vs few partitions): the second merge must
    still co-locate the keys of its input"""
    import dask
    import pandas as pd
    dd = U.dd()
    big = pd.DataFrame({"k": inp["bk"], "k2": [k % 3 for k in inp["bk"]], "bv": range(len(inp["bk"]))})
    small = pd.DataFrame({"k": inp["sk"], "sv": range(len(inp["sk"]))})
    third = pd.DataFrame({inp["on2"]: inp["tk"], "tv": range(len(inp["tk"]))})
    try:
        with dask.config.set(scheduler="sync"):
            m1 = dd.from_pandas(big, npartitions=inp["nb"]).merge(dd.from_pandas(small, npartitions=inp["ns"]), on="k", how=inp["how1"])
            got = m1.merge(dd.from_pandas(third, npartitions=inp["nt"]), on=inp["on2"], how=inp["how2"], broadcast=inp.get("broadcast2")).compute()
    except Exception as e:  # noqa: BLE001
        ctx.fail("chained merge raised: " + U.exc_name(e), observed=U.exc_name(e))
        return
    exp = big.merge(small, on="k", how=inp["how1"]).merge(third, on=inp["on2"], how=inp["how2"])
    cols = list(exp.columns)
    if sorted(got.columns) != sorted(cols) or _rows(got, cols) != _rows(exp, cols):
        ctx.fail("merge chained after a (broadcast) merge differs from pandas", observed=[len(got)], expected=[len(exp)])
    ctx.branch(f"chain-{inp['how1']}-{inp['how2']}-on-{inp['on2']}")


def case_index_bcast(ctx, inp):
    """broadcast requested for a merge whose larger (non-broadcast) side is joined on its index (since 5e52220: hash join)"""
    import dask
    dd = U.dd()
    left, right = _frames(inp)
    how = inp["how"]
    try:
        with dask.config.set(scheduler="sync"):
            if inp.get("side") == "right":
                ri = right.set_index("k")
                got = dd.from_pandas(left, npartitions=inp["nl"]).merge(
                    dd.from_pandas(ri, npartitions=inp["nr"], sort=False), left_on="k", right_index=True, how=how, broadcast=True).compute()
                exp = left.merge(ri, left_on="k", right_index=True, how=how)
            else:
                li = left.set_index("k")
                got = dd.from_pandas(li, npartitions=inp["nl"], sort=False).merge(
                    dd.from_pandas(right, npartitions=inp["nr"]), left_index=True, right_on="k", how=how, broadcast=True).compute()
                if how == "leftsemi":
                    exp = li[li.index.isin(set(right.k))].assign(rv=-1)
                    got = got.assign(rv=-1)
                else:
                    exp = li.merge(right, left_index=True, right_on="k", how=how)
    except NotImplementedError as e:
        if how == "leftsemi" and "leftsemi" in str(e):
            ctx.branch("index-bcast-leftsemi-on-the-index-refused")     # explicit refusal (85278ed: no longer a TypeError)
            return
        ctx.fail("index broadcast merge raised: " + U.exc_name(e), observed=U.exc_name(e))
        return
    except Exception as e:  # noqa: BLE001
        ctx.fail("index broadcast merge raised: " + U.exc_name(e), observed=U.exc_name(e))
        return
    g = sorted(zip(got.lv.fillna(-1), got.rv.fillna(-1)))
    e = sorted(zip(exp.lv.fillna(-1), exp.rv.fillna(-1)))
    if g != e:
        ctx.fail("index broadcast merge differs from pandas", observed=g[:20], expected=e[:20])
    ctx.branch("index-bcast-" + how + "-" + inp.get("side", "left"))


def case_join(ctx, inp):
    """index joins (known divisions from from_pandas, or unknown)"""
    import dask
    dd = U.dd()
    left, right = _frames(inp)
    left = left[["lv"]].set_axis(inp["lidx"], axis=0).sort_index(kind="stable")
    right = right[["rv"]].set_axis(inp["ridx"], axis=0).sort_index(kind="stable")
    how = inp["how"]
    if inp["known"]:
        dl = dd.from_pandas(left, npartitions=inp["nl"])
        dr = dd.from_pandas(right, npartitions=inp["nr"])
    else:
        dl = dd.from_pandas(left, npartitions=inp["nl"]).clear_divisions()
        dr = dd.from_pandas(right, npartitions=inp["nr"]).clear_divisions()
    try:
        with dask.config.set(scheduler="sync"):
            if inp.get("via") == "merge":
                r = dl.merge(dr, left_index=True, right_index=True, how=how)
                exp = left.merge(right, left_index=True, right_index=True, how=how)
            else:
                r = dl.join(dr, how=how)
                exp = left.join(right, how=how)
            got = r.compute()
            divs = list(r.divisions)
            parts = U.partitions(r)
    except Exception as e:  # noqa: BLE001
        ctx.fail(f"index join(how={how}) raised: " + U.exc_name(e), observed=U.exc_name(e))
        return
    gi = sorted(zip(got.index, got.lv.fillna(-1), got.rv.fillna(-1)))
    ei = sorted(zip(exp.index, exp.lv.fillna(-1), exp.rv.fillna(-1)))
    if gi != ei:
        ctx.fail(f"index join(how={how}) differs from pandas as a multiset of rows", observed=gi[:25], expected=ei[:25])
    if divs[0] is not None:
        why = U.truthful(divs, parts)
        if why:
            ctx.fail("index join result not truthful: " + why, observed=[divs, [list(p.index) for p in parts]])
    ctx.branch(f"join-{how}-" + ("known" if inp["known"] else "unknown"))


def case_concat(ctx, inp):
    import dask
    import pandas as pd
    dd = U.dd()
    frames, dfs = [], []
    for i, spec in enumerate(inp["frames"]):
        idx = sorted(spec["idx"]) if inp["known"] else spec["idx"]
        cols = {"x": [i * 100 + j for j in range(len(idx))]}
        if spec.get("extra"):
            cols["y%d" % (i % 2)] = [float(j) for j in range(len(idx))]
        df = pd.DataFrame(cols, index=pd.Index(idx, dtype="int64"))
        dfs.append(df)
        d = dd.from_pandas(df, npartitions=spec["n"], sort=inp["known"])
        frames.append(d)
    axis = inp["axis"]
    kw = {"join": inp["join"]}
    if axis == 0:
        kw["interleave_partitions"] = inp["interleave"]
    try:
        with dask.config.set(scheduler="sync"):
            if axis == 1:
                # axis=1 needs unique aligned indexes: use the first frame's index for all
                base = dfs[0].index.unique()
                dfs = [df[~df.index.duplicated()].reindex(base).rename(columns=lambda c, i=i: f"{c}_{i}") for i, df in enumerate(dfs)]
                frames = [dd.from_pandas(df, npartitions=inp["frames"][i]["n"], sort=True) for i, df in enumerate(dfs)]
                r = dd.concat(frames, axis=1, join=inp["join"])
                exp = pd.concat([df.sort_index() for df in dfs], axis=1, join=inp["join"])
            else:
                r = dd.concat(frames, axis=0, **kw)
                exp = pd.concat(dfs, axis=0, join=inp["join"])
                if inp.get("project"):
                    cols_p = [c for c in inp["project"] if c in exp.columns]
                    if cols_p:
                        r, exp = r[cols_p], exp[cols_p]
            got = r.compute()
            divs = list(r.divisions)
            parts = U.partitions(r)
    except ValueError as e:
        if axis == 0 and inp["known"] and not inp["interleave"] and "interleave_partitions" in str(e):
            ctx.branch("concat-rejected-overlap")      # documented: overlapping divisions need interleave_partitions=True
            return
        ctx.fail("concat raised: " + U.exc_name(e), observed=U.exc_name(e))
        return
    except Exception as e:  # noqa: BLE001
        ctx.fail("concat raised: " + U.exc_name(e), observed=U.exc_name(e))
        return
    if sorted(got.columns) != sorted(exp.columns):
        ctx.fail("concat: columns differ from pandas", observed=list(got.columns), expected=list(exp.columns))
        return
    cols = list(exp.columns)
    g = sorted(zip(got.index, *[got[c].fillna(-1) for c in cols]))
    e = sorted(zip(exp.index, *[exp[c].fillna(-1) for c in cols]))
    if g != e:
        ctx.fail("concat differs from pandas as a multiset of rows", observed=g[:20], expected=e[:20])
    if axis == 0 and not inp["interleave"] and not (divs[0] is not None):
        # plain stacking promises the order of pandas.concat
        if "x" in exp.columns and list(got.x) != list(exp.x):
            ctx.fail("concat(axis=0) without known divisions does not stack the partitions in order", observed=list(got.x)[:30])
    if divs[0] is not None:
        why = U.truthful(divs, parts)
        if why:
            ctx.fail("concat result not truthful: " + why, observed=[divs, [list(p.index) for p in parts]])
    ctx.branch(f"concat-axis{axis}-{inp['join']}-" + ("known" if inp["known"] else "unknown") + ("-interleave" if axis == 0 and inp["interleave"] else ""))


def case_asof(ctx, inp):
    import dask
    import pandas as pd
    dd = U.dd()
    left = pd.DataFrame({"t": sorted(inp["lt"]), "lv": range(len(inp["lt"]))})
    right = pd.DataFrame({"t": sorted(inp["rt"]), "rv": range(len(inp["rt"]))})
    kw = {"on": "t", "direction": inp["direction"]}
    if inp.get("tolerance") is not None:
        kw["tolerance"] = inp["tolerance"]
    if inp.get("exact") is False:
        kw["allow_exact_matches"] = False
    exp = pd.merge_asof(left, right, **kw)
    try:
        with dask.config.set(scheduler="sync"):
            got = dd.merge_asof(dd.from_pandas(left, npartitions=inp["nl"]), dd.from_pandas(right, npartitions=inp["nr"]), **kw).compute()
    except Exception as e:  # noqa: BLE001
        ctx.fail("merge_asof raised: " + U.exc_name(e), observed=U.exc_name(e))
        return
    g = sorted(zip(got.t, got.lv, got.rv.fillna(-1)))
    e = sorted(zip(exp.t, exp.lv, exp.rv.fillna(-1)))
    if g != e:
        ctx.fail(f"merge_asof({kw}) differs from pandas", observed=g[:25], expected=e[:25])
    ctx.branch("asof-" + inp["direction"])



# ---------------------------------------------------------------------------------------------------------------------
# merge_asof: pair_partitions / padding rows / the planned computation (Model/MergeAsof.lean, Props/C39Asof.lean)
# ---------------------------------------------------------------------------------------------------------------------

def _plan_lean(plan):
    return [[[j, Sym("none") if lo is None else int(lo), Sym("none") if up is None else int(up)] for j, lo, up in J] for J in plan]


def case_pair_partitions(ctx, inp):
    """multi.pair_partitions vs Lean `pairPartitions`; the certificate `planOK` of the soundness theorem on the REAL plan"""
    U.dd()
    from dask.dataframe.multi import pair_partitions
    L, R = inp["L"], inp["R"]
    try:
        real_plan = pair_partitions(tuple(L), tuple(R))
        real = ["ok", [[[j, lo, up] for j, lo, up in J] for J in real_plan]]
    except IndexError:
        real = ["raised"]
    model = ctx.lean(Sym("pair-partitions"), L, R)
    ctx.eq("pair_partitions", model, real)
    if real[0] == "ok":
        ok = ctx.lean(Sym("pair-plan-ok"), L, R, _plan_lean(real_plan))
        if ok is not True:
            ctx.fail("the plan of pair_partitions fails the certificate planOK (some left key would meet the wrong right partition, "
                     "or the pieces do not tile the left partition)", observed=real[1])
        npieces = sum(len(J) for J in real_plan)
        ctx.branch("pairs-%s" % ("1-piece-each" if npieces == len(real_plan) else "split-left-partitions"))
        if len(L) >= 2 and any(L[-1] == r for r in R[1:-1]):
            ctx.branch("pairs-last-left-division-on-a-right-boundary")
        if any(lo is None and j > 0 for J in real_plan for j, lo, up in J[:1]):
            ctx.branch("pairs-left-partition-starts-inside-a-right-partition")
        if L[0] < R[0]:
            ctx.branch("pairs-left-starts-before-right")
        if L[-1] > R[-1]:
            ctx.branch("pairs-left-ends-after-right")


def _asof_opts(inp):
    tol = inp.get("tolerance")
    return [Sym(inp["direction"]), inp.get("exact") is not False, Sym("none") if tol is None else int(tol)]


def _asof_kw(inp):
    kw = {"direction": inp["direction"]}
    if inp.get("tolerance") is not None:
        kw["tolerance"] = inp["tolerance"]
    if inp.get("exact") is False:
        kw["allow_exact_matches"] = False
    return kw


def _number(parts, start=0):
    out, pos = [], start
    for ks in parts:
        out.append([[int(k), pos + t] for t, k in enumerate(ks)])
        pos += len(ks)
    return out


def case_asof_spec(ctx, inp):
    """pandas.merge_asof on one pair of frames vs the Lean specification `asof` (duplicate keys, ties, tolerance, strict)"""
    import pandas as pd
    lt, rt = sorted(inp["lt"]), sorted(inp["rt"])
    left = pd.DataFrame({"lv": range(len(lt))}, index=pd.Index(lt, dtype="int64"))
    right = pd.DataFrame({"rv": range(len(rt))}, index=pd.Index(rt, dtype="int64"))
    exp = pd.merge_asof(left, right, left_index=True, right_index=True, **_asof_kw(inp))
    model = ctx.lean(Sym("asof-spec"), _asof_opts(inp), [[k, i] for i, k in enumerate(lt)], [[k, i] for i, k in enumerate(rt)])
    ctx.eq("pandas.merge_asof vs Lean asof", model, [[int(a), None if b != b else int(b)] for a, b in zip(exp.lv, exp.rv)])
    ctx.branch("asof_spec-%s%s%s" % (inp["direction"], "-tol" if inp.get("tolerance") is not None else "", "-strict" if inp.get("exact") is False else ""))
    if len(set(rt)) < len(rt):
        ctx.branch("asof_spec-duplicate-right-keys")


def case_asof_pads(ctx, inp):
    """compute_tails / compute_heads (the prefix / suffix reductions) vs Lean `tailOf` / `headOf`"""
    import dask
    U.dd()
    from dask.dataframe.dask_expr._merge_asof import compute_heads, compute_tails
    dr = U.frame_from_parts(inp["Rk"], divisions=inp["R"])
    e = dr.optimize(fuse=False).expr.lower_completely()
    full = dict(e.__dask_graph__())
    full.update(compute_tails(e, "c39-tails"))
    full.update(compute_heads(e, "c39-heads"))
    n = len(inp["Rk"])
    tails = [[int(v) for v in x.v] for x in dask.get(full, [("c39-tails", j) for j in range(n)])]
    heads = [[int(v) for v in x.v] for x in dask.get(full, [("c39-heads", j) for j in range(n)])]
    model = ctx.lean(Sym("asof-pads"), _number(inp["Rk"]))
    ctx.eq("tails: last row of the most recent non-empty partition before j", model[0], tails)
    ctx.eq("heads: first row of the next non-empty partition after j", model[1], heads)
    ctx.branch("asof_pads-n=%s%s" % ("pow2" if n & (n - 1) == 0 else "other", "-empty-partitions" if any(not p for p in inp["Rk"]) else ""))


def case_asof_plan(ctx, inp):
    """dd.merge_asof on frames with explicit partitions and divisions: every output partition, row by row in order, vs the
    Lean plan (`planOut` on the real pair_partitions plan) and vs pandas.merge_asof on the whole frames"""
    import dask
    import pandas as pd
    dd = U.dd()
    from dask.dataframe.multi import pair_partitions
    L, R, Lk, Rk = inp["L"], inp["R"], inp["Lk"], inp["Rk"]
    dl = U.frame_from_parts(Lk, divisions=L).rename(columns={"v": "lv"})
    dr = U.frame_from_parts(Rk, divisions=R).rename(columns={"v": "rv"})
    kw = _asof_kw(inp)
    try:
        with dask.config.set(scheduler="sync"):
            r = dd.merge_asof(dl, dr, left_index=True, right_index=True, **kw)
            parts = U.partitions(r)
            divs = list(r.divisions)
    except Exception as e:  # noqa: BLE001
        ctx.fail("merge_asof raised: " + U.exc_name(e), observed=U.exc_name(e))
        return
    got = [[[int(a), None if b != b else int(b)] for a, b in zip(p.lv, p.rv)] for p in parts]
    lt = [k for p in Lk for k in p]
    rt = [k for p in Rk for k in p]
    left = pd.DataFrame({"lv": range(len(lt))}, index=pd.Index(lt, dtype="int64"))
    right = pd.DataFrame({"rv": range(len(rt))}, index=pd.Index(rt, dtype="int64"))
    exp = pd.merge_asof(left, right, left_index=True, right_index=True, **kw)
    e = [[int(a), None if b != b else int(b)] for a, b in zip(exp.lv, exp.rv)]
    flat = [x for p in got for x in p]
    if flat != e:
        ctx.fail(f"merge_asof({kw}) differs from pandas (rows in order)", observed=flat[:25], expected=e[:25])
    if len(L) > 2 or len(R) > 2:
        plan = pair_partitions(tuple(L), tuple(R))
        model = ctx.lean(Sym("asof-plan"), _asof_opts(inp), _plan_lean(plan), _number(Lk), _number(Rk))
        ctx.eq("merge_asof partitions (Lean planOut on the real plan vs dask)", model, got)
        if ctx.lean(Sym("pair-plan-ok"), L, R, _plan_lean(plan)) is not True:
            ctx.fail("the plan used by merge_asof fails the certificate", observed=[list(map(list, J)) for J in plan])
    if divs[0] is not None:
        why = U.truthful(divs, parts)
        if why:
            ctx.fail("merge_asof result not truthful: " + why, observed=[divs, [list(p.index) for p in parts]])
    ctx.branch("asof_plan-%s%s%s" % (inp["direction"], "-tol" if inp.get("tolerance") is not None else "", "-strict" if inp.get("exact") is False else ""))
    if any(not p for p in Rk):
        ctx.branch("asof_plan-empty-right-partition")
    if lt and any(lt[-1] == r for r in R[1:-1]):
        ctx.branch("asof_plan-last-left-key-on-a-right-boundary")


# ---------------------------------------------------------------------------------------------------------------------
# index joins on aligned divisions / interleaved concat (Model/Align.lean, Props/C39Align.lean)
# ---------------------------------------------------------------------------------------------------------------------

def _keys_rows(parts, start=0):
    return _number(parts, start)


def case_index_join_plan(ctx, inp):
    """fully indexed merge of frames with explicit partitions and known divisions: common divisions vs Lean `unionDivs`,
    both sides repartitioned to them (rows kept, truthful), every output partition vs Lean `alignedJoin` on the aligned
    partitions, all rows vs pandas"""
    import dask
    dd = U.dd()
    L, R, Lk, Rk, how = inp["L"], inp["R"], inp["Lk"], inp["Rk"], inp["how"]
    dl = U.frame_from_parts(Lk, divisions=L).rename(columns={"v": "lv"})
    dr = U.frame_from_parts(Rk, divisions=R).rename(columns={"v": "rv"})
    try:
        with dask.config.set(scheduler="sync"):
            r = dl.merge(dr, left_index=True, right_index=True, how=how)
            divs = list(r.divisions)
            parts = U.partitions(r)
            d = ctx.lean(Sym("union-divs"), [L, R])
            al = U.partitions(dl.repartition(divisions=d, force=True))
            ar = U.partitions(dr.repartition(divisions=d, force=True))
    except Exception as e:  # noqa: BLE001
        ctx.fail(f"index merge(how={how}) raised: " + U.exc_name(e), observed=U.exc_name(e))
        return
    if len(Lk) > 1 and len(Rk) > 1:
        ctx.eq("divisions of a fully indexed merge = unique(merge_sorted(left, right))", d, divs)
        # the alignment step: rows kept in order, partitions truthful for the common divisions (hypotheses of index_join_eq_global)
        for side, aligned, src in (("left", al, Lk), ("right", ar, Rk)):
            if [int(k) for p in aligned for k in p.index] != [k for p in src for k in p]:
                ctx.fail(f"repartition of the {side} side to the common divisions does not keep the rows in order", observed=[list(p.index) for p in aligned])
            why = U.truthful(d, aligned)
            if why:
                ctx.fail(f"{side} side not truthful for the common divisions: " + why, observed=[d, [list(p.index) for p in aligned]])
        keys = sorted({int(k) for p in al + ar for k in p.index})
        cls = ctx.lean(Sym("class-of"), d, keys)
        for aligned in (al, ar):
            for i, p in enumerate(aligned):
                for k in p.index:
                    if cls[keys.index(int(k))] != i:
                        ctx.disagree("classOf: interval of a key of an aligned partition", cls[keys.index(int(k))], i)
        model = ctx.lean(Sym("aligned-join"), Sym(how), [[[int(k), int(v)] for k, v in zip(p.index, p.lv)] for p in al],
                         [[[int(k), int(v)] for k, v in zip(p.index, p.rv)] for p in ar])
        got = [sorted([[int(k), None if a != a else int(a), None if b != b else int(b)] for k, a, b in zip(p.index, p.lv, p.rv)], key=repr)
               for p in parts]
        ctx.eq("partitions of the index merge (Lean alignedJoin on the aligned partitions vs dask, multisets)",
               [sorted(p, key=repr) for p in model], got)
    import pandas as pd
    left = pd.DataFrame({"lv": range(sum(map(len, Lk)))}, index=pd.Index([k for p in Lk for k in p], dtype="int64"))
    right = pd.DataFrame({"rv": range(sum(map(len, Rk)))}, index=pd.Index([k for p in Rk for k in p], dtype="int64"))
    exp = left.merge(right, left_index=True, right_index=True, how=how)
    g = sorted([[int(k), None if a != a else int(a), None if b != b else int(b)] for p in parts for k, a, b in zip(p.index, p.lv, p.rv)], key=repr)
    e = sorted([[int(k), None if a != a else int(a), None if b != b else int(b)] for k, a, b in zip(exp.index, exp.lv, exp.rv)], key=repr)
    if g != e:
        ctx.fail(f"index merge(how={how}) differs from pandas as a multiset of rows", observed=g[:25], expected=e[:25])
    if divs and divs[0] is not None:
        why = U.truthful(divs, parts)
        if why:
            ctx.fail("index merge result not truthful: " + why, observed=[divs, [list(p.index) for p in parts]])
    ctx.branch(f"index_join_plan-{how}-" + ("aligned" if len(Lk) > 1 and len(Rk) > 1 else "single-partition-side"))
    if set(L) == set(R):
        ctx.branch("index_join_plan-same-divisions")


def case_interleave_plan(ctx, inp):
    """concat(frames with known overlapping divisions, interleave_partitions=True): divisions vs Lean `unionDivsAll`, every
    output partition vs Lean `interleave` on the aligned partitions; rows = rows of all frames; truthful"""
    import dask
    dd = U.dd()
    frames, pos = [], 0
    for f in inp["frames"]:
        n = sum(map(len, f["keys"]))
        d = U.frame_from_parts(f["keys"], divisions=f["divs"])
        d = d.assign(v=d.v + pos)
        frames.append(d)
        pos += n
    try:
        with dask.config.set(scheduler="sync"):
            r = dd.concat(frames, interleave_partitions=True)
            divs = list(r.divisions)
            parts = U.partitions(r)
    except Exception as e:  # noqa: BLE001
        ctx.fail("concat(interleave_partitions=True) raised: " + U.exc_name(e), observed=U.exc_name(e))
        return
    got = [[int(v) for v in p.v] for p in parts]
    allrows = sorted(v for p in got for v in p)
    if allrows != list(range(pos)):
        ctx.fail("concat(interleave_partitions=True) does not return exactly the rows of all frames", observed=allrows[:40], expected=pos)
    if divs[0] is not None:
        why = U.truthful(divs, parts)
        if why:
            ctx.fail("interleaved concat not truthful: " + why, observed=[divs, [list(p.index) for p in parts]])
    ds = [f["divs"] for f in inp["frames"]]
    mono = all(a[-1] < b[0] for a, b in zip(ds, ds[1:]))
    if not mono:
        d = ctx.lean(Sym("union-divs"), ds) if len(ds) != 2 else ctx.lean(Sym("union-divs"), [ds[0], ds[1]])
        ctx.eq("divisions of the interleaved concat = unique(merge_sorted(all divisions))", d, divs)
        with dask.config.set(scheduler="sync"):
            aligned = [U.partitions(f.repartition(divisions=d, force=True)) for f in frames]
        model = ctx.lean(Sym("interleave"), len(d) - 1, [[[[int(k), int(v)] for k, v in zip(p.index, p.v)] for p in fr] for fr in aligned])
        ctx.eq("partitions of the interleaved concat (Lean interleave on the aligned partitions vs dask)", model, got)
        ctx.branch("interleave_plan-%d-frames" % len(frames))
    else:
        ctx.branch("interleave_plan-monotonic-divisions-stacked")


def case_merge_plan(ctx, inp):
    """Merge._lower: the plan the real expression is lowered to vs Lean `MergePlan.lower` (no compute)"""
    import pandas as pd
    dd = U.dd()
    n = 48
    lk, rk = list(range(n)), [(i * 7) % n for i in range(n)]
    left = pd.DataFrame({"k": lk, "lv": range(n)})
    right = pd.DataFrame({"k": rk, "rv": range(n)})
    how, kind = inp["how"], inp["kind"]
    kw = {"how": how}
    if inp.get("broadcast") is not None:
        kw["broadcast"] = inp["broadcast"]
    if inp.get("npartitions"):
        kw["npartitions"] = inp["npartitions"]
    try:
        if kind == "index":           # both sides joined on their index; known divisions unless cleared
            dl = dd.from_pandas(left.set_index("k"), npartitions=inp["nl"])
            dr = dd.from_pandas(right.set_index("k").sort_index(), npartitions=inp["nr"])
            if inp.get("unknown"):
                dl, dr = dl.clear_divisions(), dr.clear_divisions()
            m = dl.merge(dr, left_index=True, right_index=True, **kw)
        elif kind == "left_index":
            m = dd.from_pandas(left.set_index("k"), npartitions=inp["nl"], sort=False).merge(
                dd.from_pandas(right, npartitions=inp["nr"]), left_index=True, right_on="k", **kw)
        elif kind == "chain":         # the left input is itself a hash join on the key: already partitioned
            first = dd.from_pandas(left, npartitions=inp["nl"]).merge(
                dd.from_pandas(right.rename(columns={"rv": "r0"}), npartitions=inp["nl"]), on="k", how="left", broadcast=False)
            m = first.merge(dd.from_pandas(right, npartitions=inp["nr"]), on="k", **kw)
        else:
            m = dd.from_pandas(left, npartitions=inp["nl"]).merge(dd.from_pandas(right, npartitions=inp["nr"]), on="k", **kw)
    except NotImplementedError:
        ctx.branch("merge_plan-refused")
        return
    from dask.dataframe.dask_expr._merge import Merge
    e = next(x for x in m.expr.walk() if isinstance(x, Merge))
    low = e._lower()
    tl, tr = type(low.left).__name__, type(low.right).__name__
    if type(low).__name__ == "BroadcastJoin":
        left_side = e.broadcast_side == "left"
        small, other = (low.left, low.right) if left_side else (low.right, low.left)
        real = ["broadcast", left_side, type(small).__name__ == "RearrangeByColumn",
                other.operand("new_partitions") if type(other).__name__ == "Repartition" else None]
    elif type(low).__name__ == "BlockwiseMerge":
        if tl == "Repartition" and tr == "Repartition" and low.left.operand("new_divisions") is not None:
            real = ["aligned"]
        else:
            real = ["blockwise", tl == "RearrangeByColumn", tr == "RearrangeByColumn"]
            if real[1] or real[2]:
                real.append((low.left if real[1] else low.right).npartitions)
    else:
        real = [type(low).__name__]
    model = ctx.lean(Sym("merge-plan"), e.left.npartitions, e.right.npartitions, Sym(how),
                     Sym("none") if inp.get("broadcast") is None else bool(inp["broadcast"]),
                     bool(e.merge_indexed_left), bool(e.merge_indexed_right), bool(e.left_index), bool(e.right_index),
                     Sym("none") if not inp.get("npartitions") else inp["npartitions"],
                     bool(e._on_condition_already_partitioned(e.left, e.left_on)),
                     bool(e._on_condition_already_partitioned(e.right, e.right_on)))
    if model[0] == "single":
        want = ["blockwise", False, False]
    elif model[0] == "hash":
        want = ["blockwise", model[1], model[2]] + ([model[3]] if model[1] or model[2] else [])
    else:
        want = list(model)
    ctx.eq("Merge._lower: plan (Lean MergePlan.lower vs the lowered expression)", want, real)
    ctx.branch("merge_plan-%s-%s-%s" % (model[0], how, kind))


# ---------------------------------------------------------------------------------------------------------------------
# joint / history / source purity: several differently parameterised results of the SAME frames in one graph, repeated
# calls in one process, inputs unchanged
# ---------------------------------------------------------------------------------------------------------------------

def _shared_key_conflicts(graphs):
    """keys present in two graphs of differently parameterised expressions must carry equal tasks (the uuid-named inner
    keys of the disk shuffle are rebuilt per graph: its outer keys are skipped)"""
    from dask.base import tokenize
    out = []
    for a in range(len(graphs)):
        for b in range(a + 1, len(graphs)):
            for k in set(graphs[a]) & set(graphs[b]):
                name = k[0] if isinstance(k, tuple) else k
                if isinstance(name, str) and name.startswith(("diskshuffle-", "zpartd-", "barrier-")):
                    continue
                if tokenize(graphs[a][k]) != tokenize(graphs[b][k]):
                    out.append(str(k)[:80])
    return out


def case_joint(ctx, inp):
    import dask
    import pandas as pd
    dd = U.dd()
    left, right = _frames(inp)
    lcopy, rcopy = left.copy(deep=True), right.copy(deep=True)
    dl = U.frame_from_cuts(left, inp["lcuts"])
    dr = U.frame_from_cuts(right, inp["rcuts"])
    kind = inp["kind"]

    def build(v):
        if kind == "merge":
            kw = {k: v[k] for k in ("broadcast", "npartitions") if v.get(k) is not None}
            if v.get("method"):
                kw["shuffle_method"] = v["method"]
            return dl.merge(dr, on="k", how=v["how"], **kw)
        if kind == "concat":
            return dd.concat([dl, dr.rename(columns={"rv": "lv"})], join=v["join"], interleave_partitions=v.get("interleave", False))
        ls = dd.from_pandas(left.sort_values("k", kind="stable").reset_index(drop=True), npartitions=v["nl"])
        rs = dd.from_pandas(right.sort_values("k", kind="stable").reset_index(drop=True), npartitions=v["nr"])
        return dd.merge_asof(ls, rs, on="k", direction=v["direction"])

    def ref(v):
        if kind == "merge":
            if v["how"] == "leftsemi":
                return left[left.k.isin(set(right.k))]
            return left.merge(right, on="k", how=v["how"])
        if kind == "concat":
            return pd.concat([left, right.rename(columns={"rv": "lv"})], join=v["join"])
        return pd.merge_asof(left.sort_values("k", kind="stable").reset_index(drop=True),
                             right.sort_values("k", kind="stable").reset_index(drop=True), on="k", direction=v["direction"])
    variants = inp["variants"]
    try:
        with dask.config.set(scheduler="sync"):
            exprs = [build(v) for v in variants]
            graphs = [dict(e.__dask_graph__()) for e in exprs]
            solo = [build(v).compute() for v in variants]
            joint = dask.compute(*exprs)
            again = build(variants[0])                       # history: the first call once more, after all the others
            again_parts = U.partitions(again)
            same_cols = [i for i, r in enumerate(solo) if list(r.columns) == list(solo[0].columns)]
            stacked = dd.concat([exprs[i] for i in same_cols]).compute() if len(same_cols) > 1 else None
            pl = dl.persist()
            before = [p.copy(deep=True) for p in U.partitions(pl)]
            build(variants[-1])                               # a fresh expression next to a persisted input
            pl.merge(dr, on="k", how="inner").compute() if kind == "merge" else pl.k.sum().compute()
            after = U.partitions(pl)
    except Exception as e:  # noqa: BLE001
        ctx.fail(f"joint evaluation ({kind}) raised: " + U.exc_name(e), observed=U.exc_name(e))
        return
    for i, v in enumerate(variants):
        exp = ref(v)
        cols = list(exp.columns)
        e = _rows(exp, cols)
        if sorted(solo[i].columns) != sorted(cols) or _rows(solo[i], cols) != e:
            ctx.fail(f"{kind} {v} differs from pandas", observed=_rows(solo[i], cols)[:20], expected=e[:20])
        elif _rows(joint[i], cols) != e:
            ctx.fail(f"{kind} {v} evaluated together with {len(variants) - 1} differently parameterised results of the same frames "
                     "differs from its solo result", observed=_rows(joint[i], cols)[:20], expected=e[:20])
    cols0 = list(solo[0].columns)
    if _rows(pd.concat(again_parts) if again_parts else solo[0].iloc[:0], cols0) != _rows(solo[0], cols0):
        ctx.fail(f"{kind}: the first call repeated after other calls in the same process gives other partitions", observed=len(again_parts))
    if stacked is not None:
        want = _rows(pd.concat([solo[i] for i in same_cols]), cols0)
        if _rows(stacked, cols0) != want:
            ctx.fail(f"{kind}: concat of differently parameterised results of the same frames differs from the stacked solo results",
                     observed=len(stacked), expected=len(want))
    bad = _shared_key_conflicts(graphs)
    if bad:
        ctx.fail(f"{kind}: graphs of differently parameterised expressions share keys with different tasks", observed=bad[:5])
    if not left.equals(lcopy) or not right.equals(rcopy):
        ctx.fail(f"{kind}: the pandas inputs were modified by a compute", observed=[left.equals(lcopy), right.equals(rcopy)])
    if len(before) != len(after) or any(not a.equals(b) for a, b in zip(before, after)):
        ctx.fail(f"{kind}: persisted partitions changed after a compute that used them")
    ctx.branch("joint-%s-%d-variants" % (kind, len(variants)))

CASES = {"merge": case_merge, "join": case_join, "concat": case_concat, "asof": case_asof, "chain": case_chain,
         "index_bcast": case_index_bcast, "pair_partitions": case_pair_partitions, "asof_spec": case_asof_spec,
         "asof_pads": case_asof_pads, "asof_plan": case_asof_plan,
         "index_join_plan": case_index_join_plan, "interleave_plan": case_interleave_plan, "merge_plan": case_merge_plan, "joint": case_joint}
CASES.update(XA.CASES)


def _keys(rng, n, hi, na):
    ks = [rng.randint(0, hi) for _ in range(n)]
    if na:
        ks = [None if rng.random() < 0.15 else k for k in ks]
    return ks


def _gen_api(ctx):
    rng = ctx.rng
    for _ in range(ctx.n(160, 1700)):
        nl, nr = rng.randint(0, 14), rng.randint(0, 14)
        hi = rng.choice([1, 3, 6, 15])
        na = rng.random() < 0.25
        yield "merge", {"lk": _keys(rng, nl, hi, na), "rk": _keys(rng, nr, hi, na), "na": na,
                        "lcuts": U.rand_cuts(rng, nl, maxparts=rng.choice([1, 2, 4, 6])),
                        "rcuts": U.rand_cuts(rng, nr, maxparts=rng.choice([1, 2, 4, 6])),
                        "how": rng.choice(["inner", "left", "right", "outer", "leftsemi", "leftsemi"]),
                        "on": rng.choice([["k"], ["k"], ["k"], ["k", "k2"]]),
                        "broadcast": rng.choice([None, True, True, False, 0.9]),
                        "method": rng.choice([None, "tasks", "disk"]),
                        "indicator": rng.random() < 0.15, "suffixes": rng.choice([None, None, ["_l", "_r"]]),
                        "n": rng.randint(1, 5), "npartitions": rng.choice([None, None, 1, 2, 3, 7])}
    for _ in range(ctx.n(60, 600)):
        nl, nr = rng.randint(1, 12), rng.randint(1, 12)
        uniq = rng.random() < 0.5
        lidx = rng.sample(range(20), nl) if uniq else [rng.randint(0, 8) for _ in range(nl)]
        ridx = rng.sample(range(20), nr) if uniq else [rng.randint(0, 8) for _ in range(nr)]
        yield "join", {"lk": [0] * nl, "rk": [0] * nr, "lidx": lidx, "ridx": ridx,
                       "how": rng.choice(["inner", "left", "right", "outer"]), "known": rng.random() < 0.7,
                       "nl": rng.randint(1, 4), "nr": rng.randint(1, 4), "via": rng.choice(["join", "merge"])}
    for _ in range(ctx.n(60, 600)):
        known = rng.random() < 0.6
        k = rng.randint(2, 3)
        frames = []
        for i in range(k):
            n = rng.randint(1, 8)
            lo = i * 10 if rng.random() < 0.4 else 0
            frames.append({"idx": [rng.randint(lo, lo + 9) for _ in range(n)], "n": rng.randint(1, 3), "extra": rng.random() < 0.5})
        yield "concat", {"frames": frames, "axis": rng.choice([0, 0, 0, 1]), "join": rng.choice(["outer", "inner"]),
                         "interleave": rng.random() < 0.6, "known": known,
                         "project": rng.choice([None, ["y0"], ["y1"], ["x", "y1"], ["y0", "y1"]])}
    for _ in range(ctx.n(25, 250)):
        nbig = rng.randint(20, 80)
        hi = rng.choice([5, 12, 20])
        on2 = rng.choice(["k", "k", "k2"])
        yield "chain", {"bk": [rng.randint(0, hi) for _ in range(nbig)], "sk": list(range(hi + 1)) if rng.random() < 0.5 else [rng.randint(0, hi) for _ in range(rng.randint(1, 10))],
                        "tk": [rng.randint(0, hi if on2 == "k" else 2) for _ in range(rng.randint(1, 15))], "on2": on2,
                        "nb": rng.choice([12, 20, 32, 40]), "ns": rng.choice([1, 2, 2, 3]), "nt": rng.randint(1, 6),
                        "how1": rng.choice(["inner", "inner", "left"]), "how2": rng.choice(["inner", "left", "outer"]),
                        "broadcast2": rng.choice([None, False])}
    for _ in range(ctx.n(20, 200)):
        nl, nr = rng.randint(2, 14), rng.randint(2, 14)
        yield "index_bcast", {"lk": _keys(rng, nl, 6, False), "rk": _keys(rng, nr, 6, False), "nl": rng.randint(1, 5), "nr": rng.randint(1, 5),
                              "how": rng.choice(["inner", "left", "left", "right", "leftsemi"]), "side": "left"}
    for _ in range(ctx.n(8, 80)):
        nl, nr = rng.randint(2, 14), rng.randint(2, 14)
        yield "index_bcast", {"lk": _keys(rng, nl, 6, False), "rk": _keys(rng, nr, 6, False), "nl": rng.randint(1, 5), "nr": rng.randint(1, 5),
                              "how": rng.choice(["inner", "left", "right", "right"]), "side": "right"}
    # merge_asof around partition boundaries: the left frame's last key equals a key of the right frame that starts a
    # later right partition
    for _ in range(ctx.n(30, 300)):
        nr = rng.randint(4, 14)
        rt = sorted(rng.randint(0, 20) for _ in range(nr))
        pick = rt[rng.randrange(1, nr)]
        lt = sorted([rng.randint(0, pick) for _ in range(rng.randint(1, 8))] + [pick] * rng.randint(1, 2))
        yield "asof", {"lt": lt, "rt": rt, "nl": rng.randint(1, 3), "nr": rng.randint(2, 5),
                       "direction": rng.choice(["backward", "forward", "nearest"]), "tolerance": None, "exact": rng.choice([None, False])}
    for _ in range(ctx.n(40, 400)):
        nl, nr = rng.randint(1, 12), rng.randint(1, 12)
        yield "asof", {"lt": [rng.randint(0, 30) for _ in range(nl)], "rt": [rng.randint(0, 30) for _ in range(nr)],
                       "nl": rng.randint(1, 4), "nr": rng.randint(1, 4), "direction": rng.choice(["backward", "forward", "nearest"]),
                       "tolerance": rng.choice([None, None, 3]), "exact": rng.choice([None, None, False])}


def _sorted_divs(rng, nparts, lo, hi, dup_last=None, dup_inside=0.1):
    """non-decreasing division vector: strictly increasing except (sometimes) the last two / an inner repeat (empty partition)"""
    d = U.rand_divisions(rng, nparts, lo=lo, hi=max(hi, lo + nparts + 1), single_last=dup_last)
    if len(d) > 2 and rng.random() < dup_inside:
        t = rng.randrange(1, len(d) - 1)
        d[t] = d[t - 1]
    return sorted(d)


def _gen_pairs(ctx):
    rng = ctx.rng
    for _ in range(ctx.n(300, 3000)):
        n, m = rng.randint(1, 4), rng.randint(1, 5)
        lo = rng.choice([0, 0, 3, 8])
        L = _sorted_divs(rng, n, lo, lo + rng.choice([4, 8, 14]))
        R = _sorted_divs(rng, m, rng.choice([0, 0, 2, 6]), rng.choice([6, 12, 20]))
        if rng.random() < 0.35 and len(R) > 2:
            L[-1] = R[rng.randrange(1, len(R) - 1)]        # the left frame ends on a right partition boundary
            L = sorted(L)
        if rng.random() < 0.2 and len(R) > 2:
            L[0] = R[rng.randrange(1, len(R) - 1)]
            L = sorted(L)
        yield "pair_partitions", {"L": L, "R": R}
    if ctx.thorough():
        # exhaustive: every non-decreasing L (2..4 entries) and R (2..4 entries) over 0..4
        vecs = [list(v) for k in (2, 3, 4) for v in itertools.combinations_with_replacement(range(5), k)]
        for L in vecs:
            for R in vecs:
                yield "pair_partitions", {"L": L, "R": R}


def _rand_asof_opts(rng):
    return {"direction": rng.choice(["backward", "backward", "forward", "nearest"]),
            "tolerance": rng.choice([None, None, None, 1, 3]), "exact": rng.choice([None, None, False])}


def _gen_asof_spec(ctx):
    rng = ctx.rng
    for _ in range(ctx.n(150, 1500)):
        hi = rng.choice([4, 8, 20])
        d = {"lt": [rng.randint(0, hi) for _ in range(rng.randint(0, 8))], "rt": [rng.randint(0, hi) for _ in range(rng.randint(0, 8))]}
        d.update(_rand_asof_opts(rng))
        yield "asof_spec", d


def _gen_asof_pads(ctx):
    rng = ctx.rng
    for _ in range(ctx.n(40, 400)):
        m = rng.randint(1, 9)
        R = U.rand_divisions(rng, m, hi=40)
        yield "asof_pads", {"R": R, "Rk": U.rand_truthful_parts(rng, R, maxrows=3, p_empty=0.4)}


def _gen_asof_plan(ctx):
    rng = ctx.rng
    for _ in range(ctx.n(110, 1100)):
        n, m = rng.randint(1, 4), rng.randint(1, 5)
        L = U.rand_divisions(rng, n, lo=rng.choice([0, 0, 4]), hi=rng.choice([12, 20]))
        R = U.rand_divisions(rng, m, lo=rng.choice([0, 0, 3]), hi=rng.choice([10, 20, 26]))
        if rng.random() < 0.4 and len(R) > 2 and R[1] > L[0]:
            b = R[rng.randrange(1, len(R) - 1)]
            if b > L[-2] if len(L) > 1 else True:
                L[-1] = b                                   # the left frame's last division (and key) on a right boundary
        Lk = U.rand_truthful_parts(rng, L, maxrows=4, p_empty=0.15)
        Rk = U.rand_truthful_parts(rng, R, maxrows=4, p_empty=0.25)
        if Lk and rng.random() < 0.6:
            Lk[-1] = sorted(Lk[-1] + [L[-1]])              # a key equal to the last division
        d = {"L": L, "R": R, "Lk": Lk, "Rk": Rk}
        d.update(_rand_asof_opts(rng))
        yield "asof_plan", d
    if ctx.thorough():
        # exhaustive small space: 2 left x 2 right partitions, divisions over 0..3, one key per slot
        for L in ([0, 1, 3], [0, 2, 3], [1, 2, 3], [0, 2, 2]):
            for R in ([0, 1, 3], [0, 2, 3], [1, 2, 2], [0, 1, 1]):
                for lkeys in itertools.product(range(4), repeat=2):
                    for rkeys in itertools.product(range(4), repeat=2):
                        def ok(d, ks):
                            return d[0] <= ks[0] < d[1] and d[1] <= ks[1] <= d[2]
                        if ok(L, lkeys) and ok(R, rkeys):
                            for direction in ("backward", "forward", "nearest"):
                                for exact in (None, False):
                                    yield "asof_plan", {"L": L, "R": R, "Lk": [[lkeys[0]], [lkeys[1]]], "Rk": [[rkeys[0]], [rkeys[1]]],
                                                        "direction": direction, "tolerance": None, "exact": exact}


def _gen_align(ctx):
    rng = ctx.rng
    for _ in range(ctx.n(80, 900)):
        n, m = rng.randint(1, 4), rng.randint(1, 4)
        L = U.rand_divisions(rng, n, lo=rng.choice([0, 0, 4]), hi=rng.choice([12, 20]))
        R = list(L) if rng.random() < 0.15 else U.rand_divisions(rng, m, lo=rng.choice([0, 0, 3]), hi=rng.choice([10, 20, 26]))
        yield "index_join_plan", {"L": L, "R": R, "Lk": U.rand_truthful_parts(rng, L, maxrows=4, p_empty=0.2),
                                  "Rk": U.rand_truthful_parts(rng, R, maxrows=4, p_empty=0.2),
                                  "how": rng.choice(["inner", "left", "right", "outer"])}
    for _ in range(ctx.n(50, 500)):
        k = rng.randint(2, 3)
        frames = []
        for i in range(k):
            lo = i * 12 if rng.random() < 0.2 else rng.choice([0, 0, 3])
            d = U.rand_divisions(rng, rng.randint(1, 3), lo=lo, hi=lo + rng.choice([8, 14]))
            frames.append({"divs": d, "keys": U.rand_truthful_parts(rng, d, maxrows=3, p_empty=0.2)})
        yield "interleave_plan", {"frames": frames}


def _gen_merge_plan(ctx):
    rng = ctx.rng
    for _ in range(ctx.n(150, 1500)):
        small = rng.choice([1, 1, 2, 2, 3, 4])
        big = rng.choice([1, 2, 4, 5, 15, 16, 17, 24, 40])
        nl, nr = (small, big) if rng.random() < 0.5 else (big, small)
        yield "merge_plan", {"nl": nl, "nr": nr, "how": rng.choice(["inner", "inner", "left", "right", "outer", "leftsemi"]),
                             "broadcast": rng.choice([None, None, True, False]), "npartitions": rng.choice([None, None, None, 2, 7]),
                             "kind": rng.choice(["columns", "columns", "columns", "index", "left_index", "chain"]),
                             "unknown": rng.random() < 0.3}
    if ctx.thorough():
        for nl in (1, 2, 3, 4, 5, 16, 17, 40):
            for nr in (1, 2, 3, 4, 5, 16, 17, 40):
                for how in ("inner", "left", "right", "outer", "leftsemi"):
                    for b in (None, True, False):
                        for kind in ("columns", "left_index"):
                            yield "merge_plan", {"nl": nl, "nr": nr, "how": how, "broadcast": b, "npartitions": None, "kind": kind}


def _cuts_at_least(rng, n, k, maxparts):
    for _ in range(20):
        c = U.rand_cuts(rng, n, maxparts=max(maxparts, k))
        if len(c) - 1 >= k:
            return c
    return [0] + [n * (i + 1) // k for i in range(k)]


def _gen_joint(ctx):
    rng = ctx.rng
    for _ in range(ctx.n(24, 240)):
        nl, nr = rng.randint(4, 16), rng.randint(3, 14)
        hi = rng.choice([3, 6, 12])
        kind = rng.choice(["merge", "merge", "merge", "concat", "asof"])
        if kind == "merge":
            variants = [{"how": rng.choice(["inner", "left", "right", "outer", "leftsemi"]), "broadcast": rng.choice([None, True, False]),
                         "npartitions": rng.choice([None, None, 2, 5]), "method": rng.choice([None, "tasks", "disk"])}
                        for _ in range(rng.randint(2, 3))]
            if rng.random() < 0.5:                            # same `how`, only npartitions / broadcast / method differ
                for v in variants[1:]:
                    v["how"] = variants[0]["how"]
            t = rng.random()
            if t < 0.25:                                      # the same broadcast plan with different `how`
                variants = [{"how": "inner", "broadcast": True}, {"how": rng.choice(["left", "right", "leftsemi"]), "broadcast": True},
                            {"how": "inner", "broadcast": False}]
            elif t < 0.4:                                     # the same hash join into different numbers of partitions
                h = rng.choice(["left", "inner", "outer"])
                variants = [{"how": h, "broadcast": False}, {"how": h, "broadcast": False, "npartitions": 2},
                            {"how": h, "broadcast": False, "npartitions": 5}]
        elif kind == "concat":
            variants = [{"join": "outer", "interleave": False}, {"join": "inner", "interleave": False}, {"join": "outer", "interleave": True}]
        else:
            variants = [{"direction": d, "nl": rng.randint(1, 3), "nr": rng.randint(1, 3)} for d in rng.sample(["backward", "forward", "nearest"], 2)]
            variants.append({"direction": variants[0]["direction"], "nl": rng.randint(1, 4), "nr": rng.randint(1, 4)})
        yield "joint", {"lk": _keys(rng, nl, hi, False), "rk": _keys(rng, nr, hi, False), "na": False,
                        "lcuts": _cuts_at_least(rng, nl, 2 if kind == "merge" else 1, rng.choice([3, 5])),
                        "rcuts": _cuts_at_least(rng, nr, 2 if kind == "merge" else 1, rng.choice([2, 4])),
                        "kind": kind, "variants": variants}


def _interleave(streams):
    """round-robin over the generator streams, so that a deadline cuts all of them proportionally"""
    its = [iter(x) for x in streams]
    while its:
        nxt = []
        for it in its:
            try:
                yield next(it)
                nxt.append(it)
            except StopIteration:
                pass
        its = nxt


def generate(ctx):
    yield from _interleave([_gen_pairs(ctx), _gen_api(ctx), _gen_asof_spec(ctx), _gen_asof_plan(ctx), _gen_align(ctx), _gen_merge_plan(ctx),
                            _gen_asof_pads(ctx), _gen_joint(ctx), XA.generate(ctx)])
