"""C13 — collections computed together give the same values as computed alone.

Model:    lean/DaskModel/Model/GraphMerge.lean (merge of task graphs, evaluation) and Model/Repack.lean
          (_tune_down grouping and __dask_keys__ order); naming through tokens: Model/NormalForm.lean
Theorems: lean/DaskModel/Props/C13.lean (keys_restored, merge_sound, mergeAll_sound, compute_together_eq_alone,
          names_determine_values)
Tie:      `together` API level: dask.compute(c1, …, cn) == (c1.compute(), …, cn.compute()) == NumPy/pandas/Python
                     reference, on tuples of collection programs over deliberately similar inputs
          `merge`    function level: the merged graph of several collections vs the model's mergeAll (symbolic values
                     of the output keys), and the agreement hypothesis on the real graphs (a key shared by two
                     graphs is defined by equal tasks)
          `tune`     function level (shared with C14): _tune_down / __dask_keys__ order vs the model
"""
from __future__ import annotations

import hashlib

from sexp import Sym
from props import _token_util as U
from props.c14 import case_tune
from props import _c13x_names as XN
from props import _c13x_annot as XA

PROP = "C13"
READY = True
DRIVER = "dm_token"
LEAN_MODULES = ["DaskModel.Props.C13", "DaskModel.Props.C13Fuse", "DaskModel.Props.C13xNames", "DaskModel.Props.C13xAnnot"]
TABLES = ["FusedKeyRenamer"]
CASE_TIMEOUT_S = 180
LEVEL_TEXT = ("Lean proof: (i) keys_restored — for every list of operands with arbitrary optimizers, the keys reported after "
              "_tune_down grouped the operands are the operands' keys in their original order; (ii) merge_sound / "
              "mergeAll_sound — in the merge of any number of dependency-closed graphs every key of every graph evaluates "
              "to what it evaluates to in its own graph, provided shared keys denote equal values; (iii) "
              "names_determine_values — equal layer names mean the same operation on observably equal arguments (from "
              "C12); combined in compute_together_eq_alone and, with C14's repack_unpack, in compute_spec (dask.compute(*args) is "
              "args with every collection replaced by the value it computes to alone); (iv) fused_keys_distinct — the name "
              "default_fused_keys_renamer gives to a fused chain (sorted prefixes + full top key, cut to the extracted "
              "limits with a digest of the FULL name) differs for chains whose top keys end in different tokens, for every "
              "fixed-length digest that separates the joined names of the graph (digest_must_separate: the hypothesis "
              "cannot be dropped — the 16-bit suffix of the original code violated it; repaired). dask.compute on tuples "
              "of array / bag / delayed / dataframe programs over near-identical inputs (layout aliases, raw NumPy operands, "
              "ufunc where=/out=, from_delayed, read_text, pipelines with long-named steps whose fused names are cut) is "
              "compared with per-collection compute and NumPy/pandas on every run; the renamer is diffed at function level. "
              "Extension (Props/C13xNames): (v) the C18 model of utils.key_split is plugged into the renamer (Model/KeyName.renamer): "
              "key_split_token_stripped — a str or tuple key prefix-token (32 hex characters holding a digit) splits back to "
              "its prefix (all_letter_token_not_stripped: the digit is needed), renamer_generated — the fused key of generated "
              "keys is the join of the lower keys' PREFIXES and the full top key, names_with_distinct_tokens_stay_distinct_after_fusion "
              "— chains whose top keys differ in their tokens get different fused keys; (vi) constructor_names_determine_args / "
              "constructor_name_iff — for from_array, from_sequence (partition size modelled), bag/array from_delayed, "
              "delayed(pure=True) leaf and call, elemwise, blockwise, with the argument tuple each hands to tokenize "
              "(Model/CtorNames): equal names => equal prefix and observably equal arguments (keyword arguments key by key), "
              "relative to C12 norm_injective and a digest separating the hashed values at hand; per-constructor corollaries "
              "read the tuple back into the parameters. Tied: key_split and the renamer (key_split by the model) diffed on "
              "generated keys; for every constructor the tokenize call captured during the real construction is diffed position "
              "by position against the model's tuple, the whole name bit for bit.")
LEVEL_NOTE = ("inherits C12's trusted base (md5 separates the values compared, pickle atoms); the optimiser passes between "
              "merge and execution are validated end to end (C09/C10/C43), the graphs are abstract (task = dependencies + "
              "function); utils.key_split: the ASCII model of C18 (str.isalpha of the source is Unicode aware) — in section "
              "`fusedkey` its results come from the real function, in `fusedkey2` from the model; opaque constructor arguments "
              "(functions, locks, dtypes, other collections) enter the name model as what normalize_token makes of them; "
              "fuse_linear_task_spec itself is exercised on graphs of several chains, not modelled here (C09).")
TECHNIQUE = "Lean 4 proof (induction on fuel / on the operand list, permutation + sortedness argument for the key order) + differential correspondence"
ASSUMPTIONS = ["toolz.groupby returns groups in first-seen order with members in original order (diffed)",
               "toolz.merge / HighLevelGraph.merge: later graphs win on shared keys",
               "md5 of the full joined name separates the fused chains of one graph (like tokens separate inputs)",
               "tokens hold a decimal digit (all but (6/16)^32 of them): only then key_split strips them",
               "normalize_chunks (C23), dtype inference of elemwise, unify_chunks of blockwise: their results are parameters of the name model"]
TRUSTED = ["reference evaluation of collection programs in harness/props/c13.py (NumPy / pandas / plain Python)"]


# ----------------------------------------------------------------------------------------------
# collection programs
# ----------------------------------------------------------------------------------------------

def _p_tag(x):
    import numpy as np
    if isinstance(x, np.ndarray):
        return ("nd", str(x.dtype), x.shape, x.tolist())
    return ("v", U.canon_repr(x))      # insensitive to dict / set iteration order, like the token


def _p_first(x):
    import numpy as np
    if isinstance(x, np.ndarray):
        return x.ravel(order="C")[:1].tolist() + list(x.shape)
    return x[0] if isinstance(x, (list, tuple)) and x else x


PURE_FUNCS = [_p_tag, _p_first]


def _upper(s):
    return str(s).upper()


LONG_MAPS, LONG_PREDS = U.LONG_MAPS, U.LONG_PREDS

_TMP = []


def _text_files(contents):
    """one file per string, in a directory of this process; the path depends on position and content"""
    import os
    import tempfile
    if not _TMP:
        import atexit
        import shutil
        _TMP.append(tempfile.mkdtemp(prefix="c13_readtext_"))
        atexit.register(shutil.rmtree, _TMP[0], ignore_errors=True)
    paths = []
    for i, c in enumerate(contents):
        path = os.path.join(_TMP[0], f"part{i}-{hashlib.md5(c.encode()).hexdigest()[:10]}.txt")
        if not os.path.exists(path):
            with open(path, "w", newline="") as f:
                f.write(c)
        paths.append(path)
    return paths


def _chain_ref(x, ops, is_bag):
    for op in ops:
        if op[0] == "map":
            x = [LONG_MAPS[op[1]](v) for v in x] if is_bag else LONG_MAPS[op[1]](x)
        elif op[0] == "filter":
            x = [v for v in x if LONG_PREDS[op[1]](v)]
        elif op[0] == "rev":
            x = x[::-1]
        elif op[0] == "T":
            x = x.T
    return x


def build_prog(spec):
    """spec -> (dask collection, reference value)."""
    import numpy as np
    import dask
    k = spec[0]
    if k == "bagchain":
        import dask.bag as db
        _, seq, npart, ops = spec
        b = db.from_sequence(list(seq), npartitions=npart)
        for op in ops:
            b = b.map(LONG_MAPS[op[1]]) if op[0] == "map" else b.filter(LONG_PREDS[op[1]])
        return b, _chain_ref(list(seq), ops, True)
    if k == "arrchain":
        import dask.array as da
        _, nd, chunks, ops = spec
        x = U.build(nd)
        d = da.from_array(x, chunks=chunks)
        ref = np.array(x)
        for op in ops:
            ref = np.asarray(_chain_ref(ref, [op], False))
            if op[0] == "map":
                d = d.map_blocks(LONG_MAPS[op[1]], dtype=ref.dtype)   # NumPy arithmetic gives the native byte order
            elif op[0] == "rev":
                d = d[::-1]
            else:
                d = d.T
        return d, ref
    if k == "arrop":
        import dask.array as da
        _, nd, raw, chunks, op = spec
        x, r = U.build(nd), U.build(raw)
        d = da.from_array(x, chunks=chunks)
        if op == "add":
            return d + r, x + r
        if op == "rsub":
            return r - d, r - x
        return da.maximum(d, r), np.maximum(x, r)
    if k == "where":
        import dask.array as da
        _, nd, mask, outvals, chunks = spec
        x = U.build(nd).ravel()
        m = np.array(mask[:x.size] + [True] * max(0, x.size - len(mask)), dtype=bool)
        o = np.array((outvals * (x.size + 1))[:x.size], dtype=x.dtype)
        out = da.from_array(o.copy(), chunks=chunks)
        da.add(da.from_array(x, chunks=chunks), da.from_array(x * 10, chunks=chunks), where=da.from_array(m, chunks=chunks), out=out)
        return out, np.where(m, x + x * 10, o)
    if k == "fromdelayed":
        import dask.array as da
        _, nd = spec
        x = U.build(nd)
        return da.from_delayed(dask.delayed(np.array, pure=True)(x), shape=x.shape, dtype=x.dtype), np.array(x)
    if k == "bagdelayed":
        import dask.bag as db
        _, parts = spec
        parts = [[U.build(s) for s in part] for part in parts]
        return db.from_delayed([dask.delayed(list, pure=True)(part) for part in parts]), [v for part in parts for v in part]
    if k == "readtext":
        import dask.bag as db
        _, contents, blocksize = spec
        paths = _text_files(contents)
        ref = [ln for c in contents for ln in c.splitlines(keepends=True)]
        return db.read_text(paths, blocksize=blocksize), ref
    if k == "arr":
        import dask.array as da
        _, nd, chunks, op = spec
        x = U.build(nd)
        if x.ndim == 0:
            x = x.reshape(1)
        d = da.from_array(x, chunks=chunks)
        if op == "id":
            return d, np.array(x)
        if op == "add1" and x.dtype.kind in "iuf":
            return d + 1, x + 1
        if op == "T":
            return d.T, x.T
        if op == "sum" and x.dtype.kind in "iuf":
            return d.sum(), x.sum()
        if op == "rev":
            return d[::-1], x[::-1]
        return d, np.array(x)
    if k == "del":
        _, vs, f = spec
        v = U.build(vs)
        fn = PURE_FUNCS[f]
        return dask.delayed(fn, pure=True)(v), fn(v)
    if k == "delnp":
        _, vs, f = spec
        v = U.build(vs)
        fn = PURE_FUNCS[f]
        return dask.delayed(fn, pure=True)(dask.delayed(v, pure=True)), fn(v)
    if k == "bag":
        import dask.bag as db
        _, seq, npart, op = spec
        seq = [U.build(s) for s in seq]
        b = db.from_sequence(seq, npartitions=npart)
        if op == "upper":
            return b.map(_upper), [_upper(s) for s in seq]
        if op == "count":
            return b.count(), len(seq)
        return b, list(seq)
    if k == "ser":
        import pandas as pd
        from core import import_dd
        dd = import_dd()
        _, vals, index, dtype, name, op = spec
        s = pd.Series(vals, index=index, dtype=dtype, name=name)
        d = dd.from_pandas(s, npartitions=2, sort=False)
        if op == "add1":
            return d + 1, s + 1
        if op == "sum":
            return d.sum(), s.sum()
        return d, s
    raise ValueError(spec)


def canon_val(x):
    import numpy as np
    if isinstance(x, np.ndarray):
        if x.dtype.hasobject:
            return ["ndo", list(x.shape), [repr(e) for e in x.ravel(order="C")]]
        return ["nd", str(x.dtype), list(x.shape), x.ravel(order="C").tobytes().hex()]
    if isinstance(x, np.generic):
        return ["nps", str(x.dtype), x.tobytes().hex()]
    try:
        import pandas as pd
        if isinstance(x, pd.Series):
            return ["ser", str(x.dtype), repr(x.name), [repr(v) for v in x.tolist()], [repr(i) for i in x.index], str(x.index.dtype)]
    except ImportError:  # pragma: no cover
        pass
    if isinstance(x, (list, tuple)):
        return [type(x).__name__, [canon_val(e) for e in x]]
    return ["v", type(x).__name__, U.canon_repr(x)]


def _kind_family(spec):
    return {"arr": "array", "del": "delayed", "delnp": "delayed", "bag": "bag", "ser": "frame", "bagchain": "bag",
            "arrchain": "array", "arrop": "array", "where": "array", "fromdelayed": "array", "bagdelayed": "bag",
            "readtext": "bag"}[spec[0]]


def case_together(ctx, inp):
    import dask
    import warnings
    progs = inp["progs"]
    built = [build_prog(p) for p in progs]
    colls = [c for c, _ in built]
    refs = [canon_val(r) for _, r in built]
    with warnings.catch_warnings():
        warnings.simplefilter("ignore")
        alone = [c.compute(scheduler="sync") for c in colls]
        try:
            together = dask.compute(*colls, scheduler=inp.get("scheduler", "sync"), optimize_graph=inp.get("optimize_graph", True))
        except Exception as e:
            ctx.fail(f"computing the collections together raised {type(e).__name__}: {str(e)[:150]} (each computes alone)",
                     observed=type(e).__name__)
            return
    tg = [canon_val(v) for v in together]
    al = [canon_val(v) for v in alone]
    fams = [_kind_family(p) for p in progs]
    label = inp.get("label", "")
    for i, (t, a, r) in enumerate(zip(tg, al, refs)):
        if t != a:
            ctx.fail("a collection computed together with others differs from the same collection computed alone",
                     sig=None, observed={"position": i, "together": t, "alone": a}, expected=a)
            break
        if a != r:
            ctx.fail("a collection computed alone differs from its NumPy/pandas/Python reference",
                     observed={"position": i, "alone": a}, expected=r, inp={"progs": [progs[i]], "label": label})
            break
    names = []
    for c in colls:
        try:
            names.append(sorted(map(str, dask.base.get_collection_names(c))))
        except Exception:
            names.append(None)
    shared = any(names[i] and names[i] == names[j] for i in range(len(names)) for j in range(i))
    if shared:
        ctx.branch("same-name:" + label)
    if label.startswith("long-names"):
        # measure the generator: does the optimised graph really hold a fused task whose name was cut?
        try:
            from dask.base import collections_to_expr
            g = collections_to_expr(colls).optimize().__dask_graph__()
            cut = [k for k in g if len(k[0] if isinstance(k, tuple) else str(k)) >= _cut_length()]
            if cut:
                ctx.branch("fused-name-cut")
                if len({(k[0] if isinstance(k, tuple) else k) for k in cut}) >= 2:
                    ctx.branch("fused-name-cut:two-pipelines")
        except Exception:
            ctx.note("fused-name-measure-failed")
    ctx.branch("together:" + "+".join(sorted(set(fams))))
    if label:
        ctx.branch("label:" + label)
    if _interleaved(fams):
        ctx.branch("interleaved-optimizers")


def _cut_length():
    """length of a fused name that was cut: the kept characters, a dash, the digest"""
    import inspect
    from dask.optimization import default_fused_keys_renamer
    return inspect.signature(default_fused_keys_renamer).parameters["max_fused_key_length"].default


def _interleaved(s):
    for i in range(len(s)):
        for j in range(i + 1, len(s)):
            if s[j] != s[i] and s[i] in s[j + 1:]:
                return True
    return False


# ----------------------------------------------------------------------------------------------
# function level: merged graph
# ----------------------------------------------------------------------------------------------

def _intern(table, k):
    if k not in table:
        table[k] = len(table)
    return table[k]


def _const_of(task):
    from dask.tokenize import tokenize
    return int(hashlib.md5(tokenize(task).encode()).hexdigest()[:12], 16)


def _combine(c, vs):
    acc = c
    for x in vs:
        acc = (acc * 1000003 + x + 1) % 2305843009213693951
    return acc


def case_merge(ctx, inp):
    """merge the (unoptimised) graphs of several collections; symbolic evaluation of their output keys."""
    import dask
    from dask.core import flatten
    from dask._task_spec import convert_legacy_graph
    from dask.base import collections_to_expr
    progs = inp["progs"]
    colls = [build_prog(p)[0] for p in progs]
    if any(_kind_family(p) == "frame" for p in progs):
        return
    graphs = [convert_legacy_graph(dict(c.__dask_graph__())) for c in colls]
    outs = [list(flatten(c.__dask_keys__())) for c in colls]
    # agreement hypothesis on the real graphs: a key two graphs share is defined by equal tasks
    for i in range(len(graphs)):
        for j in range(i):
            for k in graphs[i].keys() & graphs[j].keys():
                ti, tj = graphs[i][k], graphs[j][k]
                if not (ti == tj):
                    ctx.fail("two collections define the same key by different tasks", sig=None,
                             observed={"key": repr(k), "tasks": [repr(ti)[:200], repr(tj)[:200]]})
                ctx.branch("shared-key")
    merged = convert_legacy_graph(dict(collections_to_expr(colls, optimize_graph=False).__dask_graph__()))
    table = {}
    enc_graphs = [[[_intern(table, k), [_intern(table, d) for d in sorted(t.dependencies, key=str)], _const_of(t)]
                   for k, t in g.items()] for g in graphs]
    keys = [k for o in outs for k in o]
    fuel = max(len(g) for g in graphs) + sum(len(g) for g in graphs) + 2
    model = ctx.lean(Sym("mergeeval"), enc_graphs, [_intern(table, k) for k in keys], fuel)
    memo = {}

    def ev(k):
        if k not in memo:
            t = merged[k]
            memo[k] = _combine(_const_of(t), [ev(d) for d in sorted(t.dependencies, key=str)])
        return memo[k]
    try:
        real = [ev(k) for k in keys]
    except KeyError as e:
        ctx.fail("the merged graph lacks a key one of the collections needs", observed=repr(e))
        return
    ctx.eq("symbolic values of the output keys in the merged graph", model, real)
    if set(merged) != set().union(*[set(g) for g in graphs]):
        ctx.disagree("keys of the merged graph", sorted(map(str, set().union(*[set(g) for g in graphs]))), sorted(map(str, merged)))
    ctx.branch("merge")


# ----------------------------------------------------------------------------------------------
# function level: the name of a fused chain
# ----------------------------------------------------------------------------------------------

def _mk_key(kspec):
    """["s", name] -> str key, ["t", name, i, …] -> tuple key"""
    return kspec[1] if kspec[0] == "s" else tuple(kspec[1:])


def case_fusedkey(ctx, inp):
    """default_fused_keys_renamer on several chains: model (kept characters + md5 of the FULL joined name) vs real;
    property: chains with different top keys never get the same fused key; and the same through
    fuse_linear_task_spec on a graph holding all the chains (each top key evaluates to its own value)."""
    from dask.optimization import default_fused_keys_renamer
    from dask.utils import key_split
    from dask._task_spec import Task, TaskRef, fuse_linear_task_spec
    maxlen = inp.get("maxlen")
    if inp.get("search"):
        # many chains with the same (long-named) steps over different data: the top keys differ in their token only.
        # With a 16-bit suffix some two of a few thousand chains shared their fused key (birthday bound).
        steps = inp["steps"]
        seen, hit = {}, None
        for i in range(inp["search"]):
            keys = [(f"{st}-{hashlib.md5(f'{st}{i}'.encode()).hexdigest()}", 0) for st in steps]
            fk = default_fused_keys_renamer(keys)
            if fk in seen:
                hit = (seen[fk], keys)
                break
            seen[fk] = keys
        ctx.branch("fusedkey-search")
        if hit is None:
            return
        inp = dict(inp, chains=[[["t", k[0], 0] for k in ch] for ch in hit])
        ctx.cur_input = {"chains": inp["chains"]}
    chains = [[_mk_key(k) for k in ch] for ch in inp["chains"]]
    fused = []
    for keys in chains:
        real = default_fused_keys_renamer(keys) if maxlen is None else default_fused_keys_renamer(keys, maxlen)
        first = keys[-1]
        fname = first if isinstance(first, str) else first[0]
        m_kept, m_full = ctx.lean(Sym("fusedparts"), 120 if maxlen is None else maxlen,
                                  [key_split(k) for k in reversed(keys[:-1])], key_split(first), fname)
        if m_full is None or str(m_full) == "none":
            model = m_kept
        else:
            model = m_kept + "-" + hashlib.md5(m_full.encode(errors="surrogatepass")).hexdigest()
            ctx.branch("fused-name-cut")
        model = model if isinstance(first, str) else (model,) + tuple(first[1:])
        ctx.eq("default_fused_keys_renamer", [repr(model)], [repr(real)])
        fused.append(real)
    for i in range(len(chains)):
        for j in range(i):
            if chains[i][-1] != chains[j][-1] and fused[i] == fused[j]:
                ctx.fail("two chains with different top keys get the same fused key", sig=None,
                         observed={"fused": repr(fused[i]), "top keys": [repr(chains[i][-1]), repr(chains[j][-1])]})
    # the chains in one graph: value of a chain = code of (chain number, length)
    dsk = {}
    want = {}
    for c, keys in enumerate(chains):
        prev = None
        for d, k in enumerate(keys):
            if k in dsk:
                break
            dsk[k] = Task(k, _step, c * 100 + d, *([TaskRef(prev)] if prev is not None else []))
            prev = k
        else:
            want[keys[-1]] = sum(c * 100 + d for d in range(len(keys)))
    if want:
        from dask._task_spec import execute_graph
        out = fuse_linear_task_spec(dict(dsk), list(want))
        res = execute_graph(out, keys=list(want))
        got = {k: res[k] for k in want}
        if got != want:
            ctx.fail("after fuse_linear_task_spec the top key of a chain evaluates to another chain's value", sig=None,
                     observed={repr(k): v for k, v in got.items()}, expected={repr(k): v for k, v in want.items()})
        if len(want) >= 2:
            ctx.branch("fusedkey-several-chains")
    if any(isinstance(ch[-1], tuple) for ch in chains):
        ctx.branch("fusedkey-tuple-keys")


def _step(c, prev=0):
    return c + prev


CASES = {"together": case_together, "merge": case_merge, "tune": case_tune, "fusedkey": case_fusedkey}
CASES.update(XN.CASES)
CASES.update(XA.CASES)


# ----------------------------------------------------------------------------------------------
# generators
# ----------------------------------------------------------------------------------------------

def _nd_numeric(rng):
    while True:
        s = U.gen_nd(rng)
        if s[1][1] in "iuf" and s[1] != "|b1":
            x = U.build(s)
            if x.size:
                return s


def similar_pair(rng):
    """two collection programs over unequal-but-similar (or equal) inputs; returns (p1, p2, label)"""
    r = rng.random()
    op = rng.choice(["id", "add1", "T", "sum", "rev", "id"])
    if r < 0.4:
        a = _nd_numeric(rng)
        b, lab = U.mutate_nd(rng, a)
        if b[0] != "nd":
            b, lab = a, "same:identity"
        chunks = rng.choice([1, 2, 3, -1])
        kind = rng.choice(["arr", "arr", "del", "delnp"])
        if kind == "arr":
            return ["arr", a, chunks, op], ["arr", b, chunks, op], lab
        f = rng.randrange(len(PURE_FUNCS))
        return [kind, a, f], [kind, b, f], "pure-delayed:" + lab
    if r < 0.55:
        a = U.gen_obj(rng)
        b, lab = U.mutate(rng, a)
        if b[0] != "obj":
            b, lab = a, "same:identity"
        kind = rng.choice(["arr", "del"])
        if kind == "arr":
            return ["arr", a, -1, "id"], ["arr", b, -1, "id"], lab
        return ["del", a, 0], ["del", b, 0], "pure-delayed:" + lab
    if r < 0.75:
        a = U.gen_value(rng, 1, arrays=False)
        b, lab = U.mutate(rng, a)
        f = rng.randrange(len(PURE_FUNCS))
        return ["del", a, f], ["del", b, f], "pure-delayed:" + lab.split(":")[0]
    if r < 0.9:
        words = [rng.choice(["a", "b", "a-b", "b-c", "c", "ab", "", "a b"]) for _ in range(rng.randint(1, 4))]
        seq = [["str", w] for w in words]
        joined = " ".join(words)
        alt = [["str", w] for w in joined.split(" ")] if rng.random() < 0.5 else [["str", joined]]
        if rng.random() < 0.3:
            alt = [["bytes", list(w.encode())] for w in words]
        npart = rng.choice([1, 2, 3])
        opb = rng.choice(["id", "upper", "count"])
        return ["bag", seq, npart, opb], ["bag", alt, rng.choice([npart, npart, 2]), opb], "bag-resplit"
    vals = [rng.randint(0, 3) for _ in range(rng.randint(2, 5))]
    idx = list(range(len(vals)))
    a = ["ser", vals, idx, "int64", "s", rng.choice(["id", "add1", "sum"])]
    c = rng.randrange(4)
    b = list(a)
    if c == 0:
        b[3] = "float64"
    elif c == 1:
        b[2] = [i + 1 for i in idx]
    elif c == 2:
        b[4] = "t"
    else:
        b[1] = vals[::-1]
    return a, b, f"series-{c}"


def chain_pair(rng):
    """two pipelines with the SAME long-named steps over different (or equal) data, and further near-identical
    constructions: raw NumPy operands, ufunc where=/out=, from_delayed, read_text"""
    r = rng.random()
    if r < 0.3:
        n = rng.randint(1, 4)
        seq = [rng.randint(0, 9) for _ in range(n)]
        c = rng.random()
        seq2 = list(seq) if c < 0.2 else ([v + 1 for v in seq] if c < 0.6 else seq[::-1] + [rng.randint(0, 9)])
        ops = [[rng.choice(["map", "map", "filter"]), rng.randrange(len(LONG_MAPS))] for _ in range(rng.randint(2, 3))]
        npart = rng.choice([1, 1, 2])
        return ["bagchain", seq, npart, ops], ["bagchain", seq2, npart, ops], "long-names:bag"
    if r < 0.55:
        while True:
            a = _nd_numeric(rng)
            if U.build(a).ndim >= 1 and a[1] != "<f4":
                break
        b, lab = U.mutate_nd(rng, a)
        if b[0] != "nd" or U.build(b).ndim < 1 or U.build(b).dtype.kind not in "iuf":
            b = a
        ops = [["map", rng.randrange(len(LONG_MAPS))], [rng.choice(["rev", "T", "rev"])], ["map", rng.randrange(len(LONG_MAPS))]]
        if rng.random() < 0.4:
            ops.append(["map", rng.randrange(len(LONG_MAPS))])
        chunks = rng.choice([-1, -1, 2, 3])
        return ["arrchain", a, chunks, ops], ["arrchain", b, chunks, ops], "long-names:array"
    if r < 0.7:
        a = _nd_numeric(rng)
        raw, lab = U.mutate_nd(rng, a)
        if raw[0] != "nd" or U.build(raw).shape != U.build(a).shape or U.build(raw).dtype.kind not in "iuf":
            raw, lab = a, "same:identity"
        op = rng.choice(["add", "rsub", "max"])
        chunks = rng.choice([-1, 2])
        return ["arrop", a, a, chunks, op], ["arrop", a, raw, chunks, op], "raw-operand:" + lab.split(":")[-1]
    if r < 0.8:
        a = ["nd", "<i8", [rng.randint(0, 5) for _ in range(rng.randint(2, 6))], [["reshape", [-1]]]]
        n = len(a[2])
        a[3] = [["reshape", [n]]]
        mask = [rng.random() < 0.5 for _ in range(n)]
        out = [rng.randint(0, 2) for _ in range(n)]
        mask2, out2 = list(mask), list(out)
        if rng.random() < 0.5:
            i = rng.randrange(n)
            mask2[i] = not mask2[i]
        else:
            i = rng.randrange(n)
            out2[i] += 1
        chunks = rng.choice([-1, 2])
        return ["where", a, mask, out, chunks], ["where", a, mask2, out2, chunks], "ufunc-where-out"
    if r < 0.9:
        a = _nd_numeric(rng)
        b, lab = U.mutate_nd(rng, a)
        if b[0] != "nd":
            b = a
        return ["fromdelayed", a], ["fromdelayed", b], "from-delayed:" + lab.split(":")[-1]
    if r < 0.95:
        parts = [[["int", rng.randint(0, 3)] for _ in range(rng.randint(1, 3))] for _ in range(rng.randint(1, 2))]
        flat = [v for p in parts for v in p]
        alt = [flat] if rng.random() < 0.5 else [[["float", float(v[1])] for v in p] for p in parts]
        return ["bagdelayed", parts], ["bagdelayed", alt], "bag-from-delayed"
    lines = [rng.choice(["ab", "cd", "a", "", "abc"]) for _ in range(rng.randint(1, 4))]
    text = "".join(ln + "\n" for ln in lines)
    c = rng.random()
    if c < 0.4 and len(text) > 2:
        i = rng.randrange(len(text) - 1)
        ch = "x" if text[i] != "\n" else "y"
        other = [text[:i] + ch + text[i + 1:]]          # same size, another content
    elif c < 0.7 and len(text) > 2:
        cut = rng.randrange(1, len(text))
        other = [text[:cut], text[cut:]]                 # same bytes in two files
    else:
        other = [text]
    bs = rng.choice([None, None, 3])
    return ["readtext", [text], bs], ["readtext", other, bs], "read-text"


_WORDS = ["load", "clean", "score", "from_sequence", "array", "getitem", "x", "normalise_the_incoming_customer_record_fields_and_",
          "compute_the_weighted_moving_average_of_the_sensor_", "convert_the_measured_temperature_from_fahrenheit_t",
          "sum-aggregate", "é-läng", "a_b", "A", "lambda"]


def gen_fusedkey(rng):
    """several chains that share their step names and differ in the tokens of their keys (what different data gives);
    str and tuple keys, names below / at / above the length limit"""
    nsteps = rng.randint(2, 5)
    steps = [rng.choice(_WORDS) for _ in range(nsteps)]
    tuple_keys = rng.random() < 0.5
    chains = []
    for c in range(rng.randint(1, 4)):
        keys = []
        for st in steps:
            tok = "%032x" % rng.getrandbits(128) if rng.random() < 0.9 else "%08x" % rng.getrandbits(32)
            name = f"{st}-{tok}" if rng.random() < 0.95 else st
            keys.append(["t", name, c % 2] + ([rng.randrange(3)] if rng.random() < 0.3 else []) if tuple_keys else ["s", name])
        if rng.random() < 0.15 and chains:
            keys[:-1] = chains[-1][:-1]      # same lower part: only the top keys differ
        chains.append(keys)
    inp = {"chains": chains}
    r = rng.random()
    if r < 0.25:
        total = len("-".join(sorted(set(steps[:-1]))) + "-" + chains[0][-1][1])
        inp["maxlen"] = max(34, total + 33 + rng.choice([-2, -1, 0, 1, 2]))      # boundary of the limit
    elif r < 0.35:
        inp["maxlen"] = rng.choice([34, 40, 64, 200, 0])
    return inp


def other_prog(rng):
    r = rng.random()
    if r < 0.35:
        return ["arr", _nd_numeric(rng), rng.choice([1, 2, -1]), rng.choice(["id", "add1", "sum"])]
    if r < 0.6:
        return ["del", U.gen_value(rng, 1, arrays=False), rng.randrange(len(PURE_FUNCS))]
    if r < 0.85:
        return ["bag", [["int", rng.randint(0, 5)] for _ in range(rng.randint(1, 4))], rng.choice([1, 2]), rng.choice(["id", "count"])]
    vals = [rng.randint(0, 3) for _ in range(rng.randint(2, 4))]
    return ["ser", vals, list(range(len(vals))), "int64", "s", rng.choice(["id", "add1"])]


EXPLICIT = [
    # DESIGN.md 6 #4 carried into a joint compute: same memory bytes, other layout
    {"progs": [["arr", ["nd", "<i8", [0, 1, 2, 3, 4, 5], [["reshape", [2, 3]]]], -1, "id"],
               ["arr", ["nd", "<i8", [0, 1, 2, 3, 4, 5], [["reshape", [3, 2]], ["T"]]], -1, "id"]], "label": "nd-memory-alias"},
    {"progs": [["delnp", ["nd", "<i8", [0, 1, 2, 3, 4, 5], [["reshape", [2, 3]]]], 0],
               ["delnp", ["nd", "<i8", [0, 1, 2, 3, 4, 5], [["reshape", [3, 2]], ["T"]]], 0]], "label": "pure-delayed:nd-memory-alias"},
    {"progs": [["del", ["obj", [2], ["a-b", "c"]], 0], ["del", ["obj", [2], ["a", "b-c"]], 0]], "label": "pure-delayed:obj-resplit"},
    {"progs": [["arr", ["obj", [2], ["a-b", "c"]], -1, "id"], ["arr", ["obj", [2], ["a", "b-c"]], -1, "id"]], "label": "obj-resplit"},
    # DESIGN.md 6 #32
    {"progs": [["bag", [["int", 1], ["int", 2], ["int", 3]], 2, "id"], ["arr", ["nd", "<i8", [1, 2, 3, 4], [["reshape", [4]]]], 2, "id"],
               ["arr", ["nd", "<i8", [1, 2], [["reshape", [2]]]], 2, "id"], ["bag", [["int", 2], ["int", 0], ["int", 0]], 2, "id"]],
     "label": "interleaved"},
    {"progs": [["del", ["dict", [[["int", 1], ["str", "x"]], [["str", "1"], ["str", "y"]]]], 0],
               ["del", ["dict", [[["str", "1"], ["str", "y"]], [["int", 1], ["str", "x"]]]], 0]], "label": "pure-delayed:dict-reorder"},
]


def generate(ctx):
    rng = ctx.rng
    for e in EXPLICIT:
        yield "together", dict(e)
        yield "merge", {"progs": e["progs"]}
    for _ in range(ctx.n(40, 400)):
        yield "tune", {"ids": [rng.randrange(12) for _ in range(rng.randint(1, 7))]}
    for _ in range(ctx.n(120, 1500)):
        yield "fusedkey", gen_fusedkey(rng)
    for _ in range(ctx.n(70, 700)):
        a, b, lab = chain_pair(rng)
        progs = [a, b]
        if rng.random() < 0.3:
            progs.insert(rng.randint(0, 2), other_prog(rng))
        yield "together", {"progs": progs, "label": lab.split(":same")[0], "scheduler": rng.choice(["sync", "sync", "threads"]),
                           "optimize_graph": rng.random() < 0.85}
    for _ in range(ctx.n(110, 1100)):
        a, b, lab = similar_pair(rng)
        progs = [a, b]
        for _ in range(rng.choice([0, 0, 1, 2])):
            progs.insert(rng.randint(0, len(progs)), other_prog(rng))
        yield "together", {"progs": progs, "label": lab.split(":")[0] if not lab.startswith(("same", "pure")) else ":".join(lab.split(":")[:2]),
                           "scheduler": rng.choice(["sync", "sync", "threads"]), "optimize_graph": rng.random() < 0.8}
    for _ in range(ctx.n(60, 600)):
        a, b, lab = similar_pair(rng)
        progs = [a, b] + [other_prog(rng) for _ in range(rng.choice([0, 1]))]
        yield "merge", {"progs": progs}
    yield from XN.generate(ctx)      # extension sections (appended last: the streams of the sections above are unchanged)
    yield from XA.generate(ctx)      # annotations of the combined computation (last)


def search(ctx):
    yield from generate(ctx)
