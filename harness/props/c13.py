"""C13 — collections computed together give the same values as computed alone.

Model:    lean/DaskModel/Model/GraphMerge.lean (merge of task graphs, evaluation) and Model/Repack.lean
          (_tune_down grouping and __dask_keys__ order); naming through tokens: Model/NormalForm.lean
Theorems: lean/DaskModel/Props/C13.lean (keys_restored, merge_sound, mergeAll_sound, compute_together_eq_alone,
          names_determine_values)
Tie:      `together` API level: dask.compute(c1, …, cn) == (c1.compute(), …, cn.compute()) == NumPy/pandas/Python
                     reference, on tuples of collection programs over deliberately similar inputs
          `merge`    function level: the merged graph of several collections vs the model's mergeAll (symbolic values
                     of the output keys), and the agreement hypothesis on the real graphs (a key shared by two
                     graphs is defined by equal tasks)
          `tune`     function level (shared with C14): _tune_down / __dask_keys__ order vs the model
"""
from __future__ import annotations

import hashlib

from sexp import Sym
from props import _token_util as U
from props.c14 import case_tune

PROP = "C13"
READY = True
DRIVER = "dm_token"
LEAN_MODULES = ["DaskModel.Props.C13"]
CASE_TIMEOUT_S = 180
LEVEL_TEXT = ("Lean proof: (i) keys_restored — for every list of operands with arbitrary optimizers, the keys reported after "
              "_tune_down grouped the operands are the operands' keys in their original order; (ii) merge_sound / "
              "mergeAll_sound — in the merge of any number of dependency-closed graphs every key of every graph evaluates "
              "to what it evaluates to in its own graph, provided shared keys denote equal values; (iii) "
              "names_determine_values — equal layer names mean the same operation on observably equal arguments (from "
              "C12); combined in compute_together_eq_alone and, with C14's repack_unpack, in compute_spec (dask.compute(*args) is "
              "args with every collection replaced by the value it computes to alone). dask.compute on tuples of array/bag/delayed/dataframe programs "
              "over near-identical inputs is compared with per-collection compute and NumPy/pandas on every run.")
LEVEL_NOTE = ("inherits C12's trusted base (md5 injective, pickle atoms); the optimiser passes between merge and execution "
              "are validated end to end (C09/C10/C43), the graphs are abstract (task = dependencies + function).")
TECHNIQUE = "Lean 4 proof (induction on fuel / on the operand list, permutation + sortedness argument for the key order) + differential correspondence"
ASSUMPTIONS = ["toolz.groupby returns groups in first-seen order with members in original order (diffed)",
               "toolz.merge / HighLevelGraph.merge: later graphs win on shared keys"]
TRUSTED = ["reference evaluation of collection programs in harness/props/c13.py (NumPy / pandas / plain Python)"]


# ----------------------------------------------------------------------------------------------
# collection programs
# ----------------------------------------------------------------------------------------------

def _p_tag(x):
    import numpy as np
    if isinstance(x, np.ndarray):
        return ("nd", str(x.dtype), x.shape, x.tolist())
    return ("v", U.canon_repr(x))      # insensitive to dict / set iteration order, like the token


def _p_first(x):
    import numpy as np
    if isinstance(x, np.ndarray):
        return x.ravel(order="C")[:1].tolist() + list(x.shape)
    return x[0] if isinstance(x, (list, tuple)) and x else x


PURE_FUNCS = [_p_tag, _p_first]


def _upper(s):
    return str(s).upper()


def build_prog(spec):
    """spec -> (dask collection, reference value)."""
    import numpy as np
    import dask
    k = spec[0]
    if k == "arr":
        import dask.array as da
        _, nd, chunks, op = spec
        x = U.build(nd)
        if x.ndim == 0:
            x = x.reshape(1)
        d = da.from_array(x, chunks=chunks)
        if op == "id":
            return d, np.array(x)
        if op == "add1" and x.dtype.kind in "iuf":
            return d + 1, x + 1
        if op == "T":
            return d.T, x.T
        if op == "sum" and x.dtype.kind in "iuf":
            return d.sum(), x.sum()
        if op == "rev":
            return d[::-1], x[::-1]
        return d, np.array(x)
    if k == "del":
        _, vs, f = spec
        v = U.build(vs)
        fn = PURE_FUNCS[f]
        return dask.delayed(fn, pure=True)(v), fn(v)
    if k == "delnp":
        _, vs, f = spec
        v = U.build(vs)
        fn = PURE_FUNCS[f]
        return dask.delayed(fn, pure=True)(dask.delayed(v, pure=True)), fn(v)
    if k == "bag":
        import dask.bag as db
        _, seq, npart, op = spec
        seq = [U.build(s) for s in seq]
        b = db.from_sequence(seq, npartitions=npart)
        if op == "upper":
            return b.map(_upper), [_upper(s) for s in seq]
        if op == "count":
            return b.count(), len(seq)
        return b, list(seq)
    if k == "ser":
        import pandas as pd
        from core import import_dd
        dd = import_dd()
        _, vals, index, dtype, name, op = spec
        s = pd.Series(vals, index=index, dtype=dtype, name=name)
        d = dd.from_pandas(s, npartitions=2, sort=False)
        if op == "add1":
            return d + 1, s + 1
        if op == "sum":
            return d.sum(), s.sum()
        return d, s
    raise ValueError(spec)


def canon_val(x):
    import numpy as np
    if isinstance(x, np.ndarray):
        if x.dtype.hasobject:
            return ["ndo", list(x.shape), [repr(e) for e in x.ravel(order="C")]]
        return ["nd", str(x.dtype), list(x.shape), x.ravel(order="C").tobytes().hex()]
    if isinstance(x, np.generic):
        return ["nps", str(x.dtype), x.tobytes().hex()]
    try:
        import pandas as pd
        if isinstance(x, pd.Series):
            return ["ser", str(x.dtype), repr(x.name), [repr(v) for v in x.tolist()], [repr(i) for i in x.index], str(x.index.dtype)]
    except ImportError:  # pragma: no cover
        pass
    if isinstance(x, (list, tuple)):
        return [type(x).__name__, [canon_val(e) for e in x]]
    return ["v", type(x).__name__, U.canon_repr(x)]


def _kind_family(spec):
    return {"arr": "array", "del": "delayed", "delnp": "delayed", "bag": "bag", "ser": "frame"}[spec[0]]


def case_together(ctx, inp):
    import dask
    import warnings
    progs = inp["progs"]
    built = [build_prog(p) for p in progs]
    colls = [c for c, _ in built]
    refs = [canon_val(r) for _, r in built]
    with warnings.catch_warnings():
        warnings.simplefilter("ignore")
        alone = [c.compute(scheduler="sync") for c in colls]
        try:
            together = dask.compute(*colls, scheduler=inp.get("scheduler", "sync"), optimize_graph=inp.get("optimize_graph", True))
        except Exception as e:
            ctx.fail(f"computing the collections together raised {type(e).__name__}: {str(e)[:150]} (each computes alone)",
                     observed=type(e).__name__)
            return
    tg = [canon_val(v) for v in together]
    al = [canon_val(v) for v in alone]
    fams = [_kind_family(p) for p in progs]
    label = inp.get("label", "")
    for i, (t, a, r) in enumerate(zip(tg, al, refs)):
        if t != a:
            ctx.fail("a collection computed together with others differs from the same collection computed alone",
                     sig=None, observed={"position": i, "together": t, "alone": a}, expected=a)
            break
        if a != r:
            ctx.fail("a collection computed alone differs from its NumPy/pandas/Python reference",
                     observed={"position": i, "alone": a}, expected=r, inp={"progs": [progs[i]], "label": label})
            break
    names = []
    for c in colls:
        try:
            names.append(sorted(map(str, dask.base.get_collection_names(c))))
        except Exception:
            names.append(None)
    shared = any(names[i] and names[i] == names[j] for i in range(len(names)) for j in range(i))
    if shared:
        ctx.branch("same-name:" + label)
    ctx.branch("together:" + "+".join(sorted(set(fams))))
    if label:
        ctx.branch("label:" + label)
    if _interleaved(fams):
        ctx.branch("interleaved-optimizers")


def _interleaved(s):
    for i in range(len(s)):
        for j in range(i + 1, len(s)):
            if s[j] != s[i] and s[i] in s[j + 1:]:
                return True
    return False


# ----------------------------------------------------------------------------------------------
# function level: merged graph
# ----------------------------------------------------------------------------------------------

def _intern(table, k):
    if k not in table:
        table[k] = len(table)
    return table[k]


def _const_of(task):
    from dask.tokenize import tokenize
    return int(hashlib.md5(tokenize(task).encode()).hexdigest()[:12], 16)


def _combine(c, vs):
    acc = c
    for x in vs:
        acc = (acc * 1000003 + x + 1) % 2305843009213693951
    return acc


def case_merge(ctx, inp):
    """merge the (unoptimised) graphs of several collections; symbolic evaluation of their output keys."""
    import dask
    from dask.core import flatten
    from dask._task_spec import convert_legacy_graph
    from dask.base import collections_to_expr
    progs = inp["progs"]
    colls = [build_prog(p)[0] for p in progs]
    if any(_kind_family(p) == "frame" for p in progs):
        return
    graphs = [convert_legacy_graph(dict(c.__dask_graph__())) for c in colls]
    outs = [list(flatten(c.__dask_keys__())) for c in colls]
    # agreement hypothesis on the real graphs: a key two graphs share is defined by equal tasks
    for i in range(len(graphs)):
        for j in range(i):
            for k in graphs[i].keys() & graphs[j].keys():
                ti, tj = graphs[i][k], graphs[j][k]
                if not (ti == tj):
                    ctx.fail("two collections define the same key by different tasks", sig=None,
                             observed={"key": repr(k), "tasks": [repr(ti)[:200], repr(tj)[:200]]})
                ctx.branch("shared-key")
    merged = convert_legacy_graph(dict(collections_to_expr(colls, optimize_graph=False).__dask_graph__()))
    table = {}
    enc_graphs = [[[_intern(table, k), [_intern(table, d) for d in sorted(t.dependencies, key=str)], _const_of(t)]
                   for k, t in g.items()] for g in graphs]
    keys = [k for o in outs for k in o]
    fuel = max(len(g) for g in graphs) + sum(len(g) for g in graphs) + 2
    model = ctx.lean(Sym("mergeeval"), enc_graphs, [_intern(table, k) for k in keys], fuel)
    memo = {}

    def ev(k):
        if k not in memo:
            t = merged[k]
            memo[k] = _combine(_const_of(t), [ev(d) for d in sorted(t.dependencies, key=str)])
        return memo[k]
    try:
        real = [ev(k) for k in keys]
    except KeyError as e:
        ctx.fail("the merged graph lacks a key one of the collections needs", observed=repr(e))
        return
    ctx.eq("symbolic values of the output keys in the merged graph", model, real)
    if set(merged) != set().union(*[set(g) for g in graphs]):
        ctx.disagree("keys of the merged graph", sorted(map(str, set().union(*[set(g) for g in graphs]))), sorted(map(str, merged)))
    ctx.branch("merge")


CASES = {"together": case_together, "merge": case_merge, "tune": case_tune}


# ----------------------------------------------------------------------------------------------
# generators
# ----------------------------------------------------------------------------------------------

def _nd_numeric(rng):
    while True:
        s = U.gen_nd(rng)
        if s[1][1] in "iuf" and s[1] != "|b1":
            x = U.build(s)
            if x.size:
                return s


def similar_pair(rng):
    """two collection programs over unequal-but-similar (or equal) inputs; returns (p1, p2, label)"""
    r = rng.random()
    op = rng.choice(["id", "add1", "T", "sum", "rev", "id"])
    if r < 0.4:
        a = _nd_numeric(rng)
        b, lab = U.mutate_nd(rng, a)
        if b[0] != "nd":
            b, lab = a, "same:identity"
        chunks = rng.choice([1, 2, 3, -1])
        kind = rng.choice(["arr", "arr", "del", "delnp"])
        if kind == "arr":
            return ["arr", a, chunks, op], ["arr", b, chunks, op], lab
        f = rng.randrange(len(PURE_FUNCS))
        return [kind, a, f], [kind, b, f], "pure-delayed:" + lab
    if r < 0.55:
        a = U.gen_obj(rng)
        b, lab = U.mutate(rng, a)
        if b[0] != "obj":
            b, lab = a, "same:identity"
        kind = rng.choice(["arr", "del"])
        if kind == "arr":
            return ["arr", a, -1, "id"], ["arr", b, -1, "id"], lab
        return ["del", a, 0], ["del", b, 0], "pure-delayed:" + lab
    if r < 0.75:
        a = U.gen_value(rng, 1, arrays=False)
        b, lab = U.mutate(rng, a)
        f = rng.randrange(len(PURE_FUNCS))
        return ["del", a, f], ["del", b, f], "pure-delayed:" + lab.split(":")[0]
    if r < 0.9:
        words = [rng.choice(["a", "b", "a-b", "b-c", "c", "ab", "", "a b"]) for _ in range(rng.randint(1, 4))]
        seq = [["str", w] for w in words]
        joined = " ".join(words)
        alt = [["str", w] for w in joined.split(" ")] if rng.random() < 0.5 else [["str", joined]]
        if rng.random() < 0.3:
            alt = [["bytes", list(w.encode())] for w in words]
        npart = rng.choice([1, 2, 3])
        opb = rng.choice(["id", "upper", "count"])
        return ["bag", seq, npart, opb], ["bag", alt, rng.choice([npart, npart, 2]), opb], "bag-resplit"
    vals = [rng.randint(0, 3) for _ in range(rng.randint(2, 5))]
    idx = list(range(len(vals)))
    a = ["ser", vals, idx, "int64", "s", rng.choice(["id", "add1", "sum"])]
    c = rng.randrange(4)
    b = list(a)
    if c == 0:
        b[3] = "float64"
    elif c == 1:
        b[2] = [i + 1 for i in idx]
    elif c == 2:
        b[4] = "t"
    else:
        b[1] = vals[::-1]
    return a, b, f"series-{c}"


def other_prog(rng):
    r = rng.random()
    if r < 0.35:
        return ["arr", _nd_numeric(rng), rng.choice([1, 2, -1]), rng.choice(["id", "add1", "sum"])]
    if r < 0.6:
        return ["del", U.gen_value(rng, 1, arrays=False), rng.randrange(len(PURE_FUNCS))]
    if r < 0.85:
        return ["bag", [["int", rng.randint(0, 5)] for _ in range(rng.randint(1, 4))], rng.choice([1, 2]), rng.choice(["id", "count"])]
    vals = [rng.randint(0, 3) for _ in range(rng.randint(2, 4))]
    return ["ser", vals, list(range(len(vals))), "int64", "s", rng.choice(["id", "add1"])]


EXPLICIT = [
    # DESIGN.md 6 #4 carried into a joint compute: same memory bytes, other layout
    {"progs": [["arr", ["nd", "<i8", [0, 1, 2, 3, 4, 5], [["reshape", [2, 3]]]], -1, "id"],
               ["arr", ["nd", "<i8", [0, 1, 2, 3, 4, 5], [["reshape", [3, 2]], ["T"]]], -1, "id"]], "label": "nd-memory-alias"},
    {"progs": [["delnp", ["nd", "<i8", [0, 1, 2, 3, 4, 5], [["reshape", [2, 3]]]], 0],
               ["delnp", ["nd", "<i8", [0, 1, 2, 3, 4, 5], [["reshape", [3, 2]], ["T"]]], 0]], "label": "pure-delayed:nd-memory-alias"},
    {"progs": [["del", ["obj", [2], ["a-b", "c"]], 0], ["del", ["obj", [2], ["a", "b-c"]], 0]], "label": "pure-delayed:obj-resplit"},
    {"progs": [["arr", ["obj", [2], ["a-b", "c"]], -1, "id"], ["arr", ["obj", [2], ["a", "b-c"]], -1, "id"]], "label": "obj-resplit"},
    # DESIGN.md 6 #32
    {"progs": [["bag", [["int", 1], ["int", 2], ["int", 3]], 2, "id"], ["arr", ["nd", "<i8", [1, 2, 3, 4], [["reshape", [4]]]], 2, "id"],
               ["arr", ["nd", "<i8", [1, 2], [["reshape", [2]]]], 2, "id"], ["bag", [["int", 2], ["int", 0], ["int", 0]], 2, "id"]],
     "label": "interleaved"},
    {"progs": [["del", ["dict", [[["int", 1], ["str", "x"]], [["str", "1"], ["str", "y"]]]], 0],
               ["del", ["dict", [[["str", "1"], ["str", "y"]], [["int", 1], ["str", "x"]]]], 0]], "label": "pure-delayed:dict-reorder"},
]


def generate(ctx):
    rng = ctx.rng
    for e in EXPLICIT:
        yield "together", dict(e)
        yield "merge", {"progs": e["progs"]}
    for _ in range(ctx.n(40, 400)):
        yield "tune", {"ids": [rng.randrange(12) for _ in range(rng.randint(1, 7))]}
    for _ in range(ctx.n(150, 1500)):
        a, b, lab = similar_pair(rng)
        progs = [a, b]
        for _ in range(rng.choice([0, 0, 1, 2])):
            progs.insert(rng.randint(0, len(progs)), other_prog(rng))
        yield "together", {"progs": progs, "label": lab.split(":")[0] if not lab.startswith(("same", "pure")) else ":".join(lab.split(":")[:2]),
                           "scheduler": rng.choice(["sync", "sync", "threads"]), "optimize_graph": rng.random() < 0.8}
    for _ in range(ctx.n(60, 600)):
        a, b, lab = similar_pair(rng)
        progs = [a, b] + [other_prog(rng) for _ in range(rng.choice([0, 1]))]
        yield "merge", {"progs": progs}


def search(ctx):
    yield from generate(ctx)
