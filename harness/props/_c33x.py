"""C33 extension: masked reductions at the level of the partial results the tasks of the real graph hold.

Model:    lean/DaskModel/Model/MaskedRed.lean (element = (data, mask) pair, a block carries `mask is nomask`; chunk /
          combine / aggregate = numpy.ma's `(filled(e).<op>(), _check_mask_axis(mask))`), driver ops in
          Model/MaskedRedIO.lean.  Theorems: lean/DaskModel/Props/C33xRed.lean.
Section mapartials — for sum / prod / any / all / min / max / count / mean / var of a 1-d or 2-d integer masked array along
          one axis: EVERY intermediate of the real graph is fetched with `dask.get` —
            * the input blocks (their `mask is nomask` status vs the model's provenance rule: `from_array` blocks share the
              array's status, blocks that went through a per-block numpy.ma masking function are shrunk block by block),
            * every chunk-level partial (data AND mask, the payload under the mask of an all-masked block = the unit) vs the
              Lean chunk function on the same block,
            * every combine task vs the Lean combine on the REAL inputs of that task,
            * the aggregate vs the Lean tree (dask's depth, the real `nomask` flags) per kept cell,
          and the API result vs numpy.ma (payload where unmasked, mask exactly).
Section maavg — da.ma.average(a, weights=w): numerator / denominator trees of the model (ma_average_eq) vs dask, numpy.ma and the
          plain sums over the unmasked positions.
Section maarr — getmaskarray / getdata / filled per block of `from_array` (dask.get on the block keys) vs the model's per-block
          lists, `nomask` expansion included; whole result vs the model and numpy.ma.
"""
from __future__ import annotations

import itertools
import warnings

import numpy as np

from sexp import Sym
from props import _reduce_util as U

UNIT_OPS = ("sum", "prod", "any", "all")
OPS = ["sum", "prod", "any", "all", "min", "max", "count", "mean", "var"]
FINDING_SIG = "reduce:zero-length-block-shrunk-to-nomask:all-masked:unit-instead-of-masked"


def _da():
    import dask
    import dask.array as da
    dask.config.set(scheduler="sync")
    return da


def _rat(x):
    from fractions import Fraction
    f = Fraction(float(x))
    return [f.numerator, f.denominator]


def _ratf(r):
    return r[0] / r[1]


def _close(a, b, scale):
    return abs(a - b) <= 1e-9 * max(1.0, scale, abs(a), abs(b))


def tree_layer_names(arr):
    """[(layer name, {output key coords: [input key coords in lol order]})] first round first, and the tree's input name."""
    out = []
    name = arr.name
    hlg = arr.dask
    while "-partial-" in name or "-aggregate-" in name:
        layer = dict(hlg.layers[name])
        rnd, src = {}, None
        for key, task in layer.items():
            ins = U.lol_flatten(task[1])
            src = ins[0][0]
            rnd[tuple(key[1:])] = [tuple(k[1:]) for k in ins]
        out.append((name, rnd))
        name = src
    out.reverse()
    return out, name


def graph_values(arr, name, keys):
    import dask
    ks = [(name,) + tuple(k) for k in keys]
    with warnings.catch_warnings():
        warnings.simplefilter("ignore")
        vals = dask.get(arr.__dask_graph__(), ks)
    return dict(zip([tuple(k) for k in keys], vals))


def sym_b(b):
    return bool(b)


def enc_elems(data, mask):
    return [[int(d), sym_b(bool(m))] for d, m in zip(data, mask)]


class Geo:
    """geometry of a reduction of an n-d (n <= 2) array along ONE axis `ax`"""

    def __init__(self, shape, chunks, ax):
        self.shape, self.chunks, self.ax, self.ndim = tuple(shape), chunks, ax, len(shape)
        self.bounds = [U.block_bounds(c) for c in chunks]
        self.other = None if self.ndim == 1 else 1 - ax

    def cells(self):
        return [()] if self.other is None else [(g,) for g in range(self.shape[self.other])]

    def locate(self, cell):
        """(block index along the kept axis, local index) of a kept position"""
        if self.other is None:
            return None, None
        g = cell[0]
        for j, (s, e) in enumerate(self.bounds[self.other]):
            if s <= g < e:
                return j, g - s
        raise AssertionError(cell)

    def key(self, i, j):
        """key coords of the block number i along the reduced axis (j: block along the kept axis)"""
        if self.other is None:
            return (i,)
        k = [0, 0]
        k[self.ax], k[self.other] = i, j
        return tuple(k)

    def idx_kd(self, loc):
        """index of a cell inside a keepdims=True partial"""
        if self.other is None:
            return (0,)
        ix = [0, 0]
        ix[self.other] = loc
        return tuple(ix)

    def block_elems(self, blk, loc):
        """(data list, mask list) of the cell's column inside one input block"""
        d, m = np.ma.getdata(blk), np.ma.getmaskarray(blk)
        if self.other is not None:
            sl = [slice(None), slice(None)]
            sl[self.other] = loc
            d, m = d[tuple(sl)], m[tuple(sl)]
        return [int(v) for v in d], [bool(v) for v in m]


def dec_pair(arr, idx, boolean=False):
    d = np.ma.getdata(arr)[idx]
    m = bool(np.ma.getmaskarray(arr)[idx])
    return [sym_b(bool(d)) if boolean else int(d), sym_b(m)]


def plain(p):
    """decoded driver answer / encoded pair -> comparable python values"""
    out = []
    for v in p:
        if isinstance(v, Sym) or isinstance(v, str):
            out.append(str(v) == "true")
        elif isinstance(v, bool):
            out.append(v)
        elif isinstance(v, list):
            out.append(plain(v))
        else:
            out.append(int(v))
    return out


def dec_opt(arr, idx):
    """min / max / generic partial element with the payload forgotten: 'm' or int"""
    if bool(np.ma.getmaskarray(arr)[idx]):
        return Sym("m")
    return int(np.ma.getdata(arr)[idx])


def opt_plain(v):
    return None if (isinstance(v, (Sym, str)) and str(v) == "m") else int(v)


def is_nomask(blk):
    return (not isinstance(blk, np.ma.MaskedArray)) or blk.mask is np.ma.nomask


def build(da, inp):
    """the dask masked array of the case, its numpy.ma twin, and the model's rule for the blocks' nomask status"""
    shape = tuple(inp["shape"])
    chunks = tuple(tuple(c) for c in inp["chunks"])
    data = np.array(inp["data"], dtype="int64").reshape(shape)
    mask = None if inp["mask"] is None else np.array(inp["mask"], dtype=bool).reshape(shape)
    if inp["prov"] == "from_array":
        a = np.ma.masked_array(data) if mask is None else np.ma.masked_array(data, mask=mask)
        x = da.from_array(a, chunks=chunks)
    else:   # the mask is applied by np.ma.masked_where per block
        a = np.ma.masked_where(mask, data)
        x = da.ma.masked_where(da.from_array(mask, chunks=chunks), da.from_array(data, chunks=chunks))
    return x, a, chunks


def case_mapartials(ctx, inp):
    da = _da()
    x, a, chunks = build(da, inp)
    op, ax, k, kd = inp["op"], inp["axis"], inp["k"], False
    geo = Geo(a.shape, chunks, ax)
    with warnings.catch_warnings():
        warnings.simplefilter("ignore")
        if op == "count":
            res = da.ma.count(x, axis=ax, keepdims=kd, split_every=k)
        else:
            res = getattr(da, op)(x, axis=ax, keepdims=kd, split_every=k)
    layers, src = tree_layer_names(res)
    depth = len(layers)
    nbr = len(chunks[ax])
    nbo = 1 if geo.other is None else len(chunks[geo.other])
    md, _ = ctx.lean(Sym("treedepth"), [k], [nbr])
    if depth not in (md, md + 1):
        ctx.disagree(f"ma.{op}: number of tree levels vs the depth loop", md, depth)
        return
    # ---- input blocks: nomask status
    in_keys = [geo.key(i, j) for i in range(nbr) for j in range(nbo)]
    blocks = graph_values(x, x.name, in_keys)
    whole_nomask = a.mask is np.ma.nomask
    nm_model, nm_real = {}, {}
    for kk, blk in blocks.items():
        nm_real[kk] = is_nomask(blk)
        nm_model[kk] = whole_nomask if inp["prov"] == "from_array" else not bool(np.ma.getmaskarray(blk).any())
    ctx.eq(f"{inp['prov']}: `mask is nomask` of the blocks handed to the chunk tasks", [nm_model[k_] for k_ in in_keys], [nm_real[k_] for k_ in in_keys])
    # ---- every level of the real graph
    parts = graph_values(res, src, in_keys)
    level_vals = [parts]
    for name, rnd in layers:
        level_vals.append(graph_values(res, name, list(rnd.keys())))
    with warnings.catch_warnings():
        warnings.simplefilter("ignore")
        try:
            got = ("ok", U.sync_compute(res))
        except Exception as e:          # noqa: BLE001
            got = ("raised", f"{type(e).__name__}: {e}")
        try:
            if op == "count":
                exp = ("ok", np.ma.count(a, axis=ax))
            else:
                exp = ("ok", getattr(np.ma, op)(a, axis=ax))
        except Exception as e:          # noqa: BLE001
            exp = ("raised", type(e).__name__)
    if got[0] == "raised" or exp[0] == "raised":
        if got[0] != exp[0]:
            ctx.fail(f"ma.{op}: dask {got[0]} / numpy.ma {exp[0]}", observed=str(got[1])[:200], expected=str(exp[1])[:200])
        ctx.branch("raises")
        return
    zero_block = any(c == 0 for c in chunks[ax])
    for cell in geo.cells():
        j, loc = geo.locate(cell)
        jj = 0 if j is None else j
        col = [geo.block_elems(blocks[geo.key(i, jj)], 0 if loc is None else loc) for i in range(nbr)]
        enc_blocks = [enc_elems(d, m) for d, m in col]
        flags = [nm_real[geo.key(i, jj)] for i in range(nbr)]
        idx = geo.idx_kd(0 if loc is None else loc)
        _cell_levels(ctx, op, geo, jj, idx, loc, enc_blocks, flags, level_vals, layers, k, depth, inp)
        _cell_api(ctx, op, cell, col, flags, got[1], exp[1], inp, zero_block, depth)
    if zero_block:
        ctx.branch("zero-length chunk")
    if any(all(m) and m for _, m in [geo.block_elems(b, 0) for b in blocks.values()] if len(m)):
        ctx.branch("all-masked block (first column)")
    if whole_nomask and inp["prov"] == "from_array":
        ctx.branch("nomask array")
    if inp["prov"] != "from_array" and len(set(nm_real.values())) > 1:
        ctx.branch("blocks with and without nomask in one array")
    ctx.branch(f"{inp['prov']}/{op}")
    if depth > 1:
        ctx.branch("combine rounds")
    if geo.other is not None:
        ctx.branch("2-d")


def _part_at(op, val, idx, geo):
    """decode the cell of one keepdims partial of the real graph for `op`; returns the encoded model-side value"""
    if op in ("sum", "prod"):
        return dec_pair(val, idx)
    if op in ("any", "all"):
        return dec_pair(val, idx, boolean=True)
    if op in ("min", "max"):
        if np.ma.getdata(val).shape[geo.ax] == 0:
            return None                              # chunk_min of a zero-length block: no candidate
        return dec_opt(val, idx)
    if op == "count":
        return int(np.asarray(val)[idx])
    if op == "mean":
        return [dec_pair(val["total"], idx), dec_pair(val["n"], idx)]
    if op == "var":
        n, t, m2 = val["n"], val["total"], val["M"]
        masks = [bool(np.ma.getmaskarray(n)[idx]), bool(np.ma.getmaskarray(t)[idx]), bool(np.ma.getmaskarray(m2)[idx + (0,)])]
        return {"n": int(np.ma.filled(n, 0)[idx]), "total": float(np.ma.filled(t, 0)[idx]), "M": float(np.ma.filled(m2, 0)[idx + (0,)]), "masks": masks}
    raise KeyError(op)


def _model_chunk(ctx, op, nm, elems):
    if op in UNIT_OPS:
        return ctx.lean(Sym("machunk"), Sym(op), sym_b(nm), elems)
    if op in ("min", "max"):
        return ctx.lean(Sym("maminmax"), Sym(op), elems)
    if op == "count":
        return ctx.lean(Sym("macount"), elems)
    if op == "mean":
        return ctx.lean(Sym("mameanchunk"), sym_b(nm), elems)
    if op == "var":
        return ctx.lean(Sym("mamomchunk"), elems)
    raise KeyError(op)


def _model_comb(ctx, op, ins):
    if op in UNIT_OPS:
        return ctx.lean(Sym("macomb"), Sym(op), ins)
    if op in ("min", "max"):
        return ctx.lean(Sym("maminmaxcomb"), Sym(op), [v for v in ins if v is not None])
    if op == "mean":
        return ctx.lean(Sym("mameancomb"), ins)
    raise KeyError(op)


def _same(op, model, real):
    if op in UNIT_OPS or op == "mean":
        return plain(model) == plain(real)
    if op in ("min", "max"):
        return opt_plain(model) == (None if real is None else opt_plain(real))
    if op == "count":
        return int(model) == int(real)
    raise KeyError(op)


def _cell_levels(ctx, op, geo, jj, idx, loc, enc_blocks, flags, level_vals, layers, k, depth, inp):
    nbr = len(enc_blocks)
    scale = float(sum(abs(e[0]) for b in enc_blocks for e in b)) ** 2 + 1.0
    # chunk level
    real_parts = {}
    for i in range(nbr):
        key = geo.key(i, jj)
        rp = _part_at(op, level_vals[0][key], idx, geo)
        real_parts[key] = rp
        m = _model_chunk(ctx, op, flags[i], enc_blocks[i])
        if op == "var":
            ok = m[0] == rp["n"] and _close(_ratf(m[1]), rp["total"], scale) and (m[0] == 0 or _close(_ratf(m[2]), rp["M"], scale))
            # masked partial <-> nothing unmasked in a block that has a mask (n and total; `np.stack` drops the mask of M,
            # whose payload 0 is what the masked sum in moment_combine would read anyway)
            exp_masked = (not flags[i]) and m[0] == 0
            if not ok or rp["masks"][:2] != [exp_masked] * 2:
                ctx.disagree("moment_chunk of a masked block (n, total, M2, masks of n and total) vs momChunk of its unmasked values",
                             [m[0], _ratf(m[1]), _ratf(m[2]), exp_masked], [rp["n"], rp["total"], rp["M"], rp["masks"]])
        elif not _same(op, m, rp):
            ctx.disagree(f"ma.{op}: chunk-level partial of the real graph vs the Lean chunk function (nomask={flags[i]})",
                         plain(m) if isinstance(m, list) else m, None if rp is None else (plain(rp) if isinstance(rp, list) else str(rp)))
            return
    # combine rounds and the aggregate: the model on the REAL inputs of every task
    prev = real_parts
    for r, (name, rnd) in enumerate(layers):
        last = r == len(layers) - 1
        cur = {}
        for okey, ins in rnd.items():
            if geo.other is not None and okey and (okey[geo.other] if len(okey) == geo.ndim else okey[0]) != jj:
                continue
            val = level_vals[r + 1][okey]
            if last:
                continue            # the aggregate is compared through the whole tree below
            rp = _part_at(op, val, idx, geo)
            cur[okey] = rp
            if op in ("var", "count"):
                continue
            m = _model_comb(ctx, op, [prev[kk] for kk in ins])
            if not _same(op, m, rp):
                ctx.disagree(f"ma.{op}: combine task of the real graph vs the Lean combine on its real inputs",
                             plain(m) if isinstance(m, list) else str(m), plain(rp) if isinstance(rp, list) else str(rp))
                return
        if not last:
            prev = cur


def _cell_value(res, cell):
    if isinstance(res, np.ndarray) and res.ndim:
        v = res[cell]
    else:
        v = res
    masked = v is np.ma.masked or bool(np.ma.getmaskarray(v))
    return masked, v


def _cell_api(ctx, op, cell, col, flags, got, exp, inp, zero_block, depth):
    """whole Lean tree (real nomask flags, dask's k and depth) vs dask per cell; dask vs numpy.ma per cell"""
    nbr = len(col)
    k = inp["k"]
    gm, gv = _cell_value(got, cell)
    em, ev = _cell_value(exp, cell)
    blocks_enc = [[sym_b(f), enc_elems(d, m)] for f, (d, m) in zip(flags, col)]
    allm = all(all(m) for _, m in col)
    nel = sum(len(m) for _, m in col)
    scale = float(sum(abs(v) for d, _ in col for v in d)) ** 2 + 1.0
    model_masked = None
    if op in UNIT_OPS:
        t = ctx.lean(Sym("matree"), Sym(op), k, depth, blocks_enc)
        if len(t) != 1:
            ctx.disagree(f"ma.{op}: the Lean tree does not end in one block", t, None)
            return
        d, mk = plain(t[0])
        model_masked = mk
        if mk != gm or (not gm and (bool(gv) if op in ("any", "all") else int(gv)) != d):
            ctx.disagree(f"ma.{op}: Lean tree (real nomask flags) vs dask", [d, mk], ["masked" if gm else (bool(gv) if op in ("any", "all") else int(gv))])
    elif op == "mean":
        t = ctx.lean(Sym("mameantree"), k, depth, blocks_enc)
        (tot, tm), (n, nmk) = plain(t[0])
        model_masked = tm
        dask_nan = (not gm) and not np.isfinite(float(gv))
        if tm != nmk:
            ctx.disagree("ma.mean: total and n of the Lean tree must be masked together", [tm, nmk], None)
        if tm:
            if not gm:
                ctx.disagree("ma.mean: Lean tree masked vs dask", "masked", float(gv))
        elif n == 0:
            if not (gm or dask_nan):
                ctx.disagree("ma.mean: Lean tree n = 0 (unmasked) vs dask", "0/0", float(gv))
        elif gm or not _close(tot / n, float(gv), scale):
            ctx.disagree("ma.mean: Lean (total, n) vs dask", [tot, n], "masked" if gm else float(gv))
    elif op in ("min", "max"):
        vals = [v for (d, m) in col for v, mm in zip(d, m) if not mm]
        mv = (min(vals) if op == "min" else max(vals)) if vals else None
        parts = [ctx.lean(Sym("maminmax"), Sym(op), enc_elems(d, m)) for d, m in col]
        t = ctx.lean(Sym("maminmaxcomb"), Sym(op), parts)
        if opt_plain(t) != mv or (mv is None) != gm or (not gm and int(gv) != mv):
            ctx.disagree(f"ma.{op}: Lean fold of the partials / plain Python over the unmasked values vs dask", [opt_plain(t), mv], "masked" if gm else int(gv))
    elif op == "count":
        c = sum(int(ctx.lean(Sym("macount"), enc_elems(d, m))) for d, m in col)
        if gm or int(gv) != c:
            ctx.disagree("ma.count: sum of the Lean per-block counts vs dask", c, "masked" if gm else int(gv))
    elif op == "var":
        unm = [[int(v) for v, mm in zip(d, m) if not mm] for d, m in col]
        t = ctx.lean(Sym("vartree"), 0, k, depth, unm)
        if t[0] != "ok":
            ctx.disagree("ma.var: Lean var tree failed", t, None)
        elif t[1] is None:
            model_masked = True
            if not (gm or not np.isfinite(float(gv))):
                ctx.disagree("ma.var: Lean tree undefined (nothing unmasked) vs dask", None, float(gv))
        elif gm or not _close(_ratf(t[1]), float(gv), scale):
            ctx.disagree("ma.var: Lean var tree over the unmasked values vs dask", _ratf(t[1]), "masked" if gm else float(gv))
    # ---- dask vs numpy.ma
    finding_class = (inp["prov"] != "from_array" and zero_block and allm and nel >= 1 and op in UNIT_OPS + ("mean", "var"))
    bad = None
    if gm != em:
        bad = "mask differs"
    elif not em:
        if op in ("mean", "var"):
            if not _close(float(gv), float(ev), scale):
                bad = "data differs"
        elif (bool(gv) != bool(ev)) if op in ("any", "all") else (int(gv) != int(ev)):
            bad = "data differs"
    if bad:
        what = f"ma.{op} (blocks from {inp['prov']}): {bad} from numpy.ma"
        obs = {"cell": list(cell), "dask": "masked" if gm else repr(gv), "numpy.ma": "masked" if em else repr(ev)}
        if finding_class and em and not gm:
            ctx.branch("finding: zero-length block shrunk to nomask in an all-masked array")
            ctx.fail(what + " — a zero-length block comes back from the per-block numpy.ma masking function with `nomask`; its "
                     "partial is the UNMASKED unit, so the reduction of a completely masked array is not masked",
                     sig=FINDING_SIG, observed=obs)
        else:
            ctx.fail(what, observed=obs)
    elif finding_class:
        ctx.fail("the recorded finding (zero-length block shrunk to nomask in an all-masked array) did not reproduce: "
                 "retire it from known_findings.json and restore the full theorem", observed={"cell": list(cell)})
    if allm and nel:
        ctx.branch("everything masked in a cell")


def case_maarr(ctx, inp):
    da = _da()
    data = np.array(inp["data"], dtype="int64")
    chunks = (tuple(inp["chunks"]),)
    a = np.ma.masked_array(data) if inp["mask"] is None else np.ma.masked_array(data, mask=np.array(inp["mask"], dtype=bool))
    x = da.from_array(a, chunks=chunks)
    fn, v = inp["fn"], inp["v"]
    if fn == "filled":
        r, ref = da.ma.filled(x, v), np.ma.filled(a, v)
    elif fn == "getmaskarray":
        r, ref = da.ma.getmaskarray(x), np.ma.getmaskarray(a)
    else:
        r, ref = da.ma.getdata(x), np.ma.getdata(a)
    keys = [(i,) for i in range(len(chunks[0]))]
    per_block = graph_values(r, r.name, keys)
    in_blocks = graph_values(x, x.name, keys)
    mask_arg = Sym("nomask") if inp["mask"] is None else [sym_b(bool(m)) for m in inp["mask"]]
    m_blocks, m_whole = ctx.lean(Sym("maarr"), Sym(fn), int(v), list(chunks[0]), [int(d) for d in data], mask_arg)
    conv = (lambda t: [e is True for e in t]) if fn == "getmaskarray" else (lambda t: [int(e) for e in t])

    def lst(val):
        arr = np.asarray(val)
        if arr.ndim != 1:
            return ["not a 1-d block", list(arr.shape)]
        return [bool(e) if fn == "getmaskarray" else int(e) for e in arr]
    ctx.eq(f"{fn}: per-block outputs of the real graph vs the model's blocks", [conv(b) for b in m_blocks], [lst(per_block[kk]) for kk in keys])
    try:
        whole = U.sync_compute(r)
    except Exception as e:      # noqa: BLE001
        ctx.fail(f"da.ma.{fn} raised {type(e).__name__} where numpy.ma returns a value", observed=str(e)[:200], expected=np.asarray(ref).tolist())
        return
    ctx.eq(f"{fn}: whole result vs the model", conv(m_whole), lst(whole))
    if isinstance(whole, np.ma.MaskedArray) or not np.array_equal(np.asarray(whole), np.asarray(ref)):
        ctx.fail(f"da.ma.{fn} differs from numpy.ma (or is still a masked array)", observed=np.asarray(whole).tolist(), expected=np.asarray(ref).tolist())
    # the blocks of from_array keep the array's own nomask status (the model's `MArr.blocks`)
    mb, _ = ctx.lean(Sym("maarr"), Sym("blocks"), 0, list(chunks[0]), [int(d) for d in data], mask_arg)
    ctx.eq("from_array: `mask is nomask` per block", [b[0] is True for b in mb], [is_nomask(in_blocks[kk]) for kk in keys])
    ctx.eq("from_array: elements per block", [plain(b[1]) for b in mb],
           [[[int(d), bool(m)] for d, m in zip(np.ma.getdata(in_blocks[kk]), np.ma.getmaskarray(in_blocks[kk]))] for kk in keys])
    if inp["mask"] is None:
        ctx.branch("nomask expanded per block")
    if 0 in chunks[0]:
        ctx.branch("zero-length chunk")
    ctx.branch(fn)


def case_maavg(ctx, inp):
    """da.ma.average(a, weights=w) on a 1-d integer masked array: numerator / denominator trees of the model (theorem
    ma_average_eq) vs dask vs numpy.ma"""
    da = _da()
    data = np.array(inp["data"], dtype="int64")
    w = np.array(inp["weights"], dtype="int64")
    chunks = (tuple(inp["chunks"]),)
    a = np.ma.masked_array(data) if inp["mask"] is None else np.ma.masked_array(data, mask=np.array(inp["mask"], dtype=bool))
    x = da.from_array(a, chunks=chunks)
    wx = da.from_array(w, chunks=chunks)
    with warnings.catch_warnings():
        warnings.simplefilter("ignore")
        try:
            exp = ("ok", np.ma.average(a, weights=w))
        except Exception as e:      # noqa: BLE001
            exp = ("raised", type(e).__name__)
        try:
            res = da.ma.average(x, weights=wx, axis=0)
            got = ("ok", U.sync_compute(res))
        except Exception as e:      # noqa: BLE001
            got = ("raised", f"{type(e).__name__}: {e}"[:200])
    if exp[0] == "raised" or got[0] == "raised":
        if exp[0] != got[0]:
            ctx.fail(f"ma.average(weights): dask {got[0]} / numpy.ma {exp[0]}", observed=str(got[1]), expected=str(exp[1]))
        ctx.branch("raises")
        return
    bounds = U.block_bounds(chunks[0])
    mk = np.ma.getmaskarray(a)
    blocks = [enc_elems(data[s:e], mk[s:e]) for s, e in bounds]
    wss = [[int(v) for v in w[s:e]] for s, e in bounds]
    k = 4                                   # the default split_every of array reductions
    nb = len(bounds)
    import math
    depth = max(1, int(math.ceil(math.log(nb, k)))) if nb > 1 else 1
    num, den, flags = ctx.lean(Sym("maavg"), k, depth, wss, blocks)
    # the blocks of multiply(a, wgt, dtype=…) in the real graph: `mask is nomask` per block (the model's `shrunk` rule)
    mul = [n for n in res.dask.layers if n.startswith("multiply-")]
    if len(mul) == 1:
        pb = graph_values(res, mul[0], [(i,) for i in range(nb)])
        ctx.eq("average: `mask is nomask` of the blocks of multiply(a, wgt, dtype) vs the model's shrunk rule",
               [f is True for f in flags], [is_nomask(pb[(i,)]) for i in range(nb)])
        ctx.branch("multiply blocks inspected")
    if len(num) != 1 or len(den) != 1:
        ctx.disagree("ma.average: the Lean trees do not end in one block", [num, den], None)
        return
    (nd, nmk), dn = plain(num[0]), int(den[0])
    # oracle in plain Python over the unmasked positions
    o_num = sum(int(d) * int(ww) for d, ww, m in zip(data, w, mk) if not m)
    o_den = sum(int(ww) for ww, m in zip(w, mk) if not m)
    if (not nmk and nd != o_num) or dn != o_den:
        ctx.disagree("ma.average: Lean numerator / denominator vs the sums over the unmasked positions", [nd, dn], [o_num, o_den])
    gm, gv = _cell_value(got[1], ())
    em, ev = _cell_value(exp[1], ())
    # the quotient: masked iff the numerator is; a zero total weight of the unmasked positions is a division by zero
    # (numpy.ma and dask both return nan or masked with a warning — an undefined value, not modelled)
    if nmk:
        if not gm:
            ctx.disagree("ma.average(weights): Lean numerator masked vs dask", "masked", float(gv))
    elif dn == 0:
        if not (gm or not np.isfinite(float(gv))):
            ctx.disagree("ma.average(weights): total weight 0 vs dask", "x/0", float(gv))
    elif gm or not _close(nd / dn, float(gv), abs(nd) + 1.0):
        ctx.disagree("ma.average(weights): Lean num / den vs dask", nd / dn, "masked" if gm else float(gv))
    both_nan = (not gm) and (not em) and np.isnan(float(gv)) and np.isnan(float(ev))
    allm = bool(mk.all()) and mk.size >= 1
    finding_class = allm and (0 in chunks[0])
    if gm != em or (not gm and not both_nan and not _close(float(gv), float(ev), abs(nd) + 1.0)):
        what = "ma.average(weights) differs from numpy.ma"
        obs = {"dask": "masked" if gm else float(gv), "numpy.ma": "masked" if em else float(ev)}
        if finding_class and em and not gm:
            ctx.branch("finding: zero-length block shrunk to nomask in an all-masked array")
            ctx.fail(what + " — the zero-length block of multiply(a, wgt, dtype=…) comes back with `nomask`; its partial is the "
                     "UNMASKED 0, so the numerator of a completely masked array is not masked", sig=FINDING_SIG, observed=obs)
        else:
            ctx.fail(what, observed=obs)
    elif finding_class:
        ctx.fail("the recorded finding (zero-length block shrunk to nomask in an all-masked array) did not reproduce for "
                 "ma.average: retire it from known_findings.json", observed={"dask": "masked" if gm else float(gv)})
    if dn == 0 and not nmk:
        ctx.branch("weights of the unmasked positions sum to zero")
    if nmk:
        ctx.branch("everything masked")
    if inp["mask"] is None:
        ctx.branch("nomask array")
    if 0 in chunks[0]:
        ctx.branch("zero-length chunk")
    ctx.branch("average with weights")


CASES = {"mapartials": case_mapartials, "maarr": case_maarr, "maavg": case_maavg}


def _gen_mask(rng, shape, chunks, ax):
    n = U.prod_shape(shape)
    p = rng.choice([0.2, 0.5, 0.9])
    mask = np.array([rng.random() < p for _ in range(n)], dtype=bool).reshape(shape)
    r = rng.random()
    if r < 0.35 and n:
        bounds = [U.block_bounds(c) for c in chunks]
        idx = [rng.randrange(len(b)) for b in bounds]
        mask[tuple(slice(bounds[a][i][0], bounds[a][i][1]) for a, i in enumerate(idx))] = True
    elif r < 0.55:
        mask[...] = True
    elif r < 0.65 and len(shape) == 2:
        sl = [slice(None), slice(None)]
        sl[1 - ax] = rng.randrange(shape[1 - ax])
        mask[tuple(sl)] = True            # one completely masked cell
    return mask


def gen_mapartials(ctx, n):
    rng = ctx.rng
    for _ in range(n):
        if rng.random() < 0.65:
            shape = (rng.randint(1, 9),)
            chunks = (U.rand_chunks_1d(rng, shape[0], zero_p=0.45),)
            ax = 0
        else:
            shape = (rng.randint(1, 4), rng.randint(1, 4))
            chunks = U.rand_chunks(rng, shape)
            ax = rng.randrange(2)
        prov = rng.choice(["from_array", "from_array", "shrunk"])
        size = U.prod_shape(shape)
        data = [rng.randint(-3, 3) for _ in range(size)]
        if prov == "from_array" and rng.random() < 0.15:
            mask = None
        else:
            mask = [bool(v) for v in _gen_mask(rng, shape, chunks, ax).ravel()]
        yield "mapartials", {"shape": list(shape), "chunks": [list(c) for c in chunks], "data": data, "mask": mask, "prov": prov,
                             "op": rng.choice(OPS), "axis": ax, "k": rng.choice([2, 2, 3, 4])}


def gen_maarr(ctx, n):
    rng = ctx.rng
    for _ in range(n):
        size = rng.randint(0, 8)
        chunks = U.rand_chunks_1d(rng, size, zero_p=0.3)
        mask = None if rng.random() < 0.4 else [rng.random() < rng.choice([0.0, 0.3, 1.0]) for _ in range(size)]
        yield "maarr", {"data": [rng.randint(-5, 5) for _ in range(size)], "mask": mask, "chunks": list(chunks),
                        "fn": rng.choice(["getmaskarray", "getmaskarray", "getdata", "filled"]), "v": rng.choice([0, -7, 42])}


def gen_maavg(ctx, n):
    rng = ctx.rng
    for _ in range(n):
        size = rng.randint(1, 9)
        chunks = U.rand_chunks_1d(rng, size, zero_p=0.2)
        p = rng.choice([0.0, 0.3, 0.7, 1.0])
        mask = None if rng.random() < 0.2 else [rng.random() < p for _ in range(size)]
        hi = rng.choice([0, 1, 3])
        yield "maavg", {"data": [rng.randint(-4, 4) for _ in range(size)], "mask": mask, "chunks": list(chunks),
                        "weights": [rng.randint(0, hi) for _ in range(size)]}


def generate(ctx):
    yield from gen_mapartials(ctx, ctx.n(170, 1800))
    yield from gen_maarr(ctx, ctx.n(60, 600))
    yield from gen_maavg(ctx, ctx.n(50, 500))
