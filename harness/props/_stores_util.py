"""Helpers shared by the `stores` group (C17, C18, C51, C53)."""
from __future__ import annotations

import copy


# ----------------------------------------------------------------------------------------------
# C17: config trees <-> wire format
# ----------------------------------------------------------------------------------------------
class Interner:
    """Maps Python leaf values (anything that is not a dict) to integer codes, injectively per case.
    Small ints stand for themselves; everything else gets a code >= 10**6 keyed by (type, repr)."""

    def __init__(self):
        self.codes = {}

    def leaf(self, v):
        if isinstance(v, int) and not isinstance(v, bool) and abs(v) < 10 ** 6:
            return v
        k = (type(v).__name__, repr(v))
        if k not in self.codes:
            # Python-falsy scalars (None, "", [], False) get codes <= -10**6, truthy ones codes >= 10**6
            # (the model's `truthy` reads the sign; everything else treats codes as opaque)
            self.codes[k] = (10 ** 6 + len(self.codes)) * (1 if v else -1)
        return self.codes[k]

    def enc(self, v):
        """Python value -> wire (ordered list of [key, value] pairs for mappings, int code for leaves)"""
        if isinstance(v, dict):
            return [[str(k), self.enc(x)] for k, x in v.items()]
        return self.leaf(v)


def from_json_cfg(j):
    """JSON-able case input -> Python config value. Leaves: int | None | ["s", str] | ["l", [...]] ; dict = mapping."""
    if isinstance(j, dict):
        return {k: from_json_cfg(v) for k, v in j.items()}
    if isinstance(j, list):
        if j and j[0] == "s":
            return j[1]
        if j and j[0] == "l":
            return list(j[1])
        raise ValueError(j)
    return j


def ordered(v):
    """order-sensitive canonical form of a nested dict (to check 'exactly as it was', order included)"""
    if isinstance(v, dict):
        return ["dict"] + [[k, ordered(x)] for k, x in v.items()]
    return ["leaf", type(v).__name__, repr(v)]


SEGMENTS = ["a", "b", "c", "x", "q", "a-b", "a_b", "b-c", "b_c", "a_b-c", "a_b_c", "a-b-c", "a-b_c", "_a", "a-"]


def gen_leaf(rng):
    r = rng.random()
    if r < 0.6:
        return rng.randint(0, 9)
    if r < 0.75:
        return None
    if r < 0.9:
        return ["s", rng.choice(["hello", "a", "b-c", ""])]
    return ["l", [1, 2]]


def gen_leaf_plain(rng):
    """int or None only (used where the code's behaviour depends on the *type* of a non-mapping value)"""
    return rng.randint(0, 9) if rng.random() < 0.8 else None


def gen_cfg(rng, depth=3, width=3, segs=SEGMENTS, both_spellings=0.05, leaf=None):
    """random nested config (JSON form). Rarely contains both spellings of a name in one mapping."""
    d = {}
    for _ in range(rng.randint(0, width)):
        k = rng.choice(segs)
        if rng.random() > both_spellings:
            alt = k.replace("_", "-") if "_" in k else k.replace("-", "_")
            if alt != k and alt in d:
                continue
        if depth > 1 and rng.random() < 0.5:
            d[k] = gen_cfg(rng, depth - 1, width, segs, both_spellings, leaf)
        else:
            d[k] = (leaf or gen_leaf)(rng)
    return d


def gen_key(rng, cfg=None, segs=SEGMENTS, maxlen=3):
    """a dotted key; with a config given, half of the time it follows an existing path (maybe respelled)"""
    parts = []
    cur = cfg
    n = rng.randint(1, maxlen)
    for _ in range(n):
        if isinstance(cur, dict) and cur and rng.random() < 0.6:
            k = rng.choice(list(cur))
            cur = cur[k]
            if rng.random() < 0.3:
                k = k.replace("_", "-") if "_" in k else k.replace("-", "_")
        else:
            k = rng.choice(segs)
            cur = cur.get(k) if isinstance(cur, dict) else None
        parts.append(k)
    return ".".join(parts)


def gen_value(rng):
    if rng.random() < 0.2:
        return gen_cfg(rng, depth=2, width=2)
    return gen_leaf(rng)


def deep(v):
    return copy.deepcopy(v)


def ensure_budget(ctx, seconds=40, quick_scale=1.0):
    """`quick_scale` multiplies every `ctx.n(...)` count of the quick tier (the case phase of these properties is
    cheap). core.py now starts the case budget after build + audit, so the deadline is no longer extended here
    (`seconds` is kept for the callers' signature only)."""
    if ctx.tier == "quick" and ctx.scale == 1.0:
        ctx.scale = quick_scale
