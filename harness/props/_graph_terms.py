"""Term-level helpers of the graph group (C08 C09 C16): uninterpreted functions, Python object <-> s-expression
codecs for legacy objects and task-spec nodes, reference interpreters, generators of legacy / task-spec graphs."""
from __future__ import annotations

from sexp import Sym


class App:
    """The value returned by an uninterpreted function: structural equality, never callable, never a key."""
    __slots__ = ("f", "args", "kw")

    def __init__(self, f, args, kw):
        self.f, self.args, self.kw = f, tuple(args), tuple(kw)

    def __eq__(self, o):
        return isinstance(o, App) and (self.f, self.args, self.kw) == (o.f, o.args, o.kw)

    def __hash__(self):
        return hash((self.f, len(self.args)))

    def __repr__(self):
        return f"F{self.f}{self.args!r}{dict(self.kw) if self.kw else ''}"

    def __reduce__(self):
        return (App, (self.f, self.args, self.kw))


def F0(*a, **k):
    return App(0, a, k.items())


def F1(*a, **k):
    return App(1, a, k.items())


def F2(*a, **k):
    return App(2, a, k.items())


def F3(*a, **k):
    return App(3, a, k.items())


def F4(*a, **k):
    return App(4, a, k.items())


def F5(*a, **k):
    return App(5, a, k.items())


FUNCS = [F0, F1, F2, F3, F4, F5]
FIDX = {f: i for i, f in enumerate(FUNCS)}


# ---------------------------------------------------------------------------------------------
# JSON-able description of objects (generator output; inputs of cases must be JSON-able)
#   int | str | None | {"fn": i} | {"q": x} | {"t": [..]} | {"l": [..]} | {"d": [[k, v], ..]}
# ---------------------------------------------------------------------------------------------

def build(j):
    """JSON description -> real Python object"""
    from dask.core import literal
    if j is None or isinstance(j, (int, str)):
        return j
    if "fn" in j:
        return FUNCS[j["fn"]]
    if "q" in j:
        return literal(build(j["q"]))
    if "t" in j:
        return tuple(build(x) for x in j["t"])
    if "l" in j:
        return [build(x) for x in j["l"]]
    if "d" in j:
        return {build(k): build(v) for k, v in j["d"]}
    raise ValueError(j)


def to_sexp(o):
    """real Python object -> s-expression (model `Obj`)"""
    from dask.core import literal
    if o is None or isinstance(o, str):
        return o
    if isinstance(o, bool):
        raise TypeError("bool not modelled")
    if isinstance(o, int):
        return int(o)
    if isinstance(o, App):
        return [Sym("app"), o.f, [to_sexp(x) for x in o.args], [[to_sexp(k), to_sexp(v)] for k, v in o.kw]]
    if isinstance(o, literal):
        return [Sym("q"), to_sexp(o.data)]
    if isinstance(o, tuple):
        return [Sym("t")] + [to_sexp(x) for x in o]
    if isinstance(o, list):
        return [Sym("l")] + [to_sexp(x) for x in o]
    if isinstance(o, dict):
        return [Sym("d")] + [[to_sexp(k), to_sexp(v)] for k, v in o.items()]
    if o in FIDX:
        return [Sym("fn"), FIDX[o]]
    raise TypeError(f"not modelled: {type(o)}")


def jsexp(j):
    """JSON description -> s-expression, without building the object"""
    if j is None or isinstance(j, (int, str)):
        return j
    if "fn" in j:
        return [Sym("fn"), j["fn"]]
    if "q" in j:
        return [Sym("q"), jsexp(j["q"])]
    if "t" in j:
        return [Sym("t")] + [jsexp(x) for x in j["t"]]
    if "l" in j:
        return [Sym("l")] + [jsexp(x) for x in j["l"]]
    if "d" in j:
        return [Sym("d")] + [[jsexp(k), jsexp(v)] for k, v in j["d"]]
    raise ValueError(j)


def node_sexp(n):
    """real GraphNode / TaskRef / raw argument -> s-expression (model `Node`)"""
    from dask._task_spec import Alias, DataNode, Dict, GraphNode, NestedContainer, Task, TaskRef, _identity_cast
    if isinstance(n, Alias):
        return [Sym("alias"), to_sexp(n.target)]
    if isinstance(n, DataNode):
        return [Sym("data"), to_sexp(n.value)]
    if isinstance(n, TaskRef):
        return [Sym("ref"), to_sexp(n.key)]
    if isinstance(n, NestedContainer):
        kind = {list: "list", tuple: "tuple", dict: "dict", set: "set"}[n.klass]
        kw = {k: v for k, v in n.kwargs.items() if k != "constructor"}
        return [Sym("task"), [Sym("cont"), Sym(kind)], [node_sexp(a) for a in n.args],
                [[to_sexp(k), node_sexp(v)] for k, v in kw.items()]]
    if isinstance(n, Task):
        kw = dict(n.kwargs)
        if n.func is NestedContainer.to_container and kw.get("constructor") is Dict.constructor:
            # a keyed dict value: the computation of `Dict(...)` as a plain Task
            kw.pop("constructor")
            return [Sym("task"), [Sym("cont"), Sym("dict")], [node_sexp(a) for a in n.args],
                    [[to_sexp(k), node_sexp(v)] for k, v in kw.items()]]
        if n.func is _identity_cast:
            typ = kw.pop("typ")
            f = [Sym("icast"), Sym({list: "list", tuple: "tuple", dict: "dict", set: "set", frozenset: "frozenset"}[typ])]
        else:
            f = [Sym("call"), to_sexp(n.func)]
        return [Sym("task"), f, [node_sexp(a) for a in n.args], [[to_sexp(k), node_sexp(v)] for k, v in kw.items()]]
    if isinstance(n, GraphNode):
        raise TypeError(f"unmodelled node {type(n)}")
    return [Sym("raw"), to_sexp(n)]


# ---------------------------------------------------------------------------------------------
# reference interpreters (plain Python, independent of dask and of the Lean model)
# ---------------------------------------------------------------------------------------------

class Raised(Exception):
    pass


def _hashable(o):
    try:
        hash(o)
        return True
    except TypeError:
        return False


def ref_eval(dsk, key, dict_elementwise=True, tuple_elementwise=False):
    """Legacy semantics. Statement: calls, lists and dicts elementwise, hashable values equal to a key are references
    (dict_elementwise=True, tuple_elementwise=False).  The real conversion corresponds to the same flags since the
    fixes ca6daad (dicts) and 83e63e1 (tuples); before them to (False, True)."""
    keys = set(dsk)
    memo = {}
    active = set()

    def val(k):
        if k in memo:
            return memo[k]
        if k in active:
            raise Raised("cycle")
        active.add(k)
        memo[k] = ev(dsk[k])
        active.discard(k)
        return memo[k]

    def ev(o):
        if type(o) is tuple and o and callable(o[0]):
            return o[0](*[ev(a) for a in o[1:]])
        if isinstance(o, (int, str, tuple)) and not isinstance(o, bool) and _hashable(o) and o in keys:
            return val(o)
        if isinstance(o, list):
            return [ev(x) for x in o]
        if isinstance(o, dict) and dict_elementwise:
            return {k: ev(v) for k, v in o.items()}
        if isinstance(o, tuple) and tuple_elementwise:
            return tuple(ev(x) for x in o)
        return o

    return val(key)


def legacy_refs(dsk, o, dict_elementwise=True, tuple_elementwise=False):
    """keys referenced by object `o` under the same semantics"""
    keys = set(dsk)
    out = set()

    def go(o):
        if type(o) is tuple and o and callable(o[0]):
            for a in o[1:]:
                go(a)
        elif isinstance(o, (int, str, tuple)) and not isinstance(o, bool) and _hashable(o) and o in keys:
            out.add(o)
        elif isinstance(o, list):
            for x in o:
                go(x)
        elif isinstance(o, dict) and dict_elementwise:
            for v in o.values():
                go(v)
        elif isinstance(o, tuple) and tuple_elementwise:
            for x in o:
                go(x)
    go(o)
    return out


# ---------------------------------------------------------------------------------------------
# generators (JSON descriptions)
# ---------------------------------------------------------------------------------------------

def gen_key(rng, i, kind=None):
    """keys of all shapes, *including the falsy ones* `0`, `''` and `()` (index 0 of the int / str / tuple kinds):
    a key's truth value must never matter"""
    kind = kind or rng.choice(["str", "str", "int", "tuple", "tuple3"])
    if kind == "str":
        return "" if i == 0 else f"k{i}"
    if kind == "int":
        return i            # 0, 1, 2, ... : small ints also collide with int literals (references by equality)
    if kind == "tuple":
        return {"t": []} if i == 0 else {"t": ["x", i]}
    return {"t": [f"y{i}", 0, i % 2]}


def gen_lit(rng, keys_j):
    """a literal that evaluates to itself: ints, strings, None, nested plain containers; *almost* keys (never equal to
    a key of the graph: keys are small ints / '' / () / 'k<i>' / ('x', i), literals use ints >= 50, 'lit', ('x', 77)...)"""
    r = rng.random()
    if r < 0.3:
        return rng.randint(50, 59)
    if r < 0.5:
        return rng.choice(["lit", "zz", "k", "x", " "])
    if r < 0.55:
        return None
    if r < 0.65:
        return {"t": ["x", 77]} if rng.random() < 0.5 else {"t": [None]}
    if r < 0.75:
        return {"l": [rng.randint(50, 55), "p"]}
    if r < 0.8:
        return {"d": [["a", rng.randint(50, 55)]]}
    if r < 0.85:
        return {"t": [rng.randint(50, 53), "nokey"]}
    if r < 0.9:
        return {"fn": rng.randrange(6)}
    if r < 0.95:      # a tuple that contains a list: unhashable, never a key
        return {"t": ["x", {"l": [1]}]}
    return {"q": rng.choice([51, {"l": [51, 52]}, {"t": [{"fn": 0}, 51]}, "k1"])}


def gen_term(rng, prev, depth, flavour):
    """a legacy object that may reference the keys in `prev` (JSON descriptions).
    flavour: set of enabled constructs among {"dictref", "tupleref"} (the two known divergences)."""
    r = rng.random()
    if depth <= 0 or r < 0.25:
        if prev and rng.random() < 0.7:
            return rng.choice(prev)
        return gen_lit(rng, prev)
    if r < 0.55:
        n = rng.randint(0, 3)
        return {"t": [{"fn": rng.randrange(6)}] + [gen_term(rng, prev, depth - 1, flavour) for _ in range(n)]}
    if r < 0.7:
        return {"l": [gen_term(rng, prev, depth - 1, flavour) for _ in range(rng.randint(0, 3))]}
    if r < 0.78:
        return {"t": [{"q": gen_lit(rng, prev)}]}
    if r < 0.88:
        if "dictref" in flavour:
            return {"d": [[rng.choice(["a", "b", 61, {"t": ["x", 77]}][i:i + 1] or ["c"]), gen_term(rng, prev, depth - 1, flavour)]
                          for i in range(rng.randint(1, 3))]}
        return {"d": [[["a", "b", 61][i], gen_lit(rng, prev)] for i in range(rng.randint(0, 3))]}
    if "tupleref" in flavour:
        return {"t": [rng.choice([51, "s", None])] + [gen_term(rng, prev, depth - 1, flavour) for _ in range(rng.randint(1, 2))]}
    return gen_lit(rng, prev)


def gen_legacy_graph(rng, n, flavour=(), depth=3):
    """[[key, value], ...] (JSON descriptions), a DAG by topological numbering, shuffled insertion order"""
    keys = []
    items = []
    kinds = rng.choice([["str"], ["str", "int"], ["str", "tuple", "tuple3"], ["str", "int", "tuple", "tuple3"]])
    for i in range(n):
        k = gen_key(rng, i, rng.choice(kinds))
        r = rng.random()
        if keys and r < 0.12:
            v = rng.choice(keys)                     # plain alias
        elif r < 0.25:
            v = gen_lit(rng, keys)                   # plain data
        else:
            v = gen_term(rng, keys, rng.randint(1, depth), set(flavour))
        items.append([k, v])
        keys.append(k)
    rng.shuffle(items)
    return items


def has_ref_or_call(j, keyset):
    """does the description contain (in a position evaluated by the statement's or the code's traversal) a key
    reference or a call?  keyset: set of canonical JSON strings of keys"""
    import json
    if j is None or isinstance(j, (int, str)):
        return json.dumps(j) in keyset
    if "t" in j:
        if j["t"] and isinstance(j["t"][0], dict) and ("fn" in j["t"][0] or "q" in j["t"][0]):
            return True
        if json.dumps(j, sort_keys=True) in keyset:
            return True
        return any(has_ref_or_call(x, keyset) for x in j["t"])
    if "l" in j:
        return any(has_ref_or_call(x, keyset) for x in j["l"])
    if "d" in j:
        return any(has_ref_or_call(v, keyset) for _, v in j["d"])
    return False
