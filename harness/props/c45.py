"""C45 — division planning never splits equal index values.

Model:   lean/DaskModel/Model/SDL.lean  (transliteration of sorted_division_locations);
         lean/DaskModel/Model/PartQuant.lean (quantile divisions; sections pq_* in _c45_quantiles.py)
Theorems: lean/DaskModel/Props/C45.lean, lean/DaskModel/Props/C45xQuantiles.lean
Tie:     function-level diff of `sorted_division_locations` against the Lean model, plus the
         property oracle evaluated directly on the real output; API-level `from_pandas`.
"""
from __future__ import annotations

import itertools

from sexp import Sym

PROP = "C45"
READY = True
DRIVER = "dm_dfpart"
LEAN_MODULES = ["DaskModel.Props.C45", "DaskModel.Props.C45xQuantiles"]
CASE_TIMEOUT_S = 90   # the first case imports dask.dataframe (slow on a loaded machine)
LEVEL_TEXT = ("Lean 4 theorems, for every sorted sequence and both modes (npartitions/chunksize), about a line-by-line "
              "transliteration of sorted_division_locations: locations strictly increase from 0 to len "
              "(sdl_locations_strict), every division is the value at its location and the last is the last value "
              "(sdl_division_is_value_at_location, sdl_last), no boundary splits equal values (sdl_no_straddle, "
              "sdl_boundary_first_occurrence), whenever the function returns (proved by a loop invariant, no size bound); "
              "sdl_total: for EVERY sorted non-empty sequence and both modes (npartitions >= 1, any chunksize) the function "
              "returns - no IndexError on offsets[ind]/seq[i], also not in the enforce_exact step-back, and the loop ends "
              "within two iterations per boundary (general invariant GInv + measure, Lemmas/SDLTotal.lean); "
              "sdl_at_most_n: never more than npartitions partitions; sdl_exact_when_enough_unique: the full fourth clause "
              "- with at least n distinct values exactly n partitions, WITH duplicates (enforce_exact step-back arithmetic) "
              "and without (sdl_exact_when_enough_unique_partial additionally gives the closed-form locations for "
              "duplicate-free input). QUANTILE DIVISIONS (Props/C45xQuantiles.lean over Model/PartQuant.lean: "
              "merge_and_compress_summaries with toolz.merge_sorted, percentiles_to_weights, tree_groups/create_merge_tree, "
              "process_val_weights, RepartitionQuantiles, the duplicate-dropping fix-up of _calculate_divisions; integer-valued "
              "/ interned ordered values, EXACT integer weights): for every list of per-partition summaries with non-decreasing "
              "values and positive weights, every merge-tree shape and every npartitions >= 1, quantile_divisions_monotone "
              "(non-decreasing), quantile_divisions_span (first = minimum, last = maximum of everything summarised), "
              "quantile_divisions_count (npartitions+1), quantile_divisions_members, pvw_total (the over-sampled branch never "
              "raises), tree_groups_cover (Bresenham groups add up: no summary dropped), merge_and_compress_spec; "
              "percentiles_summary_contract + percentiles_to_weights_positive show the hypotheses are what percentiles_summary "
              "produces (picked positions as a parameter), giving quantile_divisions_span_data (min/max OF THE DATA); "
              "set_index_divisions_fixup; span_needs_positive_weights_refuted (zero weight on the maximum loses it). "
              "VALIDATED only for the quantile clause: the np.interp branch (under-sampled numeric data, then np.floor for integer "
              "dtypes), float rounding of weights / weights.sum()/n / np.linspace targets (cases where the rounded targets "
              "compare differently from the exact ones are counted as float-divergent and only oracle-checked), float-valued "
              "data (linear interpolation in percentiles_summary), datetime / categorical conversions, NaN/NaT, the random "
              "percentiles of sample_percentiles and tree_width (parameters of the model) - oracle-checked at function and API "
              "level (int/float/str/datetime keys). The tie of the models to the code is the function-level diff: exhaustive "
              "over all sorted sequences of length <= 6 over 3 letters (thorough: <= 9 over 4) x all npartitions/chunksize (0 "
              "included) plus random longer ones over int/str/float values; for the quantile model: tree_groups exhaustive "
              "N <= 24, merge_sorted / merge_and_compress_summaries / create_merge_tree (real tree_width) / process_val_weights "
              "/ percentiles_to_weights on int and str values with half-integer weights, percentiles_summary, "
              "_calculate_divisions.")
LEVEL_NOTE = ("Trusted: Lean kernel + standard axioms; the differential tie model<->sorted_division_locations and "
              "model<->partitionquantiles functions (function level, every run); values compared only through <,<=,== "
              "(interned order-preservingly); bisect/sorted/set of CPython; np.searchsorted on a sorted array = count of "
              "smaller(-or-equal) entries, np.cumsum, ndarray.sort, pandas Series.quantile('nearest') (positions are a model "
              "parameter); numpy interp inside process_val_weights (oracle-checked, not modelled).")
TECHNIQUE = "Lean 4 proof (loop invariant over an executable transliteration) + differential correspondence + property oracle on the real code"
TRUSTED = ["Lean 4 kernel, axioms propext / Classical.choice / Quot.sound", "harness/props/c45.py differential tie (function level, "
           "exhaustive small space on every run)", "CPython bisect/sorted/set; NumPy inside process_val_weights (oracle-checked only)"]
ASSUMPTIONS = ["values are compared only through <, <=, == (interned order-preservingly to Nat for the model)",
               "bisect.bisect_left on a sorted list = number of leading elements < x",
               "quantile model: weights are exact (integers / half-integers in the tie); np.searchsorted(c, q, 'left'|'right') on a "
               "non-decreasing array = number of entries < q | <= q; per-partition summaries have non-decreasing values and "
               "positive weights (proved from percentiles_summary's construction, checked on the real function)"]


def _oracle(seq, mode, n, divs, locs):
    """The four clauses of the statement, evaluated on a concrete output. Returns None or a description."""
    if locs[0] != 0 or locs[-1] != len(seq):
        return "locations do not run from 0 to len(seq)"
    if any(a >= b for a, b in zip(locs, locs[1:])):
        return "locations not strictly increasing"
    if len(divs) != len(locs):
        return "len(divisions) != len(locations)"
    for d, l in zip(divs[:-1], locs[:-1]):
        if seq[l] != d:
            return "division is not the value at its location"
    if divs[-1] != seq[-1]:
        return "last division is not the last value"
    for l in locs[1:-1]:
        if not seq[l - 1] < seq[l]:
            return "equal values straddle a boundary"
    if mode == "npartitions" and len(set(seq)) >= n and len(locs) - 1 != n:
        return "npartitions not met exactly although enough distinct values"
    return None


def case_sdl(ctx, inp):
    from core import import_dd
    import_dd()
    from dask.dataframe.io.io import sorted_division_locations
    seq, mode, n, kind = inp["seq"], inp["mode"], inp["n"], inp.get("kind", "int")
    conv = {"int": lambda v: v, "str": lambda v: "abcdefghijklmnopqrstuvwxyz"[v] if v < 26 else "z" * (v - 24),
            "float": lambda v: v * 0.5 - 3.0}[kind]
    real_seq = [conv(v) for v in seq]
    back = {conv(v): v for v in seq}
    import numpy as np
    import pandas as pd
    arg = pd.Index(real_seq) if inp.get("container", "index") == "index" else np.array(real_seq)
    try:
        divs, locs = sorted_division_locations(arg, **{mode: n})
        impl = [Sym("ok"), [back[d] for d in divs], [int(l) for l in locs]]
    except Exception as e:
        impl = [Sym("raised")]
        exc = f"{type(e).__name__}: {e}"
    model = ctx.lean(Sym("sdl"), seq, Sym(mode), n)
    ctx.eq("sorted_division_locations", model, impl)
    if len(set(seq)) < len(seq):
        ctx.branch("duplicates")
        if mode == "npartitions" and len(set(seq)) >= n >= 1:
            ctx.branch("enforce_exact")
            stats = ctx.lean(Sym("sdl-stats"), seq, Sym(mode), n)
            if stats[0] == "ok":
                if stats[1][1] > 0:
                    ctx.branch("enforce_exact-step-back")     # ind -= divs_remain - offs_remain really taken
                if impl[0] == "ok" and stats[1][0] > 2 * (len(impl[2]) - 1):
                    # proved bound (step_progress): at most two iterations per boundary
                    ctx.disagree("iterations of the model exceed 2 per boundary", stats[1][0], 2 * (len(impl[2]) - 1))
    elif seq:
        ctx.branch("unique-" + mode)
    if impl[0] == "ok":
        why = _oracle(seq, mode, n, impl[1], impl[2])
        if why:
            ctx.fail(why, sig=None, observed=impl[1:], expected=None)
    elif seq and n >= 1:
        ctx.fail("sorted_division_locations raised on a non-empty sorted sequence: " + exc, observed=exc)


def case_from_pandas(ctx, inp):
    """API level: from_pandas divisions/partitions follow the planned locations and are truthful."""
    import pandas as pd
    from core import import_dd
    dd = import_dd()
    import dask
    idx, mode, n = inp["seq"], inp["mode"], inp["n"]
    df = pd.DataFrame({"v": list(range(len(idx)))}, index=idx)
    with dask.config.set({"dataframe.convert-string": False, "scheduler": "sync"}):
        d = dd.from_pandas(df, **{mode: n})
        divs = list(d.divisions)
        parts = [d.get_partition(i).compute() for i in range(d.npartitions)]
    model = ctx.lean(Sym("sdl"), idx, Sym(mode), n)
    if model[0] == "ok":
        ctx.eq("from_pandas divisions", model[1], [int(x) for x in divs])
        locs = model[2]
        ctx.eq("from_pandas partition lengths", [b - a for a, b in zip(locs, locs[1:])], [len(p) for p in parts])
    got = pd.concat(parts) if parts else df.iloc[:0]
    if list(got.v) != list(df.v):
        ctx.fail("from_pandas partitions do not concatenate to the input", observed=list(got.v))
    for i, p in enumerate(parts):
        if len(p) and not (divs[i] <= p.index.min() and (p.index.max() < divs[i + 1] or (i == len(parts) - 1 and p.index.max() <= divs[i + 1]))):
            ctx.fail("from_pandas partition outside its divisions", observed=[divs, i, list(p.index)])
    ctx.branch("from_pandas")


def case_from_pandas_joint(ctx, inp):
    """JOINT / HISTORY: several from_pandas of the SAME pandas object (different npartitions / chunksize), one after the
    other and in one graph: each has the planned divisions, all rows in order; the pandas object stays untouched."""
    import pandas as pd
    from core import import_dd
    dd = import_dd()
    import dask
    idx = inp["seq"]
    df = pd.DataFrame({"v": list(range(len(idx)))}, index=idx)
    before = df.copy(deep=True)
    with dask.config.set({"dataframe.convert-string": False, "scheduler": "sync"}):
        ds = [dd.from_pandas(df, **{mode: n}) for mode, n in inp["variants"]]
        solo = [list(d.compute().v) for d in ds]
        joint = [list(x.v) for x in dask.compute(*ds)]
        for (mode, n), d, a, b in zip(inp["variants"], ds, solo, joint):
            model = ctx.lean(Sym("sdl"), idx, Sym(mode), n)
            if model[0] == "ok":
                ctx.eq("from_pandas divisions (joint stream)", model[1], [int(x) for x in d.divisions])
            if a != list(df.v) or b != list(df.v):
                ctx.fail("from_pandas of one pandas object in several layouts: rows differ", observed=[mode, n, a[:20], b[:20]])
    if not df.equals(before):
        ctx.fail("from_pandas modified the pandas source", observed=str(df)[:200])
    ctx.branch("from_pandas-joint")


def _conv(kind):
    return {"int": lambda v: v, "str": lambda v: "k%04d" % v, "float": lambda v: v * 0.5 - 3.0}[kind]


def case_quantiles(ctx, inp):
    """API level: RepartitionQuantiles (the divisions set_index/sort_values compute) are non-decreasing,
    have npartitions+1 entries and span the data's minimum and maximum."""
    import pandas as pd
    from core import import_dd
    dd = import_dd()
    vals = [_conv(inp["kind"])(v) for v in inp["vals"]]
    s = pd.Series(vals, name="k")
    ds = dd.from_pandas(s, npartitions=inp["nin"], sort=False)
    try:
        q = list(ds._repartition_quantiles(inp["nout"], upsample=inp.get("upsample", 1.0)).compute())
    except Exception as e:
        ctx.fail("RepartitionQuantiles raised on non-empty data", observed=f"{type(e).__name__}: {e}")
        return
    ctx.branch("quantiles-" + inp["kind"] + ("-undersampled" if len(set(vals)) < inp["nout"] + 1 else ""))
    if len(q) != inp["nout"] + 1:
        ctx.fail("quantile divisions: wrong number of entries", observed=q, expected=inp["nout"] + 1)
    if any(a > b for a, b in zip(q, q[1:])):
        ctx.fail("quantile divisions decrease", observed=q)
    if q[0] != min(vals) or q[-1] != max(vals):
        ctx.fail("quantile divisions do not span min..max of the data", observed=[q[0], q[-1]], expected=[min(vals), max(vals)])


def case_pvw(ctx, inp):
    """Function level: process_val_weights on a merged summary (strictly increasing vals, positive weights)."""
    import numpy as np
    from core import import_dd
    import_dd()
    from dask.dataframe.partitionquantiles import process_val_weights
    vals = [_conv(inp["kind"])(v) for v in inp["vals"]]
    dtype = np.array(vals).dtype
    try:
        rv = list(process_val_weights((vals, inp["weights"]), inp["n"], (dtype, None)))
    except Exception as e:
        ctx.fail("process_val_weights raised", observed=f"{type(e).__name__}: {e}")
        return
    k = len(vals) - (inp["n"] + 1)
    ctx.branch("pvw-" + ("exact" if k == 0 else "undersampled" if k < 0 else "oversampled") + "-" + inp["kind"])
    if len(rv) != inp["n"] + 1:
        ctx.fail("process_val_weights: wrong number of divisions", observed=rv)
    if any(a > b for a, b in zip(rv, rv[1:])):
        ctx.fail("process_val_weights: divisions decrease", observed=rv)
    if rv[0] != vals[0] or rv[-1] != vals[-1]:
        ctx.fail("process_val_weights: divisions do not span first..last value", observed=rv, expected=[vals[0], vals[-1]])
    if k >= 0 and any(x not in vals for x in rv):
        ctx.fail("process_val_weights: a division is not one of the summarised values", observed=rv)


CASES = {"sdl": case_sdl, "from_pandas": case_from_pandas, "from_pandas_joint": case_from_pandas_joint, "quantiles": case_quantiles, "pvw": case_pvw}

# extension round: the quantile divisions have a Lean model (Model/PartQuant.lean); sections pq_* in _c45_quantiles.py
from props import _c45_quantiles as _pq   # noqa: E402
CASES.update(_pq.CASES)


def _sorted_seqs(maxlen, letters):
    for ln in range(1, maxlen + 1):
        for comb in itertools.combinations_with_replacement(range(letters), ln):
            yield list(comb)


def generate(ctx):
    rng = ctx.rng
    # malformed stream
    yield "sdl", {"seq": [], "mode": "chunksize", "n": 2}
    yield "sdl", {"seq": [], "mode": "npartitions", "n": 1}
    for seq0 in ([1, 2], [0, 0, 1], [3]):
        yield "sdl", {"seq": seq0, "mode": "npartitions", "n": 0}     # falsy npartitions: TypeError in chunksizes()
        yield "sdl", {"seq": seq0, "mode": "chunksize", "n": 0}       # chunksize 0: every step is the minimum step 1
    # exhaustive small space (quick: len<=6 over 3 letters; thorough: len<=9 over 4 letters)
    maxlen, letters = (6, 3) if not ctx.thorough() else (9, 4)
    for seq in _sorted_seqs(maxlen, letters):
        for n in range(1, len(seq) + 2):
            yield "sdl", {"seq": seq, "mode": "npartitions", "n": n}
            yield "sdl", {"seq": seq, "mode": "chunksize", "n": n}
    # random longer sequences, three value kinds
    for _ in range(ctx.n(300, 6000)):
        ln = rng.randint(1, 60)
        hi = rng.choice([2, 3, 5, 10, 24])
        seq = sorted(rng.randint(0, hi) for _ in range(ln))
        mode = rng.choice(["npartitions", "chunksize"])
        n = rng.randint(1, ln + 2) if rng.random() < 0.8 else rng.randint(1, 4)
        yield "sdl", {"seq": seq, "mode": mode, "n": n, "kind": rng.choice(["int", "str", "float"]),
                      "container": rng.choice(["index", "ndarray"])}
    # aimed at the enforce_exact step-back: short runs first, one long run later, npartitions close to the number
    # of distinct values, so that an ideal-size step lands too far into the unique values
    for _ in range(ctx.n(60, 1200)):
        u = rng.randint(3, 9)
        long_at = rng.randint(1, u - 1)
        seq = []
        for v in range(u):
            seq += [v] * (rng.randint(6, 30) if v == long_at else rng.choice([1, 1, 1, 2, 3]))
        yield "sdl", {"seq": seq, "mode": "npartitions", "n": rng.choice([u, u, u - 1, max(1, u - 2)]),
                      "kind": rng.choice(["int", "str", "float"]), "container": rng.choice(["index", "ndarray"])}
    for _ in range(ctx.n(40, 400)):
        ln = rng.randint(1, 25)
        seq = sorted(rng.randint(0, rng.choice([3, 8, 30])) for _ in range(ln))
        yield "from_pandas", {"seq": seq, "mode": rng.choice(["npartitions", "chunksize"]), "n": rng.randint(1, ln + 1)}
    for _ in range(ctx.n(15, 200)):
        ln = rng.randint(1, 25)
        seq = sorted(rng.randint(0, rng.choice([3, 8, 30])) for _ in range(ln))
        yield "from_pandas_joint", {"seq": seq, "variants": [[rng.choice(["npartitions", "chunksize"]), rng.randint(1, ln + 1)]
                                                              for _ in range(rng.randint(2, 3))]}
    for _ in range(ctx.n(200, 3000)):
        nv = rng.randint(1, 14)
        vals = sorted(rng.sample(range(60), nv))
        weights = [rng.choice([0.5, 1.0, 2.0, 3.5, 10.0, 40.0]) for _ in vals]
        yield "pvw", {"vals": vals, "weights": weights, "n": rng.randint(1, 12), "kind": rng.choice(["int", "float", "str"])}
    for _ in range(ctx.n(40, 400)):
        ln = rng.randint(1, 40)
        vals = [rng.randint(0, rng.choice([2, 5, 20, 100])) for _ in range(ln)]
        yield "quantiles", {"vals": vals, "kind": rng.choice(["int", "float", "str"]), "nin": rng.randint(1, min(ln, 6)),
                            "nout": rng.randint(1, 8), "upsample": rng.choice([1.0, 1.0, 0.3, 4.0])}
    yield from _pq.generate(ctx)
