"""C36 — row-wise and elementwise DataFrame operations equal pandas.

Model:    lean/DaskModel/Model/Frame.lean (frames as row lists, PFrame, Blockwise = per-partition map,
          co-partitioned binary blockwise, column-expression trees CE/BE, project/filter/assign)
Theorems: lean/DaskModel/Props/C36.lean (blockwise_rowlocal, zip_blockwise_den, filter_den, daskPipeline_den, …)
Tie:      partition level — every partition of the computed dask pipeline vs the model's partitions; the Lean
          per-block semantics vs pandas; API level — random pipelines over mixed-dtype frames (int/float/bool/
          string/datetime/categorical/nullable), unique or duplicate index, known or unknown divisions, empty
          partitions, incl. accessors, map/apply with meta, rename, astype, and binary ops between frames with
          different ancestors (alignment), compared with pandas (values, index, order, dtypes, names).
"""
from __future__ import annotations

import json

from sexp import Sym

from props import _dfrows_util as U

U.warm()

PROP = "C36"
READY = True
DRIVER = "dm_dfrows"
LEAN_MODULES = ["DaskModel.Props.C36", "DaskModel.Props.C36xMap"]
CASE_TIMEOUT_S = 60
LEVEL_TEXT = (
    "Proved in Lean for every partitioning (any partition count, empty partitions, any divisions): blockwise_rowlocal "
    "(a per-partition function that distributes over concatenation computes that function of the whole frame: values, "
    "index labels, row order), zip_blockwise_den / filter_den (binary Blockwise over co-partitioned operands), "
    "daskPipeline_den for arbitrary pipelines of projection / boolean filter / assign over column-expression trees "
    "(+,-,*,neg,abs,fillna,clip,where,mask,isin,isna,comparisons with NaN semantics,&,|,~,astype(bool->int)), and "
    "aligned_binop_den (pandas outer alignment + elementwise op done partition by partition over co-partitioned operands = "
    "the aligned op on the whole series; sorted unique labels). daskPipeline_divisions / daskPipeline_nparts hold by "
    "construction of the model (Blockwise keeps divisions) and are there to be diffed against the real divisions. "
    "Extension (Props/C36xMap): daskMapCol_den - df.assign(dst=df[src].map(dict)) done partition by partition equals it on the whole "
    "frame for every partitioning (mapCol_index: index labels and row order kept; mapCell_some_mem / mapCell_missing / mapCell_none: hit, "
    "missing key -> NaN, NaN -> NaN; mapCol_other_cols; divisions / partition count kept), tied in section mapcol. "
    "Validated by correspondence only (not proved): pandas' kernels on one block (the Lean eval is diffed against pandas "
    "each run), dtypes, str/dt/cat accessors, apply(meta) and map with a function, rename, astype, the repartitioning step of "
    "MaybeAlignPartitions, duplicate labels under alignment, filters on reset_index() (section reset).")
LEVEL_NOTE = ("Trusted: Lean kernel; encoding of numeric frames as integer cells (NaN = none); pandas as the per-block reference "
              "and as the oracle for dtype/accessor behaviour; pyarrow import stub (object-dtype strings only). Known findings "
              "(7): one value defect (df.assign(w=other.z) with an empty aligned left partition adopts the right index) and six "
              "dtype-only classes rooted in value-dependent pandas dtypes on EMPTY partitions / object-dtype strings.")
TECHNIQUE = "Lean 4 proof (induction over the partition list / pipeline) + differential correspondence at partition and API level"
ASSUMPTIONS = ["each modelled elementwise operation acts on every row independently and pandas computes CE.eval/BE.eval on it (validated: pipespec vs pandas)",
               "dask runs one Blockwise task per partition (validated: partition-by-partition diff against the model)"]

CMPS = {"lt": "__lt__", "le": "__le__", "gt": "__gt__", "ge": "__ge__", "eq": "__eq__", "ne": "__ne__"}


# ------------------------------------------------------------------------------------------------
# translation of the modelled AST to pandas/dask calls
# ------------------------------------------------------------------------------------------------

def ce_py(f, names, e):
    k = e[0]
    if k == "col":
        return f[names[e[1]]]
    if k == "lit":
        return e[1]
    if k in ("add", "sub", "mul"):
        a, b = ce_py(f, names, e[1]), ce_py(f, names, e[2])
        return a + b if k == "add" else (a - b if k == "sub" else a * b)
    if k == "neg":
        return -ce_py(f, names, e[1])
    if k == "abs":
        return ce_py(f, names, e[1]).abs()
    if k == "fillna":
        return ce_py(f, names, e[1]).fillna(e[2])
    if k == "clip":
        return ce_py(f, names, e[1]).clip(e[2], e[3])
    if k == "where":
        return ce_py(f, names, e[2]).where(be_py(f, names, e[1]), ce_py(f, names, e[3]))
    if k == "mask":
        return ce_py(f, names, e[2]).mask(be_py(f, names, e[1]), ce_py(f, names, e[3]))
    if k == "ofbool":
        return be_py(f, names, e[1]).astype("int64")
    raise KeyError(k)


def be_py(f, names, e):
    k = e[0]
    if k == "cmp":
        return getattr(ce_py(f, names, e[2]), CMPS[e[1]])(ce_py(f, names, e[3]))
    if k == "isin":
        return ce_py(f, names, e[1]).isin(e[2])
    if k == "isna":
        return ce_py(f, names, e[1]).isna()
    if k == "and":
        return be_py(f, names, e[1]) & be_py(f, names, e[2])
    if k == "or":
        return be_py(f, names, e[1]) | be_py(f, names, e[2])
    if k == "not":
        return ~be_py(f, names, e[1])
    raise KeyError(k)


def run_ops(f, ops):
    names = list(f.columns)
    fresh = 0
    for op in ops:
        if op[0] == "project":
            names = [names[i] for i in op[1]]
            f = f[names]
        elif op[0] == "filter":
            f = f[be_py(f, names, op[1])]
        else:
            j = op[1]
            val = ce_py(f, names, op[2])   # evaluated on the frame BEFORE the assignment
            if j < len(names):
                nm = names[j]
            else:
                nm = f"n{fresh}"
                fresh += 1
                names = names + [nm]
            f = f.assign(**{nm: val})
    return f


def ast_sexp(e):
    """JSON AST -> s-expression (heads become symbols)"""
    if isinstance(e, list) and e and isinstance(e[0], str):
        head = e[0]
        if head == "isin":
            return [Sym(head), ast_sexp(e[1]), list(e[2])]
        if head == "project":
            return [Sym(head), list(e[1])]
        if head == "cmp":
            return [Sym(head), Sym(e[1]), ast_sexp(e[2]), ast_sexp(e[3])]
        return [Sym(head)] + [ast_sexp(x) for x in e[1:]]
    return e


def frame_rows(df):
    cols = [U.series_cells(df[c]) for c in df.columns]
    return [[int(i)] + [col[r] for col in cols] for r, i in enumerate(df.index.tolist())]


def rows_sexp(rows):
    return [[r[0]] + U.cells_to_sexp(r[1:]) for r in rows]


def _mk_df(inp):
    import pandas as pd
    rows = inp["rows"]
    nc = inp["ncols"]
    data = {}
    for j in range(nc):
        data[f"c{j}"] = U.mk_series([r[1 + j] for r in rows], inp["dtypes"][j], index=[r[0] for r in rows], name=f"c{j}")
    return pd.DataFrame(data, index=[r[0] for r in rows]) if nc else pd.DataFrame(index=[r[0] for r in rows])


def case_pipe(ctx, inp):
    import pandas as pd
    df = _mk_df(inp)
    lens, ops = inp["lens"], inp["ops"]
    b = U.bounds_of(lens)
    parts_rows = [inp["rows"][b[i]:b[i + 1]] for i in range(len(lens))]
    sops = [ast_sexp(o) for o in ops]
    expected = run_ops(df, ops)
    spec = ctx.lean(Sym("pipespec"), sops, rows_sexp(inp["rows"]))
    ctx.eq("pandas per-block semantics vs Lean pipeline", spec, frame_rows(expected))
    model = ctx.lean(Sym("pipe"), sops, [rows_sexp(p) for p in parts_rows])
    d = U.from_parts(df, lens, known=inp.get("known", True))
    try:
        r = run_ops(d, ops)
        got = U.compute_parts(r)
        whole = r.compute(scheduler="sync")
    except Exception as e:
        ctx.fail(f"pipeline raised {type(e).__name__}", observed=f"{type(e).__name__}: {e}"[:300])
        ctx.disagree("pipe partitions (dask raised)", model, type(e).__name__)
        return
    exp_cols = [str(c) for c in expected.columns]
    for label, obj in [("whole result", whole)] + [(f"partition {i}", p) for i, p in enumerate(got)]:
        if [str(c) for c in obj.columns] != exp_cols:
            ctx.fail(f"pipeline {label} has columns {[str(c) for c in obj.columns]}, pandas {exp_cols} (names/order/duplicates)",
                     observed=[str(c) for c in obj.columns], expected=exp_cols)
            return
    if [str(c) for c in r._meta.columns] != exp_cols:
        ctx.fail("lazy ._meta columns differ from pandas", observed=[str(c) for c in r._meta.columns], expected=exp_cols)
    ctx.eq("pipeline partitions", model, [frame_rows(p) for p in got])
    if r.npartitions != len(lens):
        ctx.fail("blockwise pipeline changed the partition count", observed=r.npartitions, expected=len(lens))
    if inp.get("known", True) and tuple(r.divisions) != tuple(d.divisions):
        ctx.fail("blockwise pipeline changed the divisions", observed=list(r.divisions), expected=list(d.divisions))
    try:
        pd.testing.assert_frame_equal(whole, expected, check_exact=True)
    except AssertionError as e:
        sig = None
        if 'Attribute "dtype" are different' in str(e) and any(k in json.dumps(ops) for k in ('"where"', '"mask"')):
            try:
                pd.testing.assert_frame_equal(whole, expected, check_exact=True, check_dtype=False)
                sig = "pipe:where-mask:value-dependent-dtype"
            except AssertionError:
                pass
        ctx.fail("pipeline result differs from pandas (values/index/order/dtypes/names)", sig=sig, observed=str(e)[:300],
                 expected=frame_rows(expected))
    if len(lens) > 1:
        ctx.branch("pipe-multipartition")
    if any(n == 0 for n in lens):
        ctx.branch("pipe-empty-partition")
    if any(o[0] == "filter" for o in ops):
        ctx.branch("pipe-filter")
        if len(expected) < len(df):
            ctx.branch("pipe-filter-drops-rows")
    if any(None in r[1:] for r in inp["rows"]):
        ctx.branch("pipe-nan")
    if len(set(r[0] for r in inp["rows"])) < len(inp["rows"]):
        ctx.branch("pipe-duplicate-index")
    if not inp.get("known", True):
        ctx.branch("pipe-unknown-divisions")


# ------------------------------------------------------------------------------------------------
# API level: mixed dtypes, accessors, alignment
# ------------------------------------------------------------------------------------------------

def _mixed_df(inp):
    import numpy as np
    import pandas as pd
    n = len(inp["i"])
    df = pd.DataFrame({
        "i": pd.Series(inp["i"], dtype="int64"),
        "f": pd.Series([np.nan if v is None else v for v in inp["f"]], dtype="float64"),
        "b": pd.Series(inp["b"], dtype="bool"),
        # pandas 3 infers its own `str` dtype; object-dtype strings are a separate (rare) stream
        "s": pd.Series(inp["s"], dtype="object") if inp.get("sdtype") == "object" else pd.Series(inp["s"]),
        "t": pd.to_datetime("2021-03-01") + pd.to_timedelta(inp["t"], unit="h"),
        "c": pd.Categorical(inp["c"], categories=["x", "y", "z"]),
        "n": pd.Series(inp["n"], dtype="Int64"),
    })
    df.index = pd.Index(inp["index"], name=inp.get("index_name"))
    assert len(df) == n
    return df


def _upper_len(x):
    return len(x) + 1


def api_step(f, step, is_dask):
    """one pipeline step on a pandas or dask DataFrame; returns the new frame"""
    k = step[0]
    if k == "getcols":
        keep = [c for c in step[1] if c in f.columns]
        return f[keep] if keep else f
    if k == "filter_gt":
        return f[f[step[1]] > step[2]] if step[1] in f.columns else f
    if k == "filter_streq":
        return f[f["s"] == step[1]] if "s" in f.columns else f
    if k == "filter_and":
        return f[(f["i"] > step[1]) & ~(f["b"])] if {"i", "b"} <= set(f.columns) else f
    if k == "filter_isin":
        return f[f["i"].isin(step[1])] if "i" in f.columns else f
    if k == "filter_notnull":
        return f[f[step[1]].notnull()] if step[1] in f.columns else f
    if k == "assign_add":
        return f.assign(**{step[1]: f[step[2]] + f[step[3]]}) if {step[2], step[3]} <= set(f.columns) else f
    if k == "assign_muladd":
        return f.assign(**{step[1]: f[step[2]] * step[3] + 1}) if step[2] in f.columns else f
    if k == "assign_cmp":
        return f.assign(**{step[1]: f[step[2]] >= f[step[3]]}) if {step[2], step[3]} <= set(f.columns) else f
    if k == "astype":
        return f.astype({step[1]: step[2]}) if step[1] in f.columns else f
    if k == "fillna":
        return f.assign(**{step[1]: f[step[1]].fillna(step[2])}) if step[1] in f.columns else f
    if k == "fillna_frame":
        return f.fillna({c: v for c, v in step[1].items() if c in f.columns})
    if k == "where":
        return f.assign(**{step[1]: f[step[1]].where(f[step[1]] > step[2], step[3])}) if step[1] in f.columns else f
    if k == "mask":
        return f.assign(**{step[1]: f[step[1]].mask(f[step[1]] > step[2], step[3])}) if step[1] in f.columns else f
    if k == "clip":
        return f.assign(**{step[1]: f[step[1]].clip(step[2], step[3])}) if step[1] in f.columns else f
    if k == "isin":
        return f.assign(**{step[1] + "_in": f[step[1]].isin(step[2])}) if step[1] in f.columns else f
    if k == "abs":
        return f.assign(**{step[1]: f[step[1]].abs()}) if step[1] in f.columns else f
    if k == "round":
        return f.assign(**{step[1]: (f[step[1]] / 3).round(step[2])}) if step[1] in f.columns else f
    if k == "map_dict":
        if "i" not in f.columns:
            return f
        m = {int(a): b for a, b in step[1].items()}
        return f.assign(im=f["i"].map(m, meta=("i", "float64"))) if is_dask else f.assign(im=f["i"].map(m))
    if k == "apply_series":
        if "s" not in f.columns:
            return f
        return f.assign(sl=f["s"].apply(_upper_len, meta=("s", "int64"))) if is_dask else f.assign(sl=f["s"].apply(_upper_len))
    if k == "rename":
        return f.rename(columns={a: b for a, b in step[1].items() if a in f.columns and b not in f.columns})
    if k == "str_upper":
        return f.assign(s=f["s"].str.upper()) if "s" in f.columns else f
    if k == "str_len":
        return f.assign(slen=f["s"].str.len()) if "s" in f.columns else f
    if k == "str_contains":
        return f.assign(sc=f["s"].str.contains(step[1])) if "s" in f.columns else f
    if k == "str_slice":
        return f.assign(ss=f["s"].str.slice(step[1], step[2])) if "s" in f.columns else f
    if k == "str_cat":
        return f.assign(s2=f["s"] + "_" + f["s"].str[:1]) if "s" in f.columns else f
    if k == "dt_field":
        return f.assign(**{"t_" + step[1]: getattr(f["t"].dt, step[1])}) if "t" in f.columns else f
    if k == "dt_floor":
        return f.assign(tf=f["t"].dt.floor(step[1])) if "t" in f.columns else f
    if k == "dt_shift":
        import pandas as pd
        return f.assign(t=f["t"] + pd.Timedelta(hours=step[1])) if "t" in f.columns else f
    if k == "cat_codes":
        return f.assign(cc=f["c"].cat.codes) if "c" in f.columns else f
    if k == "cat_eq":
        return f[f["c"] == step[1]] if "c" in f.columns else f
    if k == "cat_str":
        return f.assign(cs=f["c"].astype("object")) if "c" in f.columns else f
    if k == "n_add":
        return f.assign(n2=f["n"] + step[1]) if "n" in f.columns else f
    if k == "n_fill":
        return f.assign(n=f["n"].fillna(step[1])) if "n" in f.columns else f
    if k == "bool_ops":
        return f.assign(b2=(f["b"] | (f["i"] > step[1])) & ~(f["f"] > 0)) if {"b", "i", "f"} <= set(f.columns) else f
    if k == "neg":
        return f.assign(**{step[1]: -f[step[1]]}) if step[1] in f.columns else f
    if k == "frame_arith":
        cols = [c for c in ("i", "f") if c in f.columns]
        return f.assign(**{c + "_x": (f[cols] * step[1] - 1)[c] for c in cols}) if cols else f
    if k == "frame_cmp":
        cols = [c for c in ("i", "f") if c in f.columns]
        return f[(f[cols] > step[1]).all(axis=1)] if cols else f
    if k == "cast_filter":
        # a LOSSY cast followed by a filter on the cast values (must not be evaluated on the un-cast frame)
        if "i" not in f.columns:
            return f
        g = f.assign(h=f["i"] * 0.5).astype({"h": "int64"})
        return g[g["h"] >= step[1]]
    if k == "cast_filter_series":
        if "i" not in f.columns:
            return f
        h = (f["i"] * 0.5).astype("int64")
        return f.assign(h2=h)[h == step[1]]
    if k == "or_filter_binop":
        # `x - x[(p & q) | (p & r)]`: the rewritten filter is NOT the first operand of its parent
        if not {"i", "f", "b"} <= set(f.columns):
            return f
        x = f[["i", "f"]]
        flt = x[((f["i"] > step[1]) & (f["f"] > 0)) | ((f["i"] > step[1]) & f["b"])]
        d = x - flt
        return f.assign(di=d["i"], df_=d["f"])
    if k == "filter_reduction":
        # second filter compares with a reduction of the ALREADY FILTERED column
        if not {"i", "f"} <= set(f.columns):
            return f
        g = f[f["i"] > step[1]]
        red = getattr(g["f"], step[2])()
        return g[g["f"] >= red] if step[2] != "count" else g[g["i"] < red]
    if k == "filter_nonlocal":
        # second predicate looks at neighbouring rows of the FILTERED frame
        if not {"i", "f"} <= set(f.columns):
            return f
        g = f[f["i"] > step[1]]
        how = step[2]
        pred = {"cumsum": lambda: g["i"].cumsum() > 4, "cummax": lambda: g["i"].cummax() >= 3}[how]()
        return g[pred]
    raise KeyError(k)


def _make_dask(df, inp):
    dd = U.dd()
    mode = inp["part"][0]
    if mode == "from_pandas":
        return dd.from_pandas(df, npartitions=inp["part"][1], sort=inp["part"][2])
    if mode == "chunksize":
        return dd.from_pandas(df, chunksize=inp["part"][1])
    return U.from_parts(df, inp["part"][1], known=inp["part"][2])


def case_api(ctx, inp):
    import pandas as pd
    df = _mixed_df(inp)
    try:
        d = _make_dask(df, inp)
    except Exception as e:  # construction is C41/C45 territory
        ctx.note("construction_failed")
        return
    if (inp["part"][0] == "parts" and any(st[0] == "or_filter_binop" for st in inp["steps"])
            and U.splits_equal_labels(inp["index"], inp["part"][1])):
        ctx.note("skipped:alignment-needs-colocated-labels")
        return
    base = df
    if inp["part"][0] == "from_pandas" and inp["part"][2] and not df.index.is_monotonic_increasing:
        # from_pandas(sort=True) sorts by index (tie order is C41/C45's business): the reference input
        # is the frame dask actually holds
        base = d.compute(scheduler="sync")
    exp = base
    cur = d
    try:
        for st in inp["steps"]:
            exp = api_step(exp, st, False)
    except Exception as e:
        ctx.note("pandas_rejected:" + type(e).__name__)
        return
    names = [s[0] for s in inp["steps"]]
    obj_str = inp.get("sdtype") == "object" and any(n.startswith("str_") for n in names)
    try:
        for st in inp["steps"]:
            cur = api_step(cur, st, True)
        got = cur.compute(scheduler="sync")
    except Exception as e:
        sig = None
        if isinstance(e, ValueError) and "not supported with object series" in str(e):
            ctx.note("dask_refuses_object_series")   # explicit, documented refusal (pandas computes on object ints)
            return
        if obj_str and isinstance(e, AttributeError) and ".str accessor" in str(e):
            sig = "api:object-dtype-str-accessor:AttributeError"
        if obj_str and type(e).__name__ == "UFuncTypeError" and "str_cat" in names:
            sig = "api:object-dtype-str-accessor:UFuncTypeError"
        ctx.fail(f"pipeline {names} raised {type(e).__name__}", sig=sig, observed=f"{type(e).__name__}: {e}"[:300])
        return
    try:
        pd.testing.assert_frame_equal(got, exp, check_exact=False, rtol=1e-12, check_categorical=True)
    except AssertionError as e:
        msg = str(e)
        sig = None
        udf = [c for n, c in (("apply_series", "sl"), ("map_dict", "im")) if n in names]
        if udf and 'Attribute "dtype" are different' in msg and any(f'column name="{c}"' in msg for c in udf) and len(exp) == 0:
            sig = "api:udf-on-empty-partitions:dtype"
        elif obj_str and 'Attribute "dtype" are different' in msg:
            sig = "api:object-dtype-str-accessor:dtype"
        elif ("str_cat" in names and inp.get("sdtype") != "object" and len(exp) == 0 and len(got) == 0
              and 'Attribute "dtype" are different' in msg and 'column name="s2"' in msg
              and str(got["s2"].dtype) == "object" and str(exp["s2"].dtype) == "str"):
            # pandas itself returns object for `<empty str column> + "_"`: when every row is filtered away the empty
            # partitions' object columns are all that is left (pandas on the whole frame adds first, filters later)
            try:
                pd.testing.assert_frame_equal(got.drop(columns="s2"), exp.drop(columns="s2"), check_exact=False, rtol=1e-12)
                sig = "api:str-dtype-add:empty-result:object-vs-str"
            except AssertionError:
                pass
        elif ("or_filter_binop" in names and 'Attribute "dtype" are different' in msg
              and any(f'column name="{c}"' in msg for c in ("di", "df_"))):
            try:   # values must agree; only the int64/float64 choice of `x - x[pred]` may differ
                pd.testing.assert_frame_equal(got, exp, check_exact=False, rtol=1e-12, check_dtype=False)
                sig = "api:sub-of-filtered-frame:value-dependent-dtype"
            except AssertionError:
                pass
        ctx.fail(f"pipeline {names} differs from pandas", sig=sig, observed=msg[:400])
        return
    for st in inp["steps"]:
        ctx.branch("api-" + st[0].split("_")[0])
    ctx.branch("api-part-" + inp["part"][0])
    if not df.index.is_unique:
        ctx.branch("api-duplicate-index")
    if base is not df:
        ctx.branch("api-sorted-by-from_pandas")


def case_align(ctx, inp):
    """binary ops between frames with different ancestors / partitionings (MaybeAlignPartitions)"""
    import pandas as pd
    dd = U.dd()
    a = pd.DataFrame({"x": U.mk_series(inp["ax"], index=inp["ai"]), "y": U.mk_series(inp["ay"], index=inp["ai"])})
    b = pd.DataFrame({"x": U.mk_series(inp["bx"], index=inp["bi"]), "z": U.mk_series(inp["bz"], index=inp["bi"])})
    da = dd.from_pandas(a, npartitions=inp["na"])
    db = dd.from_pandas(b, npartitions=inp["nb"])
    if inp.get("b_unknown"):
        db = db.clear_divisions()
    k = inp["kind"]
    fns = {
        "series_add": lambda p, q: p.x + q.x,
        "series_sub_fill": lambda p, q: p.x.sub(q.z, fill_value=0),
        "frame_add": lambda p, q: p + q,
        "series_cmp": lambda p, q: p.y.fillna(0).add(q.z.fillna(0), fill_value=0) > 1,
        "where_other": lambda p, q: p.x.where(p.y > 0, q.x),
        "assign_other": lambda p, q: p.assign(w=q.z),
        "filter_other": lambda p, q: p[q.z.reindex(p.index).fillna(0) > 0] if isinstance(p, pd.DataFrame) else None,
        "frame_mul_series": lambda p, q: p.mul(q.z, axis=0),
        "proj_of_add": lambda p, q: (p + q)["x"],
        "proj_list_of_add": lambda p, q: (p + q)[["x", "z"]],
        "proj_of_method": lambda p, q: p.add(q, fill_value=0)[["x"]],
        "proj_scalar_of_method": lambda p, q: p.sub(q)["y"],
        # operands that are dimension-keeping REDUCTIONS of the same frame (nlargest, value_counts, mode): rows with an index of
        # their own, which must be aligned like any other differently partitioned operand
        "self_sub_nlargest": lambda p, q: p.x - p.x.nlargest(2),
        # (integer values, so that the keys of value_counts have the dtype of the frame's index: the union of an int64 and a
        # float64 index is a dtype question of its own)
        "self_add_value_counts": lambda p, q: p.x.fillna(0).astype("int64") + p.x.fillna(0).astype("int64").value_counts(),
        "self_add_mode": lambda p, q: p.x + p.x.mode(),
        "self_frame_sub_nlargest": lambda p, q: p - p.nlargest(2, "x"),
        "self_assign_nsmallest": lambda p, q: p.assign(w=p.y.nsmallest(3)),
        "self_where_nlargest": lambda p, q: p.x.where(p.y > 0, p.x.nlargest(2)),
    }
    if k == "filter_other":
        # boolean predicate from the other frame with the SAME index
        exp_fn = lambda p, q: p[q.z > 0]
        if list(inp["ai"]) != list(inp["bi"]):
            return
    else:
        exp_fn = fns[k]
    try:
        exp = exp_fn(a, b)
    except Exception as e:
        ctx.note("pandas_rejected:" + type(e).__name__)
        return
    try:
        got = exp_fn(da, db).compute(scheduler="sync")
    except Exception as e:
        ctx.fail(f"aligned op {k} raised {type(e).__name__}", observed=f"{type(e).__name__}: {e}"[:300])
        return
    if (inp.get("b_unknown") or k.startswith("self_")) and hasattr(got, "sort_index") and got.index.is_unique:
        got = got.sort_index()      # a shuffle-based alignment does not promise the row order
        exp = exp.sort_index()
    try:
        if isinstance(exp, pd.DataFrame):
            pd.testing.assert_frame_equal(got, exp, check_exact=False, rtol=1e-12)
        else:
            pd.testing.assert_series_equal(got, exp, check_exact=False, rtol=1e-12)
    except AssertionError as e:
        sig = None
        if k == "assign_other" and len(got) > len(exp) and "shape mismatch" in str(e):
            sig = "align:assign_other:extra-rows"
        ctx.fail(f"aligned op {k} differs from pandas", sig=sig, observed=str(e)[:400])
        return
    ctx.branch("align-" + k)
    if inp["na"] != inp["nb"]:
        ctx.branch("align-different-npartitions")
    if list(inp["ai"]) != list(inp["bi"]):
        ctx.branch("align-different-index")
    if inp.get("b_unknown"):
        ctx.branch("align-known-vs-unknown-divisions")


def case_reset(ctx, inp):
    """filters on `reset_index()` whose predicate reads the former index column, other columns, or both (the filter is
    pushed below the ResetIndex: every column the predicate reads must move with it)"""
    import pandas as pd
    dd = U.dd()
    n = len(inp["index"])
    df = pd.DataFrame({"a": U.mk_series(inp["a"], "int64", index=inp["index"]), "b": U.mk_series(inp["b"], "float64", index=inp["index"])},
                      index=pd.Index(inp["index"], name=inp["index_name"]))
    d = dd.from_pandas(df, npartitions=inp["npartitions"]) if inp["from_pandas"] else U.from_parts(df, inp["lens"], known=inp["known"])
    name = inp["index_name"] or "index"
    series = inp["series"]

    def prog(f):
        base = f["a"] if series else f
        r = base.reset_index(drop=False)
        k, w = inp["k"], inp["w"]
        sh = inp["shape"]
        if sh == "both":
            pred = (r[name] > k) & (r["a"] < w)
        elif sh == "index":
            pred = r[name] > k
        elif sh == "column":
            pred = r["a"] < w
        elif sh == "arith":
            pred = (r[name] + r["a"] > k + w) | (r["a"] == w)
        else:  # or-shared
            pred = ((r[name] > k) & (r["a"] < w)) | ((r[name] > k) & (r["a"] > w + 1))
        out = r[pred]
        return out[[name, "a"]] if inp["tailsel"] else out
    try:
        exp = prog(df)
    except Exception as e:
        ctx.note("pandas_rejected:" + type(e).__name__)
        return
    try:
        got = prog(d).compute(scheduler="sync")
    except Exception as e:
        ctx.fail(f"filter on reset_index() ({inp['shape']}) raised {type(e).__name__}", observed=f"{type(e).__name__}: {e}"[:300])
        return
    # dask restarts the new RangeIndex in every partition: compare rows, order and dtypes without the index
    try:
        pd.testing.assert_frame_equal(got.reset_index(drop=True), exp.reset_index(drop=True), check_exact=False, rtol=1e-12)
    except AssertionError as e:
        ctx.fail(f"filter on reset_index() ({inp['shape']}) differs from pandas", observed=str(e)[:300])
        return
    ctx.branch("reset-" + inp["shape"])
    if series:
        ctx.branch("reset-series")
    if not inp["index_name"]:
        ctx.branch("reset-unnamed-index")


def _map_real(f, inp):
    d = {int(k): float(v) for k, v in inp["dict"]}
    src, dst = f"c{inp['src']}", f"c{inp['dst']}"
    if hasattr(f, "npartitions"):
        return f.assign(**{dst: f[src].map(d, meta=(src, "float64"))})
    return f.assign(**{dst: f[src].map(d)})


def case_mapcol(ctx, inp):
    """Series.map(dict) + assign: real dask partitions vs daskMapCol, pandas vs mapCol (Props/C36xMap)."""
    import pandas as pd
    df = _mk_df(inp)
    lens = inp["lens"]
    b = U.bounds_of(lens)
    parts_rows = [inp["rows"][b[i]:b[i + 1]] for i in range(len(lens))]
    sd = [[int(k), int(v)] for k, v in inp["dict"]]
    expected = _map_real(df, inp)
    spec = ctx.lean(Sym("mapcolspec"), sd, inp["src"], inp["dst"], rows_sexp(inp["rows"]))
    ctx.eq("pandas Series.map(dict)+assign vs Lean mapCol", spec, frame_rows(expected))
    model = ctx.lean(Sym("mapcol"), sd, inp["src"], inp["dst"], [rows_sexp(p) for p in parts_rows])
    d = U.from_parts(df, lens, known=inp.get("known", True))
    try:
        r = _map_real(d, inp)
        got = U.compute_parts(r)
        whole = r.compute(scheduler="sync")
    except Exception as e:
        ctx.fail(f"map+assign raised {type(e).__name__}", observed=f"{type(e).__name__}: {e}"[:300])
        ctx.disagree("mapcol partitions (dask raised)", model, type(e).__name__)
        return
    exp_cols = [str(c) for c in expected.columns]
    for label, obj in [("whole result", whole), ("lazy ._meta", r._meta)] + [(f"partition {i}", p) for i, p in enumerate(got)]:
        if [str(c) for c in obj.columns] != exp_cols:
            ctx.fail(f"map+assign {label} has columns {[str(c) for c in obj.columns]}, pandas {exp_cols}",
                     observed=[str(c) for c in obj.columns], expected=exp_cols)
            return
    ctx.eq("mapcol partitions", model, [frame_rows(p) for p in got])
    if r.npartitions != len(lens):
        ctx.fail("map+assign changed the partition count", observed=r.npartitions, expected=len(lens))
    if inp.get("known", True) and tuple(r.divisions) != tuple(d.divisions):
        ctx.fail("map+assign changed the divisions", observed=list(r.divisions), expected=list(d.divisions))
    try:
        pd.testing.assert_frame_equal(whole, expected, check_exact=True, check_dtype=bool(len(df)) and all(lens))
    except AssertionError as e:
        ctx.fail("map+assign result differs from pandas (values/index/order/names)", observed=str(e)[:300],
                 expected=frame_rows(expected))
    keys = {int(k) for k, _ in inp["dict"]}
    srccells = [r_[1 + inp["src"]] for r_ in inp["rows"]]
    ctx.branch("mapcol-append" if inp["dst"] == inp["ncols"] else ("mapcol-inplace" if inp["dst"] == inp["src"] else "mapcol-replace-other"))
    if any(c is not None and c in keys for c in srccells):
        ctx.branch("mapcol-hit")
    if any(c is not None and c not in keys for c in srccells):
        ctx.branch("mapcol-missing-key")
    if any(c is None for c in srccells):
        ctx.branch("mapcol-nan-cell")
    if len(lens) > 1:
        ctx.branch("mapcol-multipartition")
    if any(n == 0 for n in lens):
        ctx.branch("mapcol-empty-partition")
    if len(set(r_[0] for r_ in inp["rows"])) < len(inp["rows"]):
        ctx.branch("mapcol-duplicate-index")
    if not inp.get("known", True):
        ctx.branch("mapcol-unknown-divisions")


CASES = {"pipe": case_pipe, "api": case_api, "align": case_align, "reset": case_reset, "mapcol": case_mapcol}


# ------------------------------------------------------------------------------------------------
# generators
# ------------------------------------------------------------------------------------------------

def gen_ce(rng, ncols, depth, floatcols):
    """numeric expression containing at least one column reference"""
    if depth <= 0 or rng.random() < 0.3:
        return ["col", rng.randrange(ncols)]
    k = rng.choice(["add", "sub", "mul", "neg", "abs", "fillna", "clip", "where", "mask", "ofbool", "addlit", "mullit"])
    a = gen_ce(rng, ncols, depth - 1, floatcols)
    if k in ("add", "sub", "mul"):
        return [k, a, gen_ce(rng, ncols, depth - 1, floatcols)]
    if k == "addlit":
        return ["add", a, ["lit", rng.randint(-3, 3)]]
    if k == "mullit":
        return ["mul", a, ["lit", rng.randint(-2, 3)]]
    if k in ("neg", "abs"):
        return [k, a]
    if k == "fillna":
        return ["fillna", a, rng.randint(-2, 2)]
    if k == "clip":
        lo = rng.randint(-3, 2)
        return ["clip", a, lo, lo + rng.randint(0, 4)]
    if k in ("where", "mask"):
        other = ["lit", rng.randint(-5, 5)] if rng.random() < 0.5 else gen_ce(rng, ncols, depth - 1, floatcols)
        return [k, gen_be(rng, ncols, depth - 1, floatcols), a, other]
    return ["ofbool", gen_be(rng, ncols, depth - 1, floatcols)]


def gen_be(rng, ncols, depth, floatcols):
    k = rng.choice(["cmp", "cmp", "cmp", "isin", "isna", "and", "or", "not"] if depth > 0 else ["cmp", "isin", "isna"])
    if k == "cmp":
        b = ["lit", rng.randint(-2, 4)] if rng.random() < 0.6 else gen_ce(rng, ncols, depth - 1, floatcols)
        return ["cmp", rng.choice(list(CMPS)), gen_ce(rng, ncols, depth - 1, floatcols), b]
    if k == "isin":
        return ["isin", gen_ce(rng, ncols, 0, floatcols), sorted(set(rng.randint(-2, 5) for _ in range(rng.randint(0, 4))))]
    if k == "isna":
        return ["isna", gen_ce(rng, ncols, depth - 1, floatcols)]
    if k == "not":
        return ["not", gen_be(rng, ncols, depth - 1, floatcols)]
    return [k, gen_be(rng, ncols, depth - 1, floatcols), gen_be(rng, ncols, depth - 1, floatcols)]


def gen_pipe(rng, thorough=False):
    ncols = rng.randint(1, 4)
    n = rng.randint(0, 12)
    dtypes = [rng.choice(["float64", "float64", "int64"]) for _ in range(ncols)]
    uniq = rng.random() < 0.5
    idx = sorted(rng.sample(range(40), n)) if uniq else sorted(rng.randint(0, 6) for _ in range(n))
    rows = []
    for i in range(n):
        cells = []
        for j in range(ncols):
            cells.append(None if (dtypes[j] == "float64" and rng.random() < 0.25) else rng.randint(-3, 6))
        rows.append([idx[i]] + cells)
    ops = []
    cur = ncols
    for _ in range(rng.randint(1, 5)):
        t = rng.random()
        if t < 0.25 and cur > 0:
            k = rng.randint(1, cur)
            cols = rng.sample(range(cur), k)
            ops.append(["project", cols])
            cur = k
        elif t < 0.55:
            ops.append(["filter", gen_be(rng, cur, 2, None)])
        else:
            j = rng.randint(0, cur)
            ops.append(["assign", j, gen_ce(rng, cur, 3, None)])
            if j == cur:
                cur += 1
    return {"ncols": ncols, "rows": rows, "dtypes": dtypes, "lens": U.gen_lens(rng, n, 5), "ops": ops,
            "known": rng.random() < 0.75 }


STEP_MENU = [
    lambda r: ["getcols", r.sample(["i", "f", "b", "s", "t", "c", "n"], r.randint(2, 6))],
    lambda r: ["filter_gt", r.choice(["i", "f"]), r.randint(-1, 4)],
    lambda r: ["filter_streq", r.choice(["ab", "Cd", "e", ""])],
    lambda r: ["filter_and", r.randint(0, 3)],
    lambda r: ["filter_isin", [r.randint(0, 6) for _ in range(3)]],
    lambda r: ["filter_notnull", r.choice(["f", "n"])],
    lambda r: ["assign_add", r.choice(["z", "i", "f"]), r.choice(["i", "f"]), r.choice(["i", "f", "n"])],
    lambda r: ["assign_muladd", r.choice(["z", "f"]), r.choice(["i", "f"]), r.randint(-2, 3)],
    lambda r: ["assign_cmp", "ge", r.choice(["i", "f"]), r.choice(["i", "f"])],
    lambda r: ["astype", r.choice(["i", "b"]), r.choice(["float64", "int32", "int64"])],
    lambda r: ["astype", "f", "float32"],
    lambda r: ["fillna", "f", r.choice([0.0, -1.5])],
    lambda r: ["fillna_frame", {"f": 0.5, "n": 7}],
    lambda r: ["where", r.choice(["i", "f"]), r.randint(0, 3), r.choice([-1, 0])],
    lambda r: ["mask", r.choice(["i", "f"]), r.randint(0, 3), r.choice([-1, 9])],
    lambda r: ["clip", r.choice(["i", "f"]), r.randint(-1, 1), r.randint(2, 4)],
    lambda r: ["isin", r.choice(["i", "s"]), r.choice([[1, 2, 3], ["ab", "e"], []])],
    lambda r: ["abs", r.choice(["i", "f"])],
    lambda r: ["round", r.choice(["i", "f"]), r.choice([0, 1])],
    lambda r: ["map_dict", {"0": 1.5, "1": -1.0, "2": 0.0, "3": 9.0}],
    lambda r: ["apply_series"],
    lambda r: ["rename", {"i": "I", "f": "ff"}],
    lambda r: ["str_upper"], lambda r: ["str_len"], lambda r: ["str_contains", r.choice(["a", "d", "^e"])],
    lambda r: ["str_slice", 0, r.randint(0, 2)], lambda r: ["str_cat"],
    lambda r: ["dt_field", r.choice(["year", "day", "hour", "dayofweek", "month"])],
    lambda r: ["dt_floor", r.choice(["D", "6h"])], lambda r: ["dt_shift", r.randint(-30, 30)],
    lambda r: ["cat_codes"], lambda r: ["cat_eq", r.choice(["x", "y", "z"])], lambda r: ["cat_str"],
    lambda r: ["n_add", r.randint(-2, 2)], lambda r: ["n_fill", 0],
    lambda r: ["bool_ops", r.randint(0, 3)], lambda r: ["neg", r.choice(["i", "f"])],
    lambda r: ["frame_arith", r.randint(2, 3)], lambda r: ["frame_cmp", r.randint(-1, 1)],
    lambda r: ["cast_filter", r.randint(-1, 2)], lambda r: ["cast_filter_series", r.randint(-1, 2)],
    lambda r: ["or_filter_binop", r.randint(-1, 3)],
    lambda r: ["filter_reduction", r.randint(-2, 2), r.choice(["mean", "max", "min", "count", "sum"])],
    lambda r: ["filter_reduction", r.randint(-2, 2), r.choice(["mean", "max", "count"])],
    lambda r: ["filter_nonlocal", r.randint(-2, 2), r.choice(["cumsum", "cummax"])],
]


def gen_api(rng):
    n = rng.randint(1, 14)
    uniq = rng.random() < 0.5
    sorted_idx = rng.random() < 0.8
    idx = rng.sample(range(50), n) if uniq else [rng.randint(0, 5) for _ in range(n)]
    if sorted_idx:
        idx = sorted(idx)
    inp = {
        "i": [rng.randint(-2, 6) for _ in range(n)],
        "f": [None if rng.random() < 0.25 else rng.choice([1.5, -2.0, 0.0, 3.25, 2.0]) for _ in range(n)],
        "b": [rng.random() < 0.5 for _ in range(n)],
        "s": [rng.choice(["ab", "Cd", "e", "", "abd"]) for _ in range(n)],
        "t": [rng.randint(0, 2000) for _ in range(n)],
        "c": [rng.choice(["x", "y", "z", "x"]) for _ in range(n)],
        "n": [None if rng.random() < 0.3 else rng.randint(0, 5) for _ in range(n)],
        "index": idx, "index_name": rng.choice([None, "k"]), "sdtype": "object" if rng.random() < 0.1 else "str",
        "steps": [rng.choice(STEP_MENU)(rng) for _ in range(rng.randint(1, 6))],
    }
    t = rng.random()
    if t < 0.35 or not sorted_idx:
        inp["part"] = ["from_pandas", rng.randint(1, 5), bool(sorted_idx or rng.random() < 0.5)]
    elif t < 0.5:
        inp["part"] = ["chunksize", rng.randint(1, 5)]
    else:
        lens = U.gen_lens(rng, n, 5)
        if sorted_idx:
            lens = U.snap_lens(idx, lens)   # equal labels are co-located, as in every frame dask builds itself
        inp["part"] = ["parts", lens, rng.random() < 0.7]
    return inp


def gen_align(rng):
    na_rows = rng.randint(1, 10)
    same = rng.random() < 0.4
    ai = sorted(rng.sample(range(20), na_rows))
    bi = list(ai) if same else sorted(rng.sample(range(20), rng.randint(1, 10)))
    return {"ai": ai, "bi": bi,
            "ax": U.gen_cells(rng, len(ai), 0.2), "ay": U.gen_cells(rng, len(ai), 0.2),
            "bx": U.gen_cells(rng, len(bi), 0.2), "bz": U.gen_cells(rng, len(bi), 0.2),
            "na": rng.randint(1, 4), "nb": rng.randint(1, 4),
            "b_unknown": rng.random() < 0.2,
            "kind": rng.choice(["series_add", "series_sub_fill", "frame_add", "series_cmp", "where_other",
                                "assign_other", "filter_other", "frame_mul_series", "proj_of_add", "proj_list_of_add",
                                "proj_of_method", "proj_scalar_of_method", "self_sub_nlargest", "self_add_value_counts",
                                "self_add_mode", "self_frame_sub_nlargest", "self_assign_nsmallest", "self_where_nlargest"])}


def gen_reset(rng):
    n = rng.randint(0, 12)
    idx = sorted(rng.sample(range(30), n))
    return {"index": idx, "a": [rng.randint(-2, 6) for _ in range(n)], "b": [rng.randint(0, 4) for _ in range(n)],
            "index_name": rng.choice(["k", "k", None]), "npartitions": rng.randint(1, 4), "from_pandas": rng.random() < 0.6,
            "lens": U.gen_lens(rng, n, 4), "known": rng.random() < 0.7, "series": rng.random() < 0.3,
            "k": rng.randint(0, 25), "w": rng.randint(-1, 5), "shape": rng.choice(["both", "both", "index", "column", "arith", "or-shared"]),
            "tailsel": rng.random() < 0.3}


def gen_mapcol(rng):
    inp = gen_pipe(rng)
    del inp["ops"]
    keys = rng.sample(range(-3, 7), rng.randint(1, 5))
    inp["dict"] = [[k, rng.randint(-9, 9)] for k in keys]
    inp["src"] = rng.randrange(inp["ncols"])
    inp["dst"] = rng.choice([inp["src"], inp["ncols"], rng.randint(0, inp["ncols"])])
    return inp


def generate(ctx):
    rng = ctx.rng
    # fixed edge cases: empty frame, single row, all rows filtered
    yield "pipe", {"ncols": 2, "rows": [], "dtypes": ["float64", "int64"], "lens": [0, 0], "known": False,
                   "ops": [["assign", 2, ["add", ["col", 0], ["col", 1]]], ["filter", ["cmp", "gt", ["col", 2], ["lit", 0]]]]}
    yield "pipe", {"ncols": 1, "rows": [[0, None], [0, 1], [1, None]], "dtypes": ["float64"], "lens": [1, 0, 2], "known": True,
                   "ops": [["filter", ["cmp", "ne", ["col", 0], ["col", 0]]], ["assign", 0, ["fillna", ["col", 0], 7]]]}
    for _ in range(ctx.n(170, 4000)):
        yield "pipe", gen_pipe(rng, ctx.thorough())
    for _ in range(ctx.n(120, 3000)):
        yield "api", gen_api(rng)
    for _ in range(ctx.n(60, 1200)):
        yield "align", gen_align(rng)
    for _ in range(ctx.n(30, 400)):
        yield "reset", gen_reset(rng)
    yield "mapcol", {"ncols": 1, "rows": [[0, 1], [0, None], [3, 4], [4, 2]], "dtypes": ["float64"], "lens": [1, 0, 3], "known": True,
                     "dict": [[1, 5], [2, 7]], "src": 0, "dst": 1}
    for _ in range(ctx.n(60, 1500)):
        yield "mapcol", gen_mapcol(rng)


def search(ctx):
    yield from generate(ctx)
