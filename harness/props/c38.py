"""C38 — groupby results equal pandas groupby.

Model:    lean/DaskModel/Model/Groupby.lean (per-partition partial aggregate `chunk`, key-wise monoid merge
          `combine`, `treeReduce` with split_every, `shuffleReduce` for split_out > 1)
Theorems: lean/DaskModel/Props/C38.lean
Tie:      API level: groupby aggregations on random frames / partitionings / split_every / split_out /
          shuffle_method / sort vs the Lean model (exact, integer-valued data) and vs pandas; list/dict/named
          aggregations, several keys, index and series keys, NA and categorical keys, nunique/idxmin/idxmax/
          var/std/cov/corr, cumulative ops, transform/shift/ffill/bfill, value_counts vs pandas.
"""
from __future__ import annotations

from sexp import Sym

from props import _dfpart_util as U

PROP = "C38"
READY = True
DRIVER = "dm_dfpart"
LEAN_MODULES = ["DaskModel.Props.C38"]
TABLES = ["GroupbyAggs"]
CASE_TIMEOUT_S = 90
ASSUMPTIONS = ["pandas groupby kernels on one partition (chunk) and on the concatenated partials (combine/aggregate) are the "
               "oracle-checked atoms; the model fixes only their algebra (what is folded, in which order)",
               "hash of a group key is a function of the key (colocation, C40)"]
LEVEL_TEXT = ("Lean 4 theorems: groupby_agg_eq_global (for every partitioning, every split_every >= 1 and every associative "
              "merge, the tree reduction of the per-partition partial aggregates equals the whole-frame aggregate group by "
              "group, values folded in row order), groupby_shuffle_eq_global (split_out > 1 with an order-preserving "
              "shuffle: each group is aggregated exactly once, in partition h(key) % n, to the global value), "
              "commutative_arrival_order_irrelevant (sum/count/min/max/mean/var are insensitive to the arrival order of "
              "the partials, so any shuffle method works), associativity of the first/last/min/max/(sum,count)/(n,sum,sumsq) "
              "merges, groupby_first; disk_first_refuted (first/last ARE order sensitive: with the disk shuffle they can be "
              "wrong - known finding). VALIDATED against pandas: list/dict/named agg specs, several keys, index/series keys, "
              "NA keys with dropna, categorical keys with observed, nunique, idxmin/idxmax, std, cov/corr, cumulative ops, "
              "transform/shift/ffill/bfill, value_counts, sort in {True, False, None}.")
LEVEL_NOTE = ("Trusted: Lean kernel + standard axioms; pandas groupby kernels; float rounding (mean/var compared within "
              "1e-9; the model is exact on integer-valued data); the partd disk shuffle does not keep arrival order.")
TECHNIQUE = "Lean 4 proof (keyed monoid homomorphism, tree = flat) + differential correspondence against the model and pandas"

AGGS = ["sum", "count", "size", "min", "max", "first", "last", "mean", "var"]


def _mkdf(inp):
    import numpy as np
    import pandas as pd
    n = len(inp["c"])
    df = pd.DataFrame({
        "c": inp["c"],
        "c2": [k % 2 for k in inp["c"]],
        "a": [np.nan if v is None else float(v) for v in inp["a"]],
        "b": [((7 * i) % 5) * 0.5 - 1.0 for i in range(n)],
    }, index=pd.Index(inp.get("index") or list(range(n)), dtype="int64"))
    kk = inp.get("keykind", "int")
    if kk == "str":
        df["c"] = ["g%d" % k for k in inp["c"]]
    elif kk == "cat":
        df["c"] = pd.Categorical(["g%d" % k for k in inp["c"]], categories=["g%d" % i for i in range(max(inp["c"], default=0) + 2)])
    elif kk == "nakey":
        df["c"] = [np.nan if k == 0 else float(k) for k in inp["c"]]
    return df


def _kw(inp):
    kw = {}
    if inp.get("split_out") is not None:
        kw["split_out"] = inp["split_out"]
    if inp.get("split_every") is not None:
        kw["split_every"] = inp["split_every"]
    if inp.get("method"):
        kw["shuffle_method"] = inp["method"]
    return kw


def _gbkw(inp):
    kw = {}
    if inp.get("sort") is not None:
        kw["sort"] = inp["sort"]
    if inp.get("dropna") is not None:
        kw["dropna"] = inp["dropna"]
    if inp.get("observed") is not None:
        kw["observed"] = inp["observed"]
    return kw


def _order_sensitive_disk(inp, agg):
    so = inp.get("split_out")
    # shuffle_method=None resolves to "disk" on the local schedulers (get_default_shuffle_method)
    multi = so is True or (isinstance(so, int) and not isinstance(so, bool) and so > 1)
    return agg in ("first", "last") and inp.get("method") in (None, "disk") and multi


def case_agg_model(ctx, inp):
    """one aggregation of SeriesGroupBy `a` by the int key `c`: dask vs Lean model (exact) vs pandas"""
    import dask
    df = _mkdf(inp)
    cuts = inp["cuts"]
    d = U.frame_from_cuts(df, cuts)
    agg = inp["agg"]
    kw = _kw(inp)
    gkw = _gbkw(inp)
    try:
        with dask.config.set(scheduler="sync"):
            gb = d.groupby("c", **gkw)
            got = (gb.size(**kw) if agg == "size" else getattr(gb.a, agg)(**kw)).compute()
    except Exception as e:  # noqa: BLE001
        ctx.fail(f"groupby.{agg} raised: " + U.exc_name(e), observed=U.exc_name(e))
        return
    pgb = df.groupby("c", **gkw)
    exp = pgb.size() if agg == "size" else getattr(pgb.a, agg)()
    sig = "groupby:first|last:split_out>1:shuffle_method=disk:arrival-order" if _order_sensitive_disk(inp, agg) else None
    why = U.same_pandas(got, exp, names=False)   # result / index *names* are metadata (C42)
    if why:
        ctx.fail(f"groupby('c').a.{agg}() differs from pandas: {why}", sig=sig,
                 observed=got.sort_index().to_dict(), expected=exp.sort_index().to_dict())
    if inp.get("sort") and list(got.index) != sorted(got.index) and (inp.get("split_out") in (None, 1)):
        ctx.fail("sort=True but the groups are not in key order", observed=list(got.index))
    # Lean model on the same partitioning (split_every of the tree; the shuffle path is order preserving for tasks)
    parts = [[[int(k), Sym("none") if v != v else int(v)] for k, v in zip(df.c.iloc[a:b], df.a.iloc[a:b])]
             for a, b in zip(cuts, cuts[1:])]
    se = inp.get("split_every") or 8
    model = ctx.lean(Sym("groupby"), Sym(agg), se, parts)
    mm = {}
    for row in model:
        k = row[0]
        if agg == "mean":
            mm[k] = None if row[1] == "none" or row[2] == 0 else row[1] / row[2]
        elif agg == "var":
            if row[1] == "none" or row[1] < 2:
                mm[k] = None
            else:
                c, s, q = row[1], row[2], row[3]
                mm[k] = (q - s * s / c) / (c - 1)
        else:
            mm[k] = None if row[1] == "none" else row[1]
    gg = {int(k): (None if v != v else float(v)) for k, v in got.items()}
    if sig is None:
        bad = [k for k in mm if (gg.get(k) is None) != (mm[k] is None)
               or (mm[k] is not None and abs(gg[k] - mm[k]) > 1e-9 * max(1.0, abs(mm[k])))]
        if bad or set(gg) != set(mm):
            ctx.disagree(f"groupby {agg}: Lean model vs dask", {k: mm[k] for k in sorted(mm)}, {k: gg[k] for k in sorted(gg)})
    so = inp.get("split_out")
    ctx.branch(f"{agg}-" + ("tree" if (so is None or (so == 1 and so is not True)) else f"shuffle-{inp.get('method') or 'default'}"))
    if len(cuts) > 2:
        ctx.branch("multi-partition")


def case_agg_spec(ctx, inp):
    """list / dict / named aggregation specs, several keys, index or series as key: vs pandas"""
    import dask
    import pandas as pd
    df = _mkdf(inp)
    d = U.frame_from_cuts(df, inp["cuts"])
    kw = _kw(inp)
    gkw = _gbkw(inp)
    by = inp["by"]
    spec = inp["spec"]

    def key(frame):
        if by == "index":
            return frame.index
        if by == "series":
            return frame.c2 + 1
        return by
    aggs = set()
    try:
        with dask.config.set(scheduler="sync"):
            gb = d.groupby(key(d), **gkw)
            pgb = df.groupby(key(df), **gkw)
            if spec["kind"] == "list":
                got, exp = gb.a.agg(spec["fns"], **kw).compute(), pgb.a.agg(spec["fns"])
                aggs = set(spec["fns"])
            elif spec["kind"] == "dict":
                got, exp = gb.agg(spec["map"], **kw).compute(), pgb.agg(spec["map"])
                aggs = {f for v in spec["map"].values() for f in ([v] if isinstance(v, str) else v)}
            elif spec["kind"] == "named":
                named = {k: pd.NamedAgg(column=c, aggfunc=f) for k, (c, f) in spec["named"].items()}
                got, exp = gb.agg(**named, **kw).compute(), pgb.agg(**named)
                aggs = {f for _, f in spec["named"].values()}
            else:
                got, exp = gb[["a", "b"]].agg(spec["fn"], **kw).compute(), pgb[["a", "b"]].agg(spec["fn"])
                aggs = {spec["fn"]}
    except Exception as e:  # noqa: BLE001
        ctx.fail("groupby.agg raised: " + U.exc_name(e), observed=[spec, U.exc_name(e)])
        return
    sig = ("groupby:first|last:split_out>1:shuffle_method=disk:arrival-order"
           if (aggs & {"first", "last"}) and _order_sensitive_disk(inp, "first") else None)
    why = U.same_pandas(got, exp, names=False)
    if why:
        ctx.fail(f"groupby.agg({spec}) differs from pandas: {why}", sig=sig, observed=str(got)[:300], expected=str(exp)[:300])
    ctx.branch(f"spec-{spec['kind']}-by-{by if isinstance(by, str) else 'multi'}")


ORDER_OPS = ("shift", "ffill", "bfill", "apply_first")


def _exotic(inp):
    """key configurations in which dask's groupby has many separately recorded defects"""
    if inp.get("keykind") == "cat" and inp.get("observed") is False:
        return "categorical-key:observed=False"
    if inp.get("keykind") == "nakey" and 0 in inp["c"]:
        return "NaN-key:dropna=%s" % inp.get("dropna")
    return None


def _auto_sig(inp, op, symptom):
    ex = _exotic(inp)
    return f"groupby:{op}:{ex}:{symptom}" if ex else None


def _run_misc(d, df, op, inp, kw, gkw, method=None):
    """(dask result, pandas result, compare-sorted?) for one operation"""
    gb, pgb = d.groupby("c", **gkw), df.groupby("c", **gkw)
    mk = {"shuffle_method": method} if method else {}
    if op == "nunique":
        return gb.a.nunique(**kw).compute(), pgb.a.nunique()
    if op in ("idxmin", "idxmax"):
        got, exp = getattr(gb.b, op)(**kw).compute(), getattr(pgb.b, op)()
        # ties: only the extreme *value* per group is determined
        got = df.b.loc[got.dropna()].sort_values().reset_index(drop=True)
        exp = df.b.loc[exp.dropna()].sort_values().reset_index(drop=True)
        return got, exp
    if op == "std":
        return gb.a.std(**kw).compute(), pgb.a.std()
    if op in ("cov", "corr"):
        return getattr(gb[["a", "b"]], op)(**kw).compute(), getattr(pgb[["a", "b"]], op)()
    if op == "value_counts":
        return gb.c2.value_counts(**kw).compute(), pgb.c2.value_counts()
    if op in ("cumsum", "cumprod", "cumcount"):
        return getattr(gb.a, op)().compute(), getattr(pgb.a, op)()
    if op == "transform":
        return gb.a.transform("sum", meta=("a", "f8"), **mk).compute(), pgb.a.transform("sum")
    if op == "shift":
        per = inp.get("periods", 1)
        return gb.a.shift(per, meta=("a", "f8"), **mk).compute(), pgb.a.shift(per)
    if op in ("ffill", "bfill"):
        return getattr(gb.a, op)(**mk).compute(), getattr(pgb.a, op)()
    if op == "apply":
        return (gb.a.apply(lambda s: s.sum() + len(s), meta=("a", "f8"), **mk).compute(),
                pgb.a.apply(lambda s: s.sum() + len(s)))
    if op == "apply_first":
        return (gb.a.apply(lambda s: s.iloc[0] if len(s) else 0.0, meta=("a", "f8"), **mk).compute(),
                pgb.a.apply(lambda s: s.iloc[0] if len(s) else 0.0))
    if op == "median":
        return gb.a.median(**{k: v for k, v in kw.items() if k != "split_out"}).compute(), pgb.a.median()
    raise ValueError(op)


def case_misc(ctx, inp):
    """other groupby operations vs pandas"""
    import dask
    df = _mkdf(inp)
    d = U.frame_from_cuts(df, inp["cuts"])
    op = inp["op"]
    kw = _kw(inp) if op in ("nunique", "std", "cov", "corr", "value_counts", "idxmin", "idxmax", "median") else {}
    gkw = _gbkw(inp)
    method = inp.get("method") if op in ORDER_OPS + ("transform", "apply") else None
    try:
        try:
            _probe = {"idxmin": lambda: df.groupby("c", **gkw).b.idxmin(), "idxmax": lambda: df.groupby("c", **gkw).b.idxmax()}.get(op)
            if _probe:
                _probe()
        except ValueError:
            ctx.branch("pandas-rejects-" + op)
            return
        with dask.config.set(scheduler="sync"):
            got, exp = _run_misc(d, df, op, inp, kw, gkw, method)
            why = U.same_pandas(got, exp, names=False)
            sig = None
            if why and op in ORDER_OPS and method in (None, "disk") and len(inp["cuts"]) > 2:
                # order-dependent per-group function after the disk shuffle: known finding iff the task shuffle is right
                got2, _ = _run_misc(d, df, op, inp, kw, gkw, "tasks")
                if U.same_pandas(got2, exp, names=False) is None:
                    sig = "groupby:order-dependent-per-group-op:shuffle_method=disk:arrival-order"
    except Exception as e:  # noqa: BLE001
        so = inp.get("split_out")
        multi = so is True or (isinstance(so, int) and not isinstance(so, bool) and so > 1)
        del multi
        empty = any(a == b for a, b in zip(inp["cuts"], inp["cuts"][1:]))
        sig = None
        if op in ("cov", "corr") and isinstance(e, ValueError) and "Expected iterable of tuples" in str(e):
            sig = "groupby:cov|corr:split_out>1:ValueError-meta"
        elif op in ("cov", "corr") and empty and isinstance(e, ValueError) and "duplicate labels" in str(e):
            sig = "groupby:cov|corr:empty-partition:ValueError-duplicate-labels"
        elif op == "value_counts" and empty and isinstance(e, AttributeError) and "levels" in str(e):
            sig = "groupby:value_counts:empty-partition:AttributeError-levels"
        elif op in ("cov", "corr") and inp.get("keykind") == "nakey" and set(inp["c"]) == {0} and isinstance(e, AttributeError) and "levels" in str(e):
            sig = "groupby:cov|corr:all-keys-NaN:dropna=False:AttributeError-levels"
        elif op == "transform" and inp.get("keykind") == "cat" and inp.get("observed") is False and isinstance(e, TypeError) and "'str' and 'int'" in str(e):
            sig = "groupby:transform:categorical-key:observed=False:TypeError-str-int"
        elif op == "value_counts" and isinstance(e, KeyError) and "dtype mappings" in str(e) and inp.get("split_out") not in (None, 1):
            sig = "groupby:value_counts:split_out>1:KeyError-dtype-mapping"
        ctx.fail(f"groupby {op} raised: " + U.exc_name(e), sig=sig or _auto_sig(inp, op, "raises-" + type(e).__name__),
                 observed=U.exc_name(e))
        return
    if why:
        if op in ("idxmin", "idxmax") and len(inp["cuts"]) > 2:
            sig = "groupby:idxmin|idxmax:group-spans-partitions:first-partial-wins"
        if op in ("cov", "corr") and any(v is None for v in inp["a"]):
            sig = "groupby:cov|corr:missing-values:not-pairwise-complete"
        if (inp.get("keykind") == "cat" and inp.get("observed") is False and len(inp["cuts"]) > 2
                and op in ("median", "apply", "apply_first", "transform", "shift", "ffill", "bfill") and len(got) > len(exp)):
            sig = "groupby:shuffle-apply-family:categorical-key:observed=False:every-category-emitted-per-partition"
        if inp.get("keykind") == "cat" and inp.get("observed") is False and op == "nunique" and len(got) < len(exp):
            sig = "groupby:nunique:categorical-key:observed=False:unobserved-category-missing"
        nakey = inp.get("keykind") == "nakey" and 0 in inp["c"]
        if nakey and op == "std" and inp.get("dropna") is None and len(got) == len(exp) + 1:
            sig = "groupby:mean|var|std:dropna-not-given:NaN-key-group-kept"
        if nakey and op == "nunique" and inp.get("dropna") is False and len(got) + 1 == len(exp):
            sig = "groupby:nunique:dropna=False:NaN-key-group-dropped"
        if sig is None:
            sym = "extra-groups" if len(got) > len(exp) else "missing-groups" if len(got) < len(exp) else "values"
            sig = _auto_sig(inp, op, sym)
        ctx.fail(f"groupby {op} differs from pandas: {why}", sig=sig, observed=str(got)[:300], expected=str(exp)[:300])
    ctx.branch(f"misc-{op}-{inp.get('keykind', 'int')}" + (f"-{method}" if method else ""))


CASES = {"agg_model": case_agg_model, "agg_spec": case_agg_spec, "misc": case_misc}


def _rand_frame(rng, keykind="int"):
    n = rng.randint(1, 30)
    ngroups = rng.choice([1, 2, 3, 6, 15])
    c = [rng.randint(0, ngroups) for _ in range(n)]
    a = [None if rng.random() < 0.2 else rng.randint(-5, 9) for _ in range(n)]
    return {"c": c, "a": a, "cuts": U.rand_cuts(rng, n, maxparts=rng.choice([1, 3, 6])), "keykind": keykind}


def _rand_cfg(rng, inp):
    inp["split_out"] = rng.choice([None, None, 1, 2, 3, True])
    inp["split_every"] = rng.choice([None, None, 2, 3])
    inp["method"] = rng.choice([None, "tasks", "disk"])
    inp["sort"] = rng.choice([None, True, False])
    return inp


def generate(ctx):
    rng = ctx.rng
    for _ in range(ctx.n(220, 2200)):
        inp = _rand_cfg(rng, _rand_frame(rng))
        inp["agg"] = rng.choice(AGGS)
        yield "agg_model", inp
    for _ in range(ctx.n(60, 600)):
        inp = _rand_cfg(rng, _rand_frame(rng, rng.choice(["int", "int", "str"])))
        fns = ["sum", "count", "min", "max", "mean", "first", "last", "size", "var", "std"]
        t = rng.random()
        if t < 0.3:
            inp["spec"] = {"kind": "list", "fns": rng.sample(fns, rng.randint(1, 3))}
        elif t < 0.6:
            inp["spec"] = {"kind": "dict", "map": {"a": rng.sample(fns[:7], rng.randint(1, 2)), "b": rng.choice(["sum", "mean", "max"])}}
        elif t < 0.85:
            inp["spec"] = {"kind": "named", "named": {"x": ["a", rng.choice(fns[:7])], "y": ["b", rng.choice(["sum", "min", "max"])]}}
        else:
            inp["spec"] = {"kind": "single", "fn": rng.choice(["sum", "count", "min", "max", "mean"])}
        inp["by"] = rng.choice(["c", "c", ["c", "c2"], "index", "series"])
        if inp["by"] == "index":
            inp["index"] = [k % 4 for k in inp["c"]]
        yield "agg_spec", inp
    ops = ["nunique", "idxmin", "idxmax", "std", "cov", "corr", "value_counts", "cumsum", "cumprod", "cumcount",
           "transform", "shift", "ffill", "bfill", "apply", "apply_first", "median"]
    # cumulative operations need several partitions in which a group comes and goes
    for _ in range(ctx.n(40, 400)):
        inp = _rand_frame(rng, "int")
        n = len(inp["c"])
        inp["c"] = [rng.randint(0, 3) for _ in range(n)]
        inp["cuts"] = U.rand_cuts(rng, n, maxparts=6, p_empty=0.3)
        inp["op"] = rng.choice(["cumsum", "cumprod", "cumcount"])
        if rng.random() < 0.4:
            inp["keykind"] = "nakey"           # key 0 becomes NaN: a NaN-key group spanning several partitions
            inp["dropna"] = rng.choice([False, False, True, None])
        yield "misc", inp
    for _ in range(ctx.n(70, 700)):
        kk = rng.choice(["int", "int", "str", "cat", "nakey"])
        inp = _rand_frame(rng, kk)
        inp["op"] = rng.choice(ops)
        _rand_cfg(rng, inp)
        if kk == "cat":
            inp["observed"] = rng.choice([True, False])
        if kk == "nakey":
            inp["dropna"] = rng.choice([True, False, None])
        inp["periods"] = rng.choice([1, 2, -1])
        yield "misc", inp
