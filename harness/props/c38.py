"""C38 — groupby results equal pandas groupby.

Model:    lean/DaskModel/Model/Groupby.lean (per-partition partial aggregate `chunk`, key-wise monoid merge
          `combine`, `treeReduce` with split_every, list-level shuffle `shuffleOut`/`partialRows`, `nunique`,
          `idxCurrent` + arg-min monoid, cumulative finalizer `cumDask`, `treeLevels`)
Theorems: lean/DaskModel/Props/C38.lean
Tie:      function level: `_cum_agg_filled`, `_cum_agg_aligned` vs cumFilled/cumAligned; the batches of every level of
          `TreeReduce._layer` vs treeLevels; extracted tables GroupbyAggs (chunk/aggregate pair of every SingleAggregation)
          and GroupbyCums (chunk/aggregate/initial of every GroupByCumulative) pinned by theorems.
          API level: aggregations (sum/count/size/min/max/first/last/mean/var with ddof) on random frames / partitionings /
          split_every / split_out / shuffle_method / sort vs the Lean model (exact, integer-valued data) and vs pandas;
          nunique, idxmin/idxmax (dask == the model of the code AS IT IS, pandas == the arg-min specification), cumsum/
          cumprod/cumcount vs their Lean models and pandas; list/dict/named aggregations, several keys, index and series
          keys, str/NaN/categorical keys (dropna, observed), std, cov/corr, transform/shift/ffill/bfill/apply/median,
          value_counts vs pandas only.

Known findings: every signature below is COMPUTED from the input class and the observed symptom, and the symptom is
verified against an executable description of the defect (e.g. "the result is pandas' result with every category
repeated once per output partition"); whatever does not match such a description is reported without a signature,
i.e. as a fresh violation.
"""
from __future__ import annotations

import math

from sexp import Sym

from props import _dfpart_util as U

PROP = "C38"
READY = True
DRIVER = "dm_dfpart"
LEAN_MODULES = ["DaskModel.Props.C38", "DaskModel.Props.C38xKeyed"]
TABLES = ["GroupbyAggs", "GroupbyCums"]
CASE_TIMEOUT_S = 90
ASSUMPTIONS = ["pandas' groupby kernels on ONE partition (sum/min/first/idxmin/cumsum/unique/... of the groups of a frame) and on the "
               "concatenated partials are the atoms: the model fixes only the algebra around them (what is folded, in which "
               "order, what is carried between partitions); their behaviour is checked against pandas on the whole frame by the "
               "correspondence runs, not proved",
               "the hash that routes a group key to an output partition is a function of the key (colocation, C40); the task "
               "shuffle keeps the source order of the pieces (C40 simple_shuffle_exact), the disk shuffle does not",
               "integer-valued data in the Lean diffs (the model is exact there); float results are compared within 1e-9",
               "categorical group keys (observed) and multi-key / index / series groupers are outside the model; NaN keys with dropna "
               "are modelled for nunique and the cumulative family only (Model/GroupbyX.lean), for the other operations they are "
               "validated against pandas",
               "idxmin/idxmax: the lexicographic (value, position) merge of Props/C38xKeyed is the REPAIRED merge (a specification); "
               "the code's (idxmin, first) pair is modelled by idxCurrent and refuted"]
TRUSTED = ["pandas (reference oracle AND per-partition kernel)", "the pyarrow import stub of harness/core.import_dd (pandas-backed strings)"]
LEVEL_TEXT = ("PROVED in Lean 4 for every frame, partitioning, split_every >= 1 and hash function (model: Model/Groupby.lean): "
              "groupby_agg_eq_global (tree reduction of the per-partition partials = whole-frame aggregate for every associative "
              "merge: sum/prod/min/max/first/last/count/size and the (sum,n) / (n,sum,sumsq) states of mean/var/std), "
              "groupby_shuffle_rows_eq_global + shuffle_group_rows (split_out > 1 at list level: partial rows split by "
              "h(key) % n, pieces in source order: every group is aggregated once, in one partition, to the whole-frame value; the "
              "apply family sees every group complete and in frame order), commutative_arrival_order_irrelevant vs "
              "disk_first_refuted (first/last are arrival-order sensitive: known finding with the disk shuffle), "
              "var_from_moments (over Q: (sumsq - sum^2/n)/(n - ddof) is the two-pass variance) with mean/var_state_is_moments, "
              "nunique_eq_global (drop_duplicates chunk, unique().explode() tree, nunique() root = distinct non-NA values of the "
              "frame), cumulative_eq_global (cum_raw + carried cum_last through _cum_agg_filled/_cum_agg_aligned = whole-frame "
              "scan; instances cumsum/cumprod/cumcount pinned to the extracted class table), groupby_idxmin/idxmax_spec + "
              "argmin_is_minimum (the (value, label) arg-min monoid is partition independent) but idx_current_is_first_partial / "
              "idx_current_refuted: dask's (idxmin, first) pair returns the arg-min of the first partition holding the group "
              "(known finding; the tie checks that dask equals THIS model exactly). VALIDATED ONLY (against pandas, no theorem): "
              "list/dict/named agg specs, several keys, index/series keys, NaN keys with dropna, categorical keys with observed, "
              "std as sqrt, cov/corr, value_counts, transform/shift/ffill/bfill/apply/median per-group functions, sort in "
              "{True, False, None}. 10 recorded findings (root causes), each recognised only by a verified symptom. "
              "EXTENSION (Props/C38xKeyed.lean on Model/GroupbyX.lean, group keys that may be NaN): groupby_nunique_eq_global "
              "(dropna both ways: the NaN group is kept / leaves, nunique_nan_group_dropped); groupby_idxmin/idxmax_eq_global + "
              "idx_result_is_first_extremum + idx_result_none (repaired merge: partial = (extreme value, first position), "
              "lexicographic merge = pandas' first occurrence for every partitioning and tree; commutative, so "
              "idx_repaired_arrival_order_irrelevant) with idx_code_merge_is_first (extracted: the code still aggregates with "
              "`first`) and idxmax_current_refuted; groupby_cum_eq_global (+ cumsum/cumprod/cumcount instances: cum_raw plus "
              "the carried per-group last running value = whole-frame scan, groups absent from partitions, NaN-key group with "
              "dropna=False, provided the SAME dropna reaches the chunk site and the carry site), cum_carry_is_running_value "
              "(every carry table (cum-last, i) of the graph = last running value per group over partitions < i), "
              "cum_carry_count, cum_carry_dropna_needed (refutation when the carry site loses dropna).")
LEVEL_NOTE = ("Trusted: Lean kernel + propext/Classical.choice/Quot.sound; pandas kernels on one partition (see ASSUMPTIONS); float "
              "rounding (mean/var compared within 1e-9, exact on integer data); the hash function is abstract. The tie is "
              "function level for _cum_agg_filled, _cum_agg_aligned, TreeReduce._layer (batch sizes of every level) and the two "
              "extracted class tables, API level (dask vs Lean model vs pandas) for the aggregations, nunique, idxmin/idxmax and "
              "the cumulative operations on int keys; everything else is API level against pandas only. Extension sections "
              "kx_*: function level for the carry tables (cum-last, i) and the cum_last table of every partition COMPUTED OUT OF "
              "THE REAL GRAPH vs cumCarryD/cumLastD (the dropna of the two `_apply_chunk` sites is read off the real expression "
              "and fed to the model as two flags), for NUnique.chunk/nunique_df_combine/nunique_df_aggregate hand-wired as a "
              "split_every tree with the expression's own kwargs vs nuniqueD, for IdxMin/IdxMax.groupby_chunk per partition vs "
              "the model's chunk state; the lexicographic idx merge is a specification (not in the source).")
TECHNIQUE = ("Lean 4 proof (keyed monoid homomorphism: tree = flat = whole frame; set-union invariant for nunique; scan with carried "
             "state for cumulative ops; exact rationals for var) + AST-extracted class tables + differential correspondence "
             "against the model and pandas, known findings recognised by executable defect descriptions")

AGGS = ["sum", "count", "size", "min", "max", "first", "last", "mean", "var"]

# ---- signatures of the recorded findings (one per root cause) -------------------------------------------------------
SIG_DISK = "groupby:order-sensitive-op:shuffle_method=disk:rows-of-a-group-in-arrival-order"
SIG_IDX_FIRST = "groupby:idxmin|idxmax:group-spans-partitions:first-partial-wins"
SIG_IDX_NA = "groupby:idxmin|idxmax:group-all-NA-within-one-partition:ValueError"
SIG_DROPNA_NONE = "groupby:mean|var|std:dropna-not-given:NaN-key-group-kept"
SIG_NUNIQUE_OBS = "groupby:nunique:categorical-key:observed=False:unobserved-category-missing"
SIG_OBS_DUP = "groupby:categorical-key:observed=False:several-output-partitions:every-category-once-per-partition"
SIG_TRANSFORM_NAN = "groupby:transform(callable):NaN-keys-dropped:partition-with-only-NaN-keys:rows-missing"
SIG_COV_TUPLE = "groupby:cov|corr:single-partition-or-split_out>1:chunk-is-a-tuple:ValueError-meta"
SIG_COV_NOGROUP = "groupby:cov|corr:no-group-at-all:AttributeError-levels"
SIG_COV_PAIRWISE = "groupby:cov|corr:missing-values:not-pairwise-complete"


def _mkdf(inp):
    import numpy as np
    import pandas as pd
    n = len(inp["c"])
    df = pd.DataFrame({
        "c": inp["c"],
        "c2": [k % 2 for k in inp["c"]],
        "a": [np.nan if v is None else float(v) for v in inp["a"]],
        "b": [((7 * i) % 5) * 0.5 - 1.0 for i in range(n)],
    }, index=pd.Index(inp.get("index") or list(range(n)), dtype="int64"))
    kk = inp.get("keykind", "int")
    if kk == "str":
        df["c"] = ["g%d" % k for k in inp["c"]]
    elif kk == "cat":
        df["c"] = pd.Categorical(["g%d" % k for k in inp["c"]], categories=["g%d" % i for i in range(max(inp["c"], default=0) + 2)])
    elif kk == "nakey":
        df["c"] = [np.nan if k == 0 else float(k) for k in inp["c"]]
    return df


def _kw(inp):
    kw = {}
    if inp.get("split_out") is not None:
        kw["split_out"] = inp["split_out"]
    if inp.get("split_every") is not None:
        kw["split_every"] = inp["split_every"]
    if inp.get("method"):
        kw["shuffle_method"] = inp["method"]
    return kw


def _gbkw(inp):
    kw = {}
    if inp.get("sort") is not None:
        kw["sort"] = inp["sort"]
    if inp.get("dropna") is not None:
        kw["dropna"] = inp["dropna"]
    if inp.get("observed") is not None:
        kw["observed"] = inp["observed"]
    return kw


def _multi_out(inp):
    so = inp.get("split_out")
    return so is True or (isinstance(so, int) and not isinstance(so, bool) and so > 1)


def _order_sensitive_disk(inp, agg):
    # shuffle_method=None resolves to "disk" on the local schedulers (get_default_shuffle_method)
    return agg in ("first", "last") and inp.get("method") in (None, "disk") and _multi_out(inp) and len(inp["cuts"]) > 2


def _same(got, exp):
    """U.same_pandas that reports an unsortable (mixed label) index as a difference instead of raising"""
    try:
        return U.same_pandas(got, exp, names=False)   # result / index *names* are metadata (C42)
    except TypeError as e:
        return "index labels of mixed types: " + str(e)[:120]


# ---- executable descriptions of the recorded defects -----------------------------------------------------------------

def _close(x, y):
    if x is None or y is None:
        return x is y
    try:
        x, y = float(x), float(y)
    except (TypeError, ValueError):
        return x == y
    if x != x or y != y:
        return x != x and y != y
    if math.isinf(x) or math.isinf(y):
        return x == y
    return abs(x - y) <= 1e-9 * max(1.0, abs(y))


def _rows(x, key):
    """the rows of a Series/DataFrame labelled `key`, each as a tuple of cells"""
    import pandas as pd
    sel = x[[k == key or (k != k and key != key) for k in x.index]]
    if isinstance(sel, pd.Series):
        return [(v,) for v in sel.tolist()]
    return [tuple(r) for r in sel.itertuples(index=False)]


def _row_close(r, s):
    return len(r) == len(s) and all(_close(a, b) for a, b in zip(r, s))


def _is_every_category_per_partition(got, exp, df):
    """`got` is pandas' result `exp` (one row per category, observed=False) in which every category occurs m > 1 times:
    once with its value and m-1 times with the value an unobserved category gets"""
    import pandas as pd
    if type(got) is not type(exp) or len(exp) == 0 or len(got) <= len(exp) or len(got) % len(exp):
        return False
    if isinstance(exp.index, pd.MultiIndex) or isinstance(got.index, pd.MultiIndex):
        return False
    m = len(got) // len(exp)
    cats = list(df["c"].cat.categories)
    observed = set(df["c"].tolist())
    unobserved = [c for c in cats if c not in observed]
    if not unobserved or sorted(map(str, exp.index)) != sorted(map(str, cats)):
        return False
    filler = _rows(exp, unobserved[0])[0]
    for cat in cats:
        rows, want = _rows(got, cat), _rows(exp, cat)[0]
        if len(rows) != m:
            return False
        hit = [i for i, r in enumerate(rows) if _row_close(r, want)]
        if not hit:
            return False
        rest = rows[:hit[0]] + rows[hit[0] + 1:]
        if not all(_row_close(r, filler) for r in rest):
            return False
    return True


def _nan_key_group_kept(got, exp):
    """`got` is `exp` plus exactly one extra row: the group of the NaN key"""
    try:
        nan_rows = [k for k in got.index if k != k]
    except TypeError:
        return False
    if len(nan_rows) != 1 or len(got) != len(exp) + 1:
        return False
    return _same(got[[k == k for k in got.index]], exp) is None


def _cov_defect_model(df, gkw, op, exp):
    """what dask's cov/corr computes: per-column sums and counts (NaN skipped column by column), products summed over the
    rows where both are present, n = sqrt(n_i * n_j) — equal to pandas only when no value is missing"""
    import numpy as np
    cols = ["a", "b"]
    out = {}
    with np.errstate(all="ignore"):
        for key, g in df.groupby("c", **gkw):
            g = g[cols]
            cnt = {c: np.float64(g[c].count()) for c in cols}
            s = {c: np.float64(g[c].sum()) for c in cols}
            prod = {(i, j): np.float64((g[i] * g[j]).sum()) for i in cols for j in cols}
            for i in cols:
                row = []
                for j in cols:
                    n = np.sqrt(cnt[i] * cnt[j])
                    div = np.float64(max(n - 1.0, 0.0))
                    val = (prod[(i, j)] - s[i] * s[j] / n) / div
                    if op == "corr":
                        vi = (prod[(i, i)] - s[i] ** 2 / cnt[i]) / div
                        vj = (prod[(j, j)] - s[j] ** 2 / cnt[j]) / div
                        sq = np.sqrt(vi * vj)
                        val = np.nan if sq == 0 else val / sq
                    row.append(val)
                out[(_keyname(key), i)] = row
    # same labels (and label types) as pandas' result
    if len(out) != len(exp) or list(exp.columns) != cols or any((_keyname(k), i) not in out for k, i in exp.index):
        return None
    model = exp.copy()
    for pos, (k, i) in enumerate(exp.index):
        model.iloc[pos] = out[(_keyname(k), i)]
    return model


def _partition_labels(df, cuts, op, col, gkw):
    """group -> [label that `op` (idxmin/idxmax) gives inside partition p, for every partition p holding non-NA values of
    the group, in partition order]"""
    labels = {}
    kw = {k: v for k, v in gkw.items() if k != "sort"}
    for a, b in zip(cuts, cuts[1:]):
        part = df.iloc[a:b]
        part = part[part[col].notna()]
        if len(part) == 0:
            continue
        for key, lab in getattr(part.groupby("c", **kw)[col], op)().items():
            if lab == lab:
                labels.setdefault(_keyname(key), []).append(lab)
    return labels


def _keyname(k):
    """group key usable in a dict / set (NaN keys compare unequal to themselves)"""
    return "NaN" if k != k else str(k)


# ---- sections ---------------------------------------------------------------------------------------------------------

def case_agg_model(ctx, inp):
    """one aggregation of SeriesGroupBy `a` by the int key `c`: dask vs Lean model (exact) vs pandas"""
    import dask
    df = _mkdf(inp)
    cuts = inp["cuts"]
    d = U.frame_from_cuts(df, cuts)
    agg = inp["agg"]
    kw = _kw(inp)
    gkw = _gbkw(inp)

    ddof = inp.get("ddof", 1) if agg == "var" else None
    extra = {} if ddof is None else {"ddof": ddof}

    def run(kw):
        with dask.config.set(scheduler="sync"):
            gb = d.groupby("c", **gkw)
            return (gb.size(**kw) if agg == "size" else getattr(gb.a, agg)(**extra, **kw)).compute()
    try:
        got = run(kw)
    except Exception as e:  # noqa: BLE001
        ctx.fail(f"groupby.{agg} raised: " + U.exc_name(e), observed=U.exc_name(e))
        return
    pgb = df.groupby("c", **gkw)
    exp = pgb.size() if agg == "size" else getattr(pgb.a, agg)(**extra)
    why = _same(got, exp)
    sig = None
    if why and _order_sensitive_disk(inp, agg):
        # known finding iff the same call with the order-preserving task shuffle is right
        if _same(run({**kw, "shuffle_method": "tasks"}), exp) is None:
            sig = SIG_DISK
    if why:
        ctx.fail(f"groupby('c').a.{agg}() differs from pandas: {why}", sig=sig,
                 observed=got.sort_index().to_dict(), expected=exp.sort_index().to_dict())
    if inp.get("sort") and list(got.index) != sorted(got.index) and (inp.get("split_out") in (None, 1)):
        ctx.fail("sort=True but the groups are not in key order", observed=list(got.index))
    # Lean model on the same partitioning (split_every of the tree; the shuffle path is order preserving for tasks)
    parts = [[[int(k), Sym("none") if v != v else int(v)] for k, v in zip(df.c.iloc[a:b], df.a.iloc[a:b])]
             for a, b in zip(cuts, cuts[1:])]
    se = inp.get("split_every") or 8
    model = ctx.lean(Sym("groupby"), Sym(agg), se, parts)
    mm = {}
    for row in model:
        k = row[0]
        if agg == "mean":
            mm[k] = None if row[1] is None or row[2] == 0 else row[1] / row[2]
        elif agg == "var":
            if row[1] is None or row[1] - ddof <= 0:
                mm[k] = None            # _var_agg: (n - ddof) == 0 -> NaN; n - ddof < 0 -> 0/0
            else:
                c, s, q = row[1], row[2], row[3]
                mm[k] = (q - s * s / c) / (c - ddof)    # Props/C38.lean var_from_moments: the two-pass value
        else:
            mm[k] = row[1]
    gg = {int(k): (None if v != v else float(v)) for k, v in got.items()}
    if sig is None:
        bad = [k for k in mm if (gg.get(k) is None) != (mm[k] is None)
               or (mm[k] is not None and abs(gg[k] - mm[k]) > 1e-9 * max(1.0, abs(mm[k])))]
        if bad or set(gg) != set(mm):
            ctx.disagree(f"groupby {agg}: Lean model vs dask", {k: mm[k] for k in sorted(mm)}, {k: gg[k] for k in sorted(gg)})
    so = inp.get("split_out")
    ctx.branch(f"{agg}-" + ("tree" if (so is None or (so == 1 and so is not True)) else f"shuffle-{inp.get('method') or 'default'}"))
    if len(cuts) > 2:
        ctx.branch("multi-partition")


def case_agg_keys(ctx, inp):
    """one aggregation by a str / categorical (observed) / NaN-holding (dropna) key: dask vs pandas"""
    import dask
    df = _mkdf(inp)
    d = U.frame_from_cuts(df, inp["cuts"])
    agg = inp["agg"]
    kw = _kw(inp)
    gkw = _gbkw(inp)

    def run(kw):
        with dask.config.set(scheduler="sync"):
            gb = d.groupby("c", **gkw)
            return (gb.size(**kw) if agg == "size" else getattr(gb.a, agg)(**kw)).compute()
    try:
        got = run(kw)
    except Exception as e:  # noqa: BLE001
        ctx.fail(f"groupby.{agg} raised: " + U.exc_name(e), observed=U.exc_name(e))
        return
    pgb = df.groupby("c", **gkw)
    exp = pgb.size() if agg == "size" else getattr(pgb.a, agg)()
    why = _same(got, exp)
    if why:
        sig = None
        kk = inp.get("keykind")
        got2 = got
        if _order_sensitive_disk(inp, agg):
            # first/last after the disk shuffle: known finding iff the task shuffle is right
            got2 = run({**kw, "shuffle_method": "tasks"})
            if _same(got2, exp) is None:
                sig = SIG_DISK
        if sig is None and kk == "cat" and inp.get("observed") is False and _is_every_category_per_partition(got2, exp, df):
            sig = SIG_OBS_DUP       # (judged on the task-shuffle result when the disk shuffle also permuted the partials)
        elif (sig is None and kk == "nakey" and 0 in inp["c"] and inp.get("dropna") is None and agg in ("mean", "var", "std")
              and _nan_key_group_kept(got, exp)):
            sig = SIG_DROPNA_NONE
        ctx.fail(f"groupby('c').a.{agg}() differs from pandas: {why}", sig=sig, observed=str(got)[:300], expected=str(exp)[:300])
    ctx.branch(f"keys-{agg}-{inp.get('keykind')}")
    ctx.branch(f"keys-{inp.get('keykind')}-" + ("observed=%s" % inp.get("observed") if inp.get("keykind") == "cat"
                                                 else "dropna=%s" % inp.get("dropna") if inp.get("keykind") == "nakey" else "plain")
               + ("-multi-out" if _multi_out(inp) else ""))


def case_agg_spec(ctx, inp):
    """list / dict / named aggregation specs, several keys, index or series as key: vs pandas"""
    import dask
    import pandas as pd
    df = _mkdf(inp)
    d = U.frame_from_cuts(df, inp["cuts"])
    kw = _kw(inp)
    gkw = _gbkw(inp)
    by = inp["by"]
    spec = inp["spec"]

    def key(frame):
        if by == "index":
            return frame.index
        if by == "series":
            return frame.c2 + 1
        return by

    def run(kw):
        with dask.config.set(scheduler="sync"):
            gb = d.groupby(key(d), **gkw)
            pgb = df.groupby(key(df), **gkw)
            if spec["kind"] == "list":
                return gb.a.agg(spec["fns"], **kw).compute(), pgb.a.agg(spec["fns"]), set(spec["fns"])
            if spec["kind"] == "dict":
                return (gb.agg(spec["map"], **kw).compute(), pgb.agg(spec["map"]),
                        {f for v in spec["map"].values() for f in ([v] if isinstance(v, str) else v)})
            if spec["kind"] == "named":
                named = {k: pd.NamedAgg(column=c, aggfunc=f) for k, (c, f) in spec["named"].items()}
                return gb.agg(**named, **kw).compute(), pgb.agg(**named), {f for _, f in spec["named"].values()}
            return gb[["a", "b"]].agg(spec["fn"], **kw).compute(), pgb[["a", "b"]].agg(spec["fn"]), {spec["fn"]}
    try:
        got, exp, aggs = run(kw)
    except Exception as e:  # noqa: BLE001
        ctx.fail("groupby.agg raised: " + U.exc_name(e), observed=[spec, U.exc_name(e)])
        return
    why = _same(got, exp)
    if why:
        sig = None
        if (aggs & {"first", "last"}) and _order_sensitive_disk(inp, "first"):
            got2, _, _ = run({**kw, "shuffle_method": "tasks"})
            if _same(got2, exp) is None:
                sig = SIG_DISK
        ctx.fail(f"groupby.agg({spec}) differs from pandas: {why}", sig=sig, observed=str(got)[:300], expected=str(exp)[:300])
    ctx.branch(f"spec-{spec['kind']}-by-{by if isinstance(by, str) else 'multi'}")


ORDER_OPS = ("shift", "ffill", "bfill", "apply_first")
SHUFFLE_OPS = ORDER_OPS + ("transform", "transform_fn", "apply")
IDX_OPS = ("idxmin", "idxmax", "idxmin_a", "idxmax_a")


def _center(s):
    return s - s.mean()


def _run_misc(d, df, op, inp, kw, gkw, method=None):
    """(dask result, pandas result) for one operation"""
    gb, pgb = d.groupby("c", **gkw), df.groupby("c", **gkw)
    mk = {"shuffle_method": method} if method else {}
    if op == "nunique":
        return gb.a.nunique(**kw).compute(), pgb.a.nunique()
    if op == "std":
        return gb.a.std(**kw).compute(), pgb.a.std()
    if op in ("cov", "corr"):
        return getattr(gb[["a", "b"]], op)(**kw).compute(), getattr(pgb[["a", "b"]], op)()
    if op == "value_counts":
        return gb.c2.value_counts(**kw).compute(), pgb.c2.value_counts()
    if op in ("cumsum", "cumprod", "cumcount"):
        return getattr(gb.a, op)().compute(), getattr(pgb.a, op)()
    if op == "transform":
        return gb.a.transform("sum", meta=("a", "f8"), **mk).compute(), pgb.a.transform("sum")
    if op == "transform_fn":
        return gb.a.transform(_center, meta=("a", "f8"), **mk).compute(), pgb.a.transform(_center)
    if op == "shift":
        per = inp.get("periods", 1)
        return gb.a.shift(per, meta=("a", "f8"), **mk).compute(), pgb.a.shift(per)
    if op in ("ffill", "bfill"):
        return getattr(gb.a, op)(**mk).compute(), getattr(pgb.a, op)()
    if op == "apply":
        return (gb.a.apply(lambda s: s.sum() + len(s), meta=("a", "f8"), **mk).compute(),
                pgb.a.apply(lambda s: s.sum() + len(s)))
    if op == "apply_first":
        return (gb.a.apply(lambda s: s.iloc[0] if len(s) else 0.0, meta=("a", "f8"), **mk).compute(),
                pgb.a.apply(lambda s: s.iloc[0] if len(s) else 0.0))
    if op == "median":
        return gb.a.median(**{k: v for k, v in kw.items() if k != "split_out"}).compute(), pgb.a.median()
    raise ValueError(op)


def _lean_parts(df, cuts, col="a"):
    return [[[int(k), Sym("none") if v != v else int(v)] for k, v in zip(df.c.iloc[a:b], df[col].iloc[a:b])]
            for a, b in zip(cuts, cuts[1:])]


def _lean_nunique(ctx, inp, df, got, exp):
    """NUnique (drop_duplicates chunk, unique().explode() tree, counting aggregate) in Lean vs dask vs pandas"""
    rows = ctx.lean(Sym("groupby-nunique"), inp.get("split_every") or 8, _lean_parts(df, inp["cuts"]))
    model = {r[0]: r[1] for r in rows}
    spec = {r[0]: r[2] for r in rows}
    ctx.eq("nunique: Lean tree model vs Lean specification", spec, model)
    ctx.eq("nunique: Lean model vs dask", model, {int(k): int(v) for k, v in got.items()})
    ctx.eq("nunique: Lean specification vs pandas", spec, {int(k): int(v) for k, v in exp.items()})


def _lean_cumulative(ctx, inp, df, got, exp, op):
    """GroupByCumulativeFinalizer (cum_raw, cum_last, _cum_agg_filled, _cum_agg_aligned) in Lean vs dask vs pandas"""
    name = {"cumsum": "sum", "cumprod": "prod", "cumcount": "count"}[op]
    dask_cells, global_cells = ctx.lean(Sym("groupby-cum"), Sym(name), _lean_parts(df, inp["cuts"]))

    def cells(x):
        return [None if v != v else float(v) for v in x.sort_index(kind="stable").tolist()]

    def same(model, real):
        return len(model) == len(real) and all(
            (m is None) == (r is None) and (r is None or _close(float(m), r)) for m, r in zip(model, real))
    if not same(dask_cells, cells(got)):
        ctx.disagree(f"{op}: Lean model of the finalizer vs dask", dask_cells, cells(got))
    if not same(global_cells, cells(exp)):
        ctx.disagree(f"{op}: Lean whole-frame scan vs pandas", global_cells, cells(exp))
    if len(inp["cuts"]) > 3:
        ctx.branch(f"lean-{op}-carried-over->=2-partitions")


def _lean_idx(ctx, inp, df, fn, col, got, exp):
    """IdxMin/IdxMax as they are (chunk idxmin, aggregate first) and the arg-min specification in Lean"""
    scale = 2 if col == "b" else 1          # column b holds multiples of 0.5
    parts = [[[int(k), Sym("none") if v != v else int(round(v * scale)), int(lab)]
              for k, v, lab in zip(df.c.iloc[a:b], df[col].iloc[a:b], df.index[a:b])]
             for a, b in zip(inp["cuts"], inp["cuts"][1:])]
    rows = ctx.lean(Sym("groupby-idx"), Sym(fn[3:]), 8, parts)
    current = {r[0]: r[1] for r in rows if r[1] is not None}
    spec = {r[0]: r[2] for r in rows if r[2] is not None}
    ctx.eq(f"{fn}: Lean arg-{fn[3:]} specification vs pandas (labels, first occurrence on ties)", spec,
           {int(k): int(v) for k, v in exp.items() if v == v})
    if got is not None and not _multi_out(inp):
        ctx.eq(f"{fn}: Lean model of (chunk {fn}, aggregate first) vs dask", current,
               {int(k): int(v) for k, v in got.items() if v == v})
    if current != spec:
        ctx.branch(f"lean-{fn}-first-partial-differs-from-arg{fn[3:]}")


def _case_idx(ctx, inp, d, df, op, kw, gkw):
    """idxmin / idxmax of column b (no missing values) or a (missing values): the label of a row holding the extreme"""
    import dask
    col = "a" if op.endswith("_a") else "b"
    fn = op[:6]
    try:
        exp = getattr(df.groupby("c", **gkw)[col], fn)()
    except ValueError:
        ctx.branch("pandas-rejects-" + fn)     # a group without any value: pandas raises, nothing to compare
        return
    cuts = inp["cuts"]
    try:
        with dask.config.set(scheduler="sync"):
            got = getattr(d.groupby("c", **gkw)[col], fn)(**kw).compute()
    except Exception as e:  # noqa: BLE001
        sig = None
        if isinstance(e, ValueError) and "encountered all NA values" in str(e) and col == "a":
            # pandas does not raise on the whole frame (checked above); the chunk raises when a group has only
            # missing values inside one partition
            for a, b in zip(cuts, cuts[1:]):
                part = df.iloc[a:b]
                part = part[part["c"].notna()] if gkw.get("dropna", True) is not False else part
                if len(part) and (part.groupby("c", dropna=False, observed=True)[col].count() == 0).any():
                    sig = SIG_IDX_NA
        ctx.fail(f"groupby {fn}({col}) raised: " + U.exc_name(e), sig=sig, observed=U.exc_name(e))
        if inp.get("keykind", "int") == "int":
            _lean_idx(ctx, inp, df, fn, col, None, exp)
        return
    if inp.get("keykind", "int") == "int":
        _lean_idx(ctx, inp, df, fn, col, got, exp)
    # ties: only the extreme *value* per group is determined
    gv = df[col].loc[got.dropna()].sort_values().reset_index(drop=True)
    ev = df[col].loc[exp.dropna()].sort_values().reset_index(drop=True)
    why = _same(gv, ev) or (None if sorted(map(_keyname, got.index)) == sorted(map(_keyname, exp.index)) else "different groups")
    if why:
        sig = None
        labels = _partition_labels(df, cuts, fn, col, gkw)
        spans = any(len(v) > 1 for v in labels.values())
        picked = {_keyname(k): v for k, v in got.items() if v == v}
        # SeriesGroupBy.idxmin/idxmax do not pass shuffle_method on: with split_out > 1 the default (disk) shuffle decides
        # which partial comes first
        ordered = not _multi_out(inp)
        if spans and set(picked) == set(labels) and all(
                (lab == labels[k][0]) if ordered else (lab in labels[k]) for k, lab in picked.items()):
            sig = SIG_IDX_FIRST
        ctx.fail(f"groupby {fn}({col}) differs from pandas: {why}", sig=sig, observed=got.to_dict(), expected=exp.to_dict())
    ctx.branch(f"misc-{op}-{inp.get('keykind', 'int')}")


def case_misc(ctx, inp):
    """other groupby operations vs pandas"""
    import dask
    df = _mkdf(inp)
    cuts = inp["cuts"]
    d = U.frame_from_cuts(df, cuts)
    op = inp["op"]
    kw = _kw(inp) if op in ("nunique", "std", "cov", "corr", "value_counts", "median") + IDX_OPS else {}
    gkw = _gbkw(inp)
    if op in IDX_OPS:
        return _case_idx(ctx, inp, d, df, op, kw, gkw)
    method = inp.get("method") if op in SHUFFLE_OPS else None
    kk = inp.get("keykind", "int")
    cat_unobserved = kk == "cat" and inp.get("observed") is False
    nakey = kk == "nakey" and 0 in inp["c"]
    try:
        with dask.config.set(scheduler="sync"):
            got, exp = _run_misc(d, df, op, inp, kw, gkw, method)
    except Exception as e:  # noqa: BLE001
        sig = None
        msg = str(e)
        if op in ("cov", "corr"):
            if (isinstance(e, ValueError) and "Expected iterable of tuples of (name, dtype)" in msg
                    and (_multi_out(inp) or len(cuts) == 2)):
                sig = SIG_COV_TUPLE
            elif (isinstance(e, AttributeError) and "levels" in msg and kk == "nakey" and set(inp["c"]) == {0}
                  and inp.get("dropna") is not False):
                sig = SIG_COV_NOGROUP
        ctx.fail(f"groupby {op} raised: " + U.exc_name(e), sig=sig, observed=U.exc_name(e))
        return
    why = _same(got, exp)
    if why:
        sig = None
        with dask.config.set(scheduler="sync"):
            got2 = got
            if op in ORDER_OPS and method in (None, "disk") and len(cuts) > 2:
                # order-dependent per-group function after the disk shuffle: known finding iff the task shuffle is right
                got2, _ = _run_misc(d, df, op, inp, kw, gkw, "tasks")
                if _same(got2, exp) is None:
                    sig = SIG_DISK
        if sig is None and cat_unobserved and op in ("std", "median", "apply", "apply_first") \
                and _is_every_category_per_partition(got2, exp, df):
            sig = SIG_OBS_DUP       # (judged on the task-shuffle result when the disk shuffle also permuted the rows)
        if sig is None and cat_unobserved and op == "nunique":
            seen = set(df["c"].tolist())
            if len(got) < len(exp) and _same(got, exp[[k in seen for k in exp.index]]) is None:
                sig = SIG_NUNIQUE_OBS
        if sig is None and nakey and op == "std" and inp.get("dropna") is None and _nan_key_group_kept(got, exp):
            sig = SIG_DROPNA_NONE
        if sig is None and nakey and op == "transform_fn" and inp.get("dropna") is not False and len(got) < len(exp):
            # pandas' transform(callable) returns nothing for a partition in which every key is NaN (the shuffle sends all
            # NaN keys to one partition); on the whole frame those rows are kept with NaN
            if _same(got, exp[df["c"].notna()]) is None:
                sig = SIG_TRANSFORM_NAN
        if sig is None and op in ("cov", "corr") and any(v is None for v in inp["a"]):
            model = _cov_defect_model(df, {k: v for k, v in gkw.items() if k != "sort"}, op, exp)
            if model is not None and _same(got, model) is None:
                sig = SIG_COV_PAIRWISE
        ctx.fail(f"groupby {op} differs from pandas: {why}", sig=sig, observed=str(got)[:300], expected=str(exp)[:300])
    if kk == "int" and op == "nunique":
        _lean_nunique(ctx, inp, df, got, exp)
    if kk == "int" and op in ("cumsum", "cumprod", "cumcount"):
        _lean_cumulative(ctx, inp, df, got, exp, op)
    ctx.branch(f"misc-{op}-{kk}" + (f"-{method}" if method else ""))
    if any(a == b for a, b in zip(cuts, cuts[1:])):
        ctx.branch(f"misc-{op}-empty-partition")
    if nakey:
        ctx.branch(f"misc-{op}-nan-key-dropna={inp.get('dropna')}")
    if cat_unobserved:
        ctx.branch(f"misc-{op}-observed=False")


def case_tree_shape(ctx, inp):
    """function level: the batches of every level of TreeReduce._layer vs the model's partitionAll tree"""
    import pandas as pd
    from dask.dataframe.dask_expr._reductions import TreeReduce
    n, se = inp["npartitions"], inp["split_every"]
    df = pd.DataFrame({"c": [i % 3 for i in range(n)], "a": list(range(n))})
    d = U.frame_from_cuts(df, list(range(n + 1)))
    x = d.groupby("c").a.sum(**({} if se is None else {"split_every": se}))

    def walk(e):
        yield e
        for o in e.dependencies():
            yield from walk(o)
    trees = [e for e in walk(x.expr.lower_completely()) if isinstance(e, TreeReduce)]
    if len(trees) != 1 or trees[0].frame.npartitions != n:
        ctx.disagree("groupby sum lowers to one TreeReduce over the chunked frame", [1, n],
                     [len(trees), trees[0].frame.npartitions if trees else None])
        return
    levels = {}
    for key, task in trees[0]._layer().items():
        if len(key) == 3:
            batch = task[2][0] if getattr(task[0], "__name__", "") == "apply" else task[1]
            levels.setdefault(key[1], []).append((key[2], len(batch)))
    real = [[m for _, m in sorted(levels[j])] for j in sorted(levels)]
    ctx.eq("TreeReduce._layer batches vs treeLevels", ctx.lean(Sym("tree-levels"), se or 8, n), real)
    ctx.branch(f"tree-depth-{len(real)}")


def case_cum_fn(ctx, inp):
    """function level: _cum_agg_filled / _cum_agg_aligned vs cumFilled / cumAligned"""
    import numpy as np
    import pandas as pd
    from dask.dataframe.groupby import _cum_agg_aligned, _cum_agg_filled, _cumcount_aggregate
    from dask.utils import M
    name = inp["op"]
    func, initial = {"sum": (M.add, 0), "prod": (M.mul, 1), "count": (_cumcount_aggregate, -1)}[name]

    def series(pairs):
        return pd.Series([np.nan if v is None else float(v) for _, v in pairs], index=pd.Index([k for k, _ in pairs], dtype="int64"))

    def sx(pairs):
        return [[k, Sym("none") if v is None else v] for k, v in pairs]
    a, b = inp["a"], inp["b"]
    real = _cum_agg_filled(series(a), series(b), func, initial)
    model = ctx.lean(Sym("cum-filled"), Sym(name), sx(a), sx(b))
    if (sorted(int(k) for k in real.index) != sorted(r[0] for r in model)
            or any(not _close(float(r[1]), real.loc[r[0]]) for r in model)):
        ctx.disagree("_cum_agg_filled vs cumFilled", model, {int(k): float(v) for k, v in real.items()})
    # aligned: the partition `rows` with its cumulative column, the carried values `a`
    rows = inp["rows"]
    part = pd.DataFrame({"a": [np.nan if v is None else float(v) for _, v in rows], "_by_c": [k for k, _ in rows]})
    g = part.groupby("_by_c").a
    part["a"] = {"sum": g.cumsum, "prod": g.cumprod, "count": g.cumcount}[name]()
    real = _cum_agg_aligned(part, series(a), "_by_c", "a", func, initial)
    model = ctx.lean(Sym("cum-aligned"), Sym(name), sx(rows), sx(a))
    cells = [None if v != v else float(v) for v in real.tolist()]
    if len(model) != len(cells) or any((m is None) != (c is None) or (c is not None and not _close(float(m), c))
                                        for m, c in zip(model, cells)):
        ctx.disagree("_cum_agg_aligned vs cumAligned", model, cells)
    ctx.branch(f"cum-fn-{name}")
    if any(v is None for _, v in a):
        ctx.branch("cum-fn-carried-value-is-NA")


JOINT_AGGS = ["sum", "count", "mean", "var", "std", "min", "max"]


def case_joint(ctx, inp):
    """JOINT / HISTORY: several groupby results of the SAME frame in one graph (dask.compute(g.sum(), g.var(), …)), one
    expression combining two reductions (g.a.std() / g.a.mean()), and sequences of computes on a PERSISTED frame. Every
    result must equal pandas whatever else reads the same partitions, and the sources must stay untouched (the pandas
    frame, the persisted partitions)."""
    import dask
    import pandas as pd
    dd = U.dd()
    df = _mkdf(inp)
    before = df.copy(deep=True)
    cuts = inp["cuts"]
    src = inp.get("source", "from_map")
    d = (dd.from_pandas(df, npartitions=max(1, len(cuts) - 1), sort=False) if src == "from_pandas"
         else U.frame_from_cuts(df, cuts))
    mode = inp["mode"]
    frame_level = inp.get("frame_level", False)

    def dgb(x):
        g = x.groupby("c")
        return g[["a", "b"]] if frame_level else g.a

    def pgb():
        g = df.groupby("c")
        return g[["a", "b"]] if frame_level else g.a

    def check(what, got, exp):
        why = U.same_pandas(got, exp, names=False)
        if why:
            ctx.fail(f"{what} differs from pandas: {why}", observed=str(got)[:300], expected=str(exp)[:300])
    try:
        with dask.config.set(scheduler="sync"):
            if mode == "compute":
                aggs = inp["aggs"]
                outs = dask.compute(*[getattr(dgb(d), a)() for a in aggs])
                for a, o in zip(aggs, outs):
                    check(f"groupby.{a}() computed together with {[x for x in aggs if x != a]}", o, getattr(pgb(), a)())
                # and in the opposite task order
                outs = dask.compute(*[getattr(dgb(d), a)() for a in aggs[::-1]])
                for a, o in zip(aggs[::-1], outs):
                    check(f"groupby.{a}() computed together (reversed) with {[x for x in aggs if x != a]}", o, getattr(pgb(), a)())
            elif mode == "arith":
                a1, a2, sym = inp["aggs"][0], inp["aggs"][1], inp["arith"]
                f = {"div": lambda x, y: x / y, "add": lambda x, y: x + y, "sub": lambda x, y: x - y}[sym]
                got = f(getattr(dgb(d), a1)(), getattr(dgb(d), a2)()).compute()
                exp = f(getattr(pgb(), a1)(), getattr(pgb(), a2)())
                check(f"groupby.{a1}() {sym} groupby.{a2}()", got, exp)
            else:
                p = d.persist()
                held = [x.copy(deep=True) for x in U.partitions(p)]
                for a in inp["aggs"]:
                    check(f"groupby.{a}() on a persisted frame after {inp['aggs']}", getattr(dgb(p), a)().compute(), getattr(pgb(), a)())
                    now = U.partitions(p)
                    if len(now) != len(held) or any(not x.equals(y) for x, y in zip(now, held)):
                        ctx.fail(f"the partitions of the persisted frame were modified by groupby.{a}()",
                                 observed=str(pd.concat(now))[:300], expected=str(pd.concat(held))[:300])
                        break
    except Exception as e:  # noqa: BLE001
        ctx.fail("joint groupby evaluation raised: " + U.exc_name(e), observed=[inp["aggs"], mode, U.exc_name(e)])
        return
    if not df.equals(before):
        ctx.fail("the pandas source frame was modified by a groupby computation", observed=str(df)[:300], expected=str(before)[:300])
    ctx.branch(f"joint-{mode}-{src}" + ("-frame" if frame_level else ""))
    if {"var", "std"} & set(inp["aggs"]):
        ctx.branch("joint-with-var|std")


CASES = {"joint": case_joint, "tree_shape": case_tree_shape, "cum_fn": case_cum_fn, "agg_model": case_agg_model, "agg_keys": case_agg_keys, "agg_spec": case_agg_spec, "misc": case_misc}

# extension round: NaN keys / dropna for nunique and the cumulative family, carry tables out of the graph, idxmin/idxmax as a
# lexicographic merge (Model/GroupbyX.lean, Props/C38xKeyed.lean); sections kx_* in _c38_keyed.py
from props import _c38_keyed as _kx   # noqa: E402
CASES.update(_kx.CASES)


def _rand_frame(rng, keykind="int"):
    n = rng.randint(1, 30)
    ngroups = rng.choice([1, 2, 3, 6, 15])
    c = [rng.randint(0, ngroups) for _ in range(n)]
    a = [None if rng.random() < 0.2 else rng.randint(-5, 9) for _ in range(n)]
    return {"c": c, "a": a, "cuts": U.rand_cuts(rng, n, maxparts=rng.choice([1, 3, 6])), "keykind": keykind}


def _rand_cfg(rng, inp):
    inp["split_out"] = rng.choice([None, None, 1, 2, 3, True])
    inp["split_every"] = rng.choice([None, None, 2, 3])
    inp["method"] = rng.choice([None, "tasks", "disk"])
    inp["sort"] = rng.choice([None, True, False])
    return inp


MISC_OPS = ["nunique", "idxmin", "idxmax", "idxmin_a", "idxmax_a", "std", "cov", "corr", "value_counts", "cumsum", "cumprod",
            "cumcount", "transform", "transform_fn", "shift", "ffill", "bfill", "apply", "apply_first", "median"]


def _gen_agg_model(ctx):
    rng = ctx.rng
    for _ in range(ctx.n(200, 2000)):
        inp = _rand_cfg(rng, _rand_frame(rng))
        inp["agg"] = rng.choice(AGGS)
        if inp["agg"] == "var":
            inp["ddof"] = rng.choice([1, 1, 0, 2])
        yield "agg_model", inp


def _gen_agg_keys(ctx):
    rng = ctx.rng
    for _ in range(ctx.n(60, 600)):
        kk = rng.choice(["str", "cat", "cat", "nakey", "nakey"])
        inp = _rand_cfg(rng, _rand_frame(rng, kk))
        inp["agg"] = rng.choice(AGGS + ["std", "prod"])
        if kk == "cat":
            inp["observed"] = rng.choice([True, False])
        if kk == "nakey":
            inp["dropna"] = rng.choice([True, False, None])
        if inp["agg"] in ("first", "last") and inp["sort"]:
            inp["sort"] = None          # first(sort=True) is a documented NotImplementedError
        yield "agg_keys", inp


def _gen_agg_spec(ctx):
    rng = ctx.rng
    for _ in range(ctx.n(60, 600)):
        inp = _rand_cfg(rng, _rand_frame(rng, rng.choice(["int", "int", "str"])))
        fns = ["sum", "count", "min", "max", "mean", "first", "last", "size", "var", "std"]
        t = rng.random()
        if t < 0.3:
            inp["spec"] = {"kind": "list", "fns": rng.sample(fns, rng.randint(1, 3))}
        elif t < 0.6:
            inp["spec"] = {"kind": "dict", "map": {"a": rng.sample(fns[:7], rng.randint(1, 2)), "b": rng.choice(["sum", "mean", "max"])}}
        elif t < 0.85:
            inp["spec"] = {"kind": "named", "named": {"x": ["a", rng.choice(fns[:7])], "y": ["b", rng.choice(["sum", "min", "max"])]}}
        else:
            inp["spec"] = {"kind": "single", "fn": rng.choice(["sum", "count", "min", "max", "mean"])}
        inp["by"] = rng.choice(["c", "c", ["c", "c2"], "index", "series"])
        if inp["by"] == "index":
            inp["index"] = [k % 4 for k in inp["c"]]
        yield "agg_spec", inp


def _gen_cumulative(ctx):
    # cumulative operations need several partitions in which a group comes and goes
    rng = ctx.rng
    for _ in range(ctx.n(40, 400)):
        inp = _rand_frame(rng, "int")
        n = len(inp["c"])
        inp["c"] = [rng.randint(0, 3) for _ in range(n)]
        inp["cuts"] = U.rand_cuts(rng, n, maxparts=6, p_empty=0.3)
        inp["op"] = rng.choice(["cumsum", "cumprod", "cumcount"])
        if rng.random() < 0.4:
            inp["keykind"] = "nakey"           # key 0 becomes NaN: a NaN-key group spanning several partitions
            inp["dropna"] = rng.choice([False, False, True, None])
        yield "misc", inp


def _gen_misc(ctx):
    rng = ctx.rng
    for _ in range(ctx.n(90, 900)):
        kk = rng.choice(["int", "int", "str", "cat", "nakey"])
        inp = _rand_frame(rng, kk)
        inp["op"] = rng.choice(MISC_OPS)
        _rand_cfg(rng, inp)
        if kk == "cat":
            inp["observed"] = rng.choice([True, False])
        if kk == "nakey":
            inp["dropna"] = rng.choice([True, False, None])
        if rng.random() < 0.3:
            # few groups, several partitions, empty partitions: groups span partitions, partitions without a group
            n = len(inp["c"])
            inp["c"] = [rng.randint(0, 2) for _ in range(n)]
            inp["cuts"] = U.rand_cuts(rng, n, maxparts=5, p_empty=0.5)
        inp["periods"] = rng.choice([1, 2, -1])
        yield "misc", inp


def _gen_modelled_ops(ctx):
    """operations with a Lean model of their own on int keys: few groups that span several (also empty) partitions"""
    rng = ctx.rng
    for _ in range(ctx.n(60, 600)):
        inp = _rand_frame(rng, "int")
        n = len(inp["c"])
        inp["c"] = [rng.randint(0, rng.choice([1, 2, 4])) for _ in range(n)]
        inp["cuts"] = U.rand_cuts(rng, n, maxparts=rng.choice([2, 4, 7]), p_empty=0.3)
        inp["op"] = rng.choice(["nunique", "nunique", "idxmin", "idxmax", "idxmin_a", "idxmax_a"])
        _rand_cfg(rng, inp)
        if rng.random() < 0.6:
            inp["split_out"] = rng.choice([None, 1])       # tree path: dask must equal the model of the code as it is
        yield "misc", inp


def _gen_function_level(ctx):
    rng = ctx.rng
    if ctx.thorough():
        # exhaustive small space: every (npartitions, split_every) up to 40 x 9
        for n in range(1, 41):
            for se in [None] + list(range(2, 10)):
                yield "tree_shape", {"npartitions": n, "split_every": se}
    for _ in range(ctx.n(25, 0)):
        yield "tree_shape", {"npartitions": rng.choice([1, 2, 3, 5, 8, 9, 17, 26, 40]), "split_every": rng.choice([None, 2, 3, 4, 8])}
    for _ in range(ctx.n(80, 800)):
        def pairs(p_na=0.25):
            keys = [k for k in range(5) if rng.random() < 0.6]
            rng.shuffle(keys)
            return [[k, None if rng.random() < p_na else rng.randint(-4, 6)] for k in keys]
        rows = [[rng.randint(0, 4), None if rng.random() < 0.25 else rng.randint(-4, 6)] for _ in range(rng.randint(0, 8))]
        yield "cum_fn", {"op": rng.choice(["sum", "prod", "count"]), "a": pairs(), "b": pairs(), "rows": rows}


def _gen_exhaustive(ctx):
    """thorough tier: every frame of 3 rows over 2 groups and cells {NA, 1, 2} x every partitioning into non-empty
    consecutive partitions (plus one with an empty partition), for the operations that have a Lean model of their own"""
    if not ctx.thorough():
        return
    import itertools
    ops = ["cumsum", "cumprod", "cumcount", "nunique", "idxmin_a", "idxmax_a"]
    i = 0
    for c in itertools.product([0, 1], repeat=3):
        for a in itertools.product([None, 1, 2], repeat=3):
            for cuts in ([0, 3], [0, 1, 3], [0, 2, 3], [0, 1, 2, 3], [0, 1, 1, 3]):
                i += 1
                yield "misc", {"c": list(c), "a": list(a), "cuts": cuts, "keykind": "int", "op": ops[i % len(ops)],
                               "split_out": [None, 1, 2][i % 3], "split_every": [None, 2][i % 2], "method": "tasks",
                               "sort": None, "periods": 1}


def _interleave(gens):
    """weighted round robin over the streams, so that a deadline cuts all of them proportionally"""
    gens = [(iter(g), w) for g, w in gens]
    while gens:
        for g, w in list(gens):
            for _ in range(w):
                try:
                    yield next(g)
                except StopIteration:
                    gens = [x for x in gens if x[0] is not g]
                    break


def _gen_joint(ctx):
    rng = ctx.rng
    for _ in range(ctx.n(45, 700)):
        inp = _rand_frame(rng, "int")
        inp["mode"] = rng.choice(["compute", "compute", "arith", "persist"])
        inp["source"] = rng.choice(["from_map", "from_pandas"])
        inp["frame_level"] = rng.random() < 0.4
        k = 2 if inp["mode"] == "arith" else rng.randint(2, 4)
        inp["aggs"] = rng.sample(JOINT_AGGS, k)
        if rng.random() < 0.7 and not ({"var", "std"} & set(inp["aggs"])):
            inp["aggs"][rng.randrange(k)] = rng.choice(["var", "std"])     # the reductions with a multi-step chunk
        inp["arith"] = rng.choice(["div", "add", "sub"])
        yield "joint", inp


def generate(ctx):
    yield from _kx.directed(ctx)          # no randomness: the older streams keep their inputs
    yield from _interleave([(_gen_joint(ctx), 1), (_gen_function_level(ctx), 2), (_gen_exhaustive(ctx), 2), (_gen_modelled_ops(ctx), 1), (_gen_agg_model(ctx), 3), (_gen_agg_keys(ctx), 1), (_gen_agg_spec(ctx), 1),
                            (_gen_cumulative(ctx), 1), (_gen_misc(ctx), 2)])
    yield from _kx.generate(ctx)
