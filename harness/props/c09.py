"""C09 — low-level graph optimisations preserve requested values.

Model:    lean/DaskModel/Model/LegacyOpt.lean (cull, subs, inline-by-substitution, alias renaming) over Model/TaskTerm.lean
Theorems: lean/DaskModel/Props/C09.lean
Tie:      every pass (cull, inline, inline_functions, fuse_linear, fuse over a parameter grid, task-spec cull,
          fuse_linear_task_spec, Task.fuse, resolve_aliases, substitute) is run on generated graphs; the statement's
          three clauses are evaluated on the REAL output with dask.core.get (requested keys present, same values,
          returned dependency map = dependencies of the returned graph); function-level diffs of `cull`, `subs`,
          `get_dependencies` against the Lean model; the real `fuse` outputs go through the proved checker.
"""
from __future__ import annotations

import json
import math

from sexp import Sym
from props._graph_terms import FUNCS, build, gen_legacy_graph, has_ref_or_call, jsexp, node_sexp, to_sexp
from props._c09x_inline import case_inl, case_renlit, gen_inl, gen_renlit

PROP = "C09"
READY = True
DRIVER = "dm_graph"
LEAN_MODULES = ["DaskModel.Props.C09", "DaskModel.Props.C09xInline"]
TABLES = ["FusedKeyRenamer"]
LEVEL_TEXT = ("Lean 4 theorems over transliterations of the legacy passes (get_dependencies/keys_in_tasks, dask.core.subs, "
              "dask.optimization.cull) and of the task-spec passes of dask/_task_spec.py (cull, GraphNode.substitute, resolve_aliases, "
              "GraphNode.fuse/_execute_subgraph, fuse_linear_task_spec), each with its evaluator. PROVED FOR ALL INPUTS: legacy cull "
              "(cull_keeps_requested, cull_subgraph, cull_closed, cull_deps_match, cull_preserves_eval, and cull_preserves_get: the "
              "same values under dask.core.get, i.e. conversion + execution, since the conversion agrees with the legacy semantics "
              "-- C08); subs_preserves_eval, inline_step_preserves_solutions, drop_unreferenced_preserves_values, "
              "dag_values_unique; task-spec cull (spec_cull_preserves_eval); substitute (substitute_preserves_eval / "
              "substitute_eval through aliases, TaskRefs, nested tasks, kwargs; substitute_inline_preserves_values, "
              "substitute_rename_preserves_values at graph level); resolve_aliases (resolve_aliases_preserves_eval: the whole "
              "worklist loop incl. the invariant that the never-updated `dependents` mapping keeps giving the right number of "
              "dependents); spec_cull_total (the cull loop always terminates within the model's fuel); fuse_linear_task_spec (fuse_linear_task_spec_preserves_eval: for every DAG with duplicate-free keys, "
              "every requested-key list and EVERY renamer the transliterated walk-down/walk-up loop returns a graph that keeps the "
              "requested keys and in which every common key computes the same value; GraphNode.fuse on a chain: taskFuse_chain); "
              "the names of fused tasks (fused_names_differ_on_top_key, renamer_collision_iff with the constants re-extracted from "
              "the source, renamer_length_le). PROVED CHECKERS applied to every real output of the run (translation validation): "
              "fuseOK_sound (inline, inline_functions, fuse_linear, fuse without renaming), fuseOKR_sound (rename_keys=True/custom: "
              "alias insertion, renamed references, deleted old keys), fuse_spec_preserves_eval (real fuse_linear_task_spec and "
              "GraphNode.fuse outputs). EXTENSION ROUND, PROVED FOR ALL INPUTS (Props/C09xInline.lean, over a transliteration of "
              "dask.optimization.inline / inline_functions: inline_constants, replace order = the C07 toposort model on the "
              "dependency sets, keysubs loop, loop over the remaining entries, inlinable / functions_of with the fast-function "
              "test as a predicate, the del loop; set iteration order as a parameter): inline_preserves_eval (every DAG, every "
              "key list, both inline_constants: the function returns, the key set is unchanged, no entry refers to an inlined "
              "key any more, every key computes what it computed before), inline_functions_preserves_eval (every DAG, output "
              "list and fast-function predicate: returns, every output key kept, every kept key computes the same values), "
              "inline_replace_order_ok (toposort never raises on a DAG and yields dependencies first), "
              "inlineWith_preserves_eval (the loops on any such order). PARTIAL: that the legacy fuse/fuse_linear always "
              "produce outputs the checkers accept is validated per run, not proved; the loop fuel of the resolve_aliases model is validated (the "
              "model never answers 'fuel'); fuse_linear_task_spec is proved about its transliteration, which is "
              "diffed against the real function on every case (incl. cyclic-free exhaustive DAG shapes up to 4 nodes).")
LEVEL_NOTE = ("Trusted: Lean kernel + standard axioms; hand transliterations tied by function-level diffs (legacy cull keys + "
              "dependency map, subs, get_dependencies; task-spec cull, substitute, resolve_aliases, fuse_linear_task_spec, "
              "GraphNode.fuse incl. its ValueError, default_fused_keys_renamer with key_split taken from the real code and the md5 "
              "digest recomputed by the harness); every real optimiser output is evaluated with dask.core.get; the model's evaluator "
              "of fused graphs (evalKeyF) is diffed against the real execution of _execute_subgraph tasks; every legacy pass is called "
              "with list and set key containers, with and without dependencies=, inline_functions with inline_constants False/True, "
              "under an argument-purity oracle (graph, keys, dependencies unchanged by the call); legacy inline / inline_functions are "
              "diffed structurally (returned graph as a dict) against their transliterations under two set-iteration orders and on "
              "the replace order observed on the real toposort call, whose TopoOK hypotheses are checked. ONE KNOWN FINDING (two signatures, "
              "extension round): legacy fuse_linear / fuse with rename_keys=True store a fused chain under a new name that may occur "
              "as a literal in some task; in a legacy graph that literal then is a reference to the fused task (cycle, or silently "
              "changed value; refutation witnesses fuse_linear_renamed_literal_refuted / _silent_refuted, section renlit, "
              "corpus/C09). Fixed in /repo: fuse(ave_width=inf) OverflowError; fuse_linear_task_spec with unrenamable keys stored the "
              "fused task under None; key_split(()) IndexError; fuse_linear_task_spec overwrote a task when the renamed key was "
              "taken (11f7d6c); substitute/fuse ignored a falsy new key (7e731f4); Alias.substitute ignored key= for an identity "
              "entry (3dbafa6); dict values were dependencies but not substituted/evaluated (ca6daad, 7bc9664); non-task tuples "
              "were evaluated elementwise by the conversion but invisible to cull/subs/fuse (83e63e1); inline() mutated a set passed "
              "as keys (98a9c60).")
TECHNIQUE = ("Lean 4 proof (substitution lemmas, reachability closure, least-fixpoint evaluation with a transfer lemma, counting "
             "invariant) + proved checkers on real optimiser outputs + differential correspondence")
ASSUMPTIONS = ["user functions are pure and total and left uninterpreted",
               "values are observed with dask.core.get (conversion + execute_graph), as the statement says",
               "graphs are dicts: keys are duplicate-free (hypothesis of resolve_aliases_preserves_eval); `dependents` handed to "
               "resolve_aliases is reverse_dict of the graph's dependencies (checked per case: countRefs = len(dependents[k]))",
               "fused-key names stay apart only as far as md5 of the full name is collision-free (renamer_collision_iff is exact; "
               "fuse_linear_task_spec and fuse additionally fall back to the top key when a name is taken)"]
CASE_TIMEOUT_S = 45


def _vals(dsk, keys):
    """value of each requested key with dask.core.get, canonical; ('raised', type) when it raises"""
    from dask.core import get
    out = []
    for k in keys:
        try:
            out.append(to_sexp(get(dsk, k)))
        except Exception as e:
            out.append(["raised", type(e).__name__])
    return out


def _jkey(j):
    return json.dumps(j, sort_keys=True)


def _jkey_graph(g):
    out = []
    for k, v in g.items():
        try:
            out.append((_jkey(to_sexp(k)), _jkey(to_sexp(v))))
        except TypeError:
            out.append((repr(k), repr(v)))
    return sorted(out)


def _classes(items):
    """known-divergence constructs of the graph: none is left (dict values are converted and substituted since ca6daad,
    non-task tuples are literals for the conversion too since 83e63e1)"""
    return set()




def _has_dict(o):
    if isinstance(o, dict):
        return True
    if isinstance(o, (list, tuple)):
        return any(_has_dict(x) for x in o)
    return False


def _check_graph(ctx, op, items, dsk, keys, out, deps, want, classes, deps_exact_keys=True, protected=True):
    """the three clauses of the statement on a real output graph. protected=False: the pass was called without
    `keys`, so keys may legitimately disappear; the surviving ones must keep their values.
    Known findings: a value change is attributed to the non-task-tuple divergence only if each changed key's original
    value really depends on a reference hidden in a non-task tuple; a dependency-map mismatch is attributed to the
    dict divergence only if the mismatching entry's task holds a dict."""
    from dask.core import get_dependencies
    if not protected:
        idx = [i for i, k in enumerate(keys) if k in out]
        keys = [keys[i] for i in idx]
        want = [want[i] for i in idx]
    missing = [k for k in keys if k not in out]
    if missing:
        ctx.fail(f"{op}: requested key missing from the returned graph", observed=repr(missing))
        return
    got = _vals(out, keys)
    if got != want:
        ctx.fail(f"{op}: value of a requested key changed", observed=got, expected=want)
    if deps is not None:
        bad = None
        for k in out:
            real = set(get_dependencies(out, k))
            if k not in deps:
                bad = ("no entry", k)
                break
            if set(deps[k]) != real:
                bad = (k, sorted(map(repr, deps[k])), sorted(map(repr, real)))
                break
        sig = None
        if bad is None and deps_exact_keys and set(deps) != set(out):
            bad = ("extra entries", sorted(map(repr, set(deps) - set(out))))
        if bad is not None:
            ctx.fail(f"{op}: returned dependency map does not match the returned graph", sig=sig, observed=repr(bad))


def _checker(ctx, op, items, dsk, out, S, req, classes):
    """feed a real output of a substitution-based pass to the proved checker `fuseOK`"""
    if classes:
        # references hidden in dict values / non-task tuples: the passes are known to be wrong there (findings)
        ctx.branch("checker-skipped-known-divergence-class")
        return
    try:
        gs = [[to_sexp(k), to_sexp(v)] for k, v in dsk.items()]
        hs = [[to_sexp(k), to_sexp(v)] for k, v in out.items()]
        ok = ctx.lean(Sym("fuse_ok"), gs, hs, [to_sexp(k) for k in S], [to_sexp(k) for k in req])
    except TypeError:
        return
    ctx.eq(f"{op}: proved checker fuseOK accepts the real output", ok, True)
    ctx.branch("fuseOK-" + op)
    if S:
        ctx.branch("fuseOK-nontrivial")


def _checker_renamed(ctx, op, dsk, out, rec, req, classes):
    """feed a real output with renamed keys to the proved checker `fuseOKR`; `rec` = the (root key, new name) pairs the
    recording renamer saw"""
    if classes:
        ctx.branch("checker-skipped-known-divergence-class")
        return
    R, seen_new = [], set()
    for old, new_ in rec:
        try:
            if new_ is None or new_ in seen_new or new_ in dsk or new_ not in out:
                continue
            if old in out and out[old] != new_:
                continue
        except TypeError:
            continue
        seen_new.add(new_)
        R.append((old, new_))
    olds = {o for o, _ in R}
    try:
        gs = [[to_sexp(k), to_sexp(v)] for k, v in dsk.items()]
        hs = [[to_sexp(k), to_sexp(v)] for k, v in out.items()]
        S = [to_sexp(k) for k in dsk if k not in out and k not in olds]
        ok = ctx.lean(Sym("fuse_okr"), gs, hs, S, [[to_sexp(o), to_sexp(n)] for o, n in R], [to_sexp(k) for k in req])
    except TypeError:
        return
    ctx.eq(f"{op}: proved checker fuseOKR accepts the real renamed output", ok, True)
    ctx.branch("fuseOKR-" + op)
    if R:
        ctx.branch("fuseOKR-renamed")
        if any(o not in out for o, _ in R):
            ctx.branch("fuseOKR-old-key-deleted")


def _recording(renamer, root_of):
    rec = []

    def r(chain):
        chain = list(chain)
        new_ = renamer(chain)
        rec.append((root_of(chain), new_))
        return new_
    return r, rec


def _renamer(keys):
    return "R-" + "-".join(str(k) if not isinstance(k, tuple) else "_".join(map(str, k)) for k in keys)


def _snap_arg(c):
    """a printable snapshot of a keys / dependencies argument (container type included)"""
    if c is None:
        return None
    if isinstance(c, dict):
        return (type(c).__name__, sorted((repr(k), type(v).__name__, sorted(map(repr, v))) for k, v in c.items()))
    if isinstance(c, (list, set, tuple)):
        return (type(c).__name__, sorted(map(repr, c)) if isinstance(c, set) else list(map(repr, c)))
    return repr(c)


class _Pure:
    """argument purity: an optimisation pass returns new graphs; it must not modify the graph, the key container or the
    dependency map it was given"""

    def __init__(self, ctx, dsk):
        self.ctx, self.dsk, self.snap = ctx, dsk, _jkey_graph(dsk)

    def run(self, op, fn, *args):
        before = [_snap_arg(a) for a in args]
        out = fn()
        if _jkey_graph(self.dsk) != self.snap:
            self.ctx.fail(f"{op}: the input graph was modified by the call")
        for a, b in zip(args, before):
            if _snap_arg(a) != b:
                self.ctx.fail(f"{op}: an argument (keys / dependencies) was modified by the call",
                              observed=[_snap_arg(a)], expected=[b])
        return out


def case_opt(ctx, inp):
    """all legacy passes on one graph / one requested key set"""
    from dask.core import get_dependencies
    from dask.optimization import cull, fuse, fuse_linear, inline, inline_functions
    items = inp["graph"]
    dsk = {build(k): build(v) for k, v in items}
    if len(dsk) != len(items):
        return
    allkeys = [build(k) for k, _ in items]
    keys = [allkeys[i] for i in inp["keys"]]
    classes = _classes(items)
    want = _vals(dsk, keys)
    if any(isinstance(w, list) and w and w[0] == "raised" for w in want):
        ctx.note("input-graph-raises")
        return
    for c in classes:
        ctx.branch("class-" + c)
    rng_choices = inp.get("sel", [])
    pure = _Pure(ctx, dsk)
    ldeps = {k: get_dependencies(dsk, k, as_list=True) for k in dsk}       # dependencies= as cull returns them
    sdeps = {k: get_dependencies(dsk, k) for k in dsk}                     # ... and as sets
    kset = set(keys)
    # cull (+ function-level diff with the model)
    try:
        c, cdeps = pure.run("cull", lambda: cull(dsk, keys), keys)
        c2, cdeps2 = pure.run("cull", lambda: cull(dsk, kset), kset)
        ctx.eq("cull with a list and with a set of keys", _jkey_graph(c2), _jkey_graph(c))
    except Exception as e:
        ctx.fail(f"cull raised {type(e).__name__}: {e}")
        c = None
    if c is not None:
        _check_graph(ctx, "cull", items, dsk, keys, c, cdeps, want, classes)
        gs = [[jsexp(k), jsexp(v)] for k, v in items]
        m = ctx.lean(Sym("cull"), gs, [to_sexp(k) for k in keys])
        ctx.eq("cull keys", sorted(json.dumps(k, default=str) for k, _ in m[0]),
               sorted(json.dumps(to_sexp(k), default=str) for k in c))
        ctx.eq("cull dependencies", sorted((json.dumps(k, default=str), sorted(set(json.dumps(d, default=str) for d in ds))) for k, ds in m[1]),
               sorted((json.dumps(to_sexp(k), default=str), sorted(set(json.dumps(to_sexp(d), default=str) for d in ds))) for k, ds in cdeps.items()))
        if len(c) < len(dsk):
            ctx.branch("cull-removes")
    # inline: chosen non-requested keys, then everything non-requested with constants
    sel = [allkeys[i] for i in rng_choices if allkeys[i] not in keys]
    for name, ks, const, dp in (("inline", sel, False, None), ("inline", [k for k in allkeys if k not in keys], True, None),
                                ("inline", sel, True, ldeps), ("inline", set(sel), True, sdeps), ("inline", set(sel), False, None)):
        try:
            g = pure.run("inline", lambda: inline(dsk, ks, inline_constants=const, dependencies=dp), ks, dp)
        except Exception as e:
            ctx.fail(f"inline raised {type(e).__name__}: {e}")
            continue
        _check_graph(ctx, "inline", items, dsk, keys, g, None, want, classes)
        from dask.core import ishashable, istask
        S = set(ks)
        if const:
            S |= {k for k, v in dsk.items() if (ishashable(v) and v in dsk) or (not get_dependencies(dsk, k) and not istask(v))}
        _checker(ctx, "inline", items, dsk, g, [k for k in dsk if k in S], keys, classes)
        if g != dsk:
            ctx.branch("inline-changes")
    # inline_functions
    from dask.core import ishashable, istask
    consts = {k for k, v in dsk.items() if (ishashable(v) and v in dsk) or (not get_dependencies(dsk, k) and not istask(v))}
    req_kinds = {("constant-or-alias" if k in consts else "task") for k in keys}
    for fi, fast in enumerate(([FUNCS[0]], [FUNCS[0], FUNCS[1], FUNCS[2]], FUNCS)):
        for const in (False, True):
            outp = kset if (fi + const) % 2 else keys          # `output` as a list and as a set
            dp = sdeps if (fi + const) % 3 == 0 else None
            try:
                g = pure.run("inline_functions", lambda: inline_functions(dsk, outp, fast, inline_constants=const, dependencies=dp),
                             outp, fast, dp)
            except Exception as e:
                ctx.fail(f"inline_functions raised {type(e).__name__}: {e}")
                continue
            _check_graph(ctx, "inline_functions", items, dsk, keys, g, None, want, classes)
            dropped = [k for k in dsk if k not in g]
            # with inline_constants=True the constants / aliases are substituted as well (they stay in the graph)
            S = dropped + ([k for k in dsk if k in consts and k not in dropped] if const and dropped else [])
            _checker(ctx, "inline_functions", items, dsk, g, S, keys, classes)
            if len(g) < len(dsk):
                ctx.branch("inline_functions-removes" + ("-inline_constants" if const else ""))
                if const and "constant-or-alias" in req_kinds:
                    ctx.branch("inline_functions-inline_constants-with-requested-constant")
    # fuse_linear
    for rk in (True, False, _renamer):
        for kk in (keys, None):
            try:
                g, d = pure.run("fuse_linear", lambda: fuse_linear(dsk, keys=kk, rename_keys=rk), kk)
                if rk is False and kk is not None:
                    # the same with a set of keys and the dependency map of cull (lists)
                    g3, d3 = pure.run("fuse_linear", lambda: fuse_linear(dsk, keys=kset, dependencies=ldeps, rename_keys=rk), kset, ldeps)
                    ctx.eq("fuse_linear with keys as a set and dependencies given", _jkey_graph(g3), _jkey_graph(g))
            except Exception as e:
                ctx.fail(f"fuse_linear raised {type(e).__name__}: {e}")
                continue
            _check_graph(ctx, "fuse_linear", items, dsk, keys, g, d, want, classes, protected=kk is not None)
            if rk is False:
                _checker(ctx, "fuse_linear", items, dsk, g, [k for k in dsk if k not in g], keys if kk is not None else [], classes)
            else:
                # the same call with a renamer that records its arguments (the default one when rename_keys=True)
                from dask.optimization import default_fused_linear_keys_renamer
                rr, rec = _recording(default_fused_linear_keys_renamer if rk is True else rk, lambda c: c[0])
                try:
                    g2, _ = fuse_linear(dsk, keys=kk, rename_keys=rr)
                except Exception as e:
                    ctx.fail(f"fuse_linear raised {type(e).__name__}: {e}")
                    continue
                ctx.eq("fuse_linear: a renamer that wraps the default one gives the same graph", _jkey_graph(g2), _jkey_graph(g))
                _checker_renamed(ctx, "fuse_linear", dsk, g2, rec, keys if kk is not None else [], classes)
            if len(g) != len(dsk):
                ctx.branch("fuse_linear-fuses")
    # fuse: parameter grid
    grid = inp.get("grid") or [[1, None, "inf", None], [2, None, "inf", None], [3, 2, 2, 1], ["inf", None, "inf", None],
                               ["inf", 1, 1, 0], [2, 3, 5, 3]]
    for gi, (aw, mw, mh, mdne) in enumerate(grid):
        aw = math.inf if aw == "inf" else aw
        mh = math.inf if mh == "inf" else mh
        for rk in (True, False, _renamer):
            for kk in ((keys, None) if gi % 3 == 0 else (keys,)):
                try:
                    dp = ldeps if gi % 2 else None
                    kk2 = kset if (kk is not None and gi % 2) else kk
                    g, d = pure.run("fuse", lambda: fuse(dsk, keys=kk2, dependencies=dp, ave_width=aw, max_width=mw, max_height=mh,
                                                         max_depth_new_edges=mdne, rename_keys=rk), kk2, dp)
                except Exception as e:
                    ctx.fail(f"fuse raised {type(e).__name__}: {e}",
                             observed=[aw if aw != math.inf else "inf", mw, mh if mh != math.inf else "inf", mdne, str(rk)])
                    continue
                _check_graph(ctx, "fuse", items, dsk, keys, g, d, want, classes, protected=kk is not None)
                if rk is False:
                    _checker(ctx, "fuse", items, dsk, g, [k for k in dsk if k not in g], keys if kk is not None else [], classes)
                else:
                    from dask.optimization import default_fused_keys_renamer
                    rr, rec = _recording(default_fused_keys_renamer if rk is True else rk, lambda c: c[-1])
                    try:
                        g2, _ = fuse(dsk, keys=kk, ave_width=aw, max_width=mw, max_height=mh, max_depth_new_edges=mdne, rename_keys=rr)
                    except Exception as e:
                        ctx.fail(f"fuse raised {type(e).__name__}: {e}")
                        continue
                    ctx.eq("fuse: a renamer that wraps the default one gives the same graph", _jkey_graph(g2), _jkey_graph(g))
                    _checker_renamed(ctx, "fuse", dsk, g2, rec, keys if kk is not None else [], classes)
                if len(g) != len(dsk):
                    ctx.branch("fuse-fuses")
                if len(g) > len(dsk):
                    ctx.branch("fuse-renames")


def case_fn(ctx, inp):
    """function-level: subs / get_dependencies against the model"""
    from dask.core import get_dependencies, subs
    items = inp["graph"]
    dsk = {build(k): build(v) for k, v in items}
    if len(dsk) != len(items):
        return
    keys_s = [jsexp(k) for k, _ in items]
    for kj, vj in items:
        gd = get_dependencies(dsk, build(kj), as_list=True)
        ml = ctx.lean(Sym("legacy_refs"), keys_s, jsexp(vj))
        ctx.eq("get_dependencies(as_list) multiset", sorted(json.dumps(x, default=str) for x in ml),
               sorted(json.dumps(to_sexp(x), default=str) for x in gd))
    for (tj, kj, vj) in inp["subs"]:
        r = subs(build(tj), build(kj), build(vj))
        m = ctx.lean(Sym("subs"), jsexp(tj), jsexp(kj), jsexp(vj))
        ctx.eq("subs", m, to_sexp(r))
        if to_sexp(r) != jsexp(tj):
            ctx.branch("subs-replaces")


def _spec_vals(dsk, keys):
    return _vals(dsk, keys)


def case_spec(ctx, inp):
    """task-spec passes: cull, fuse_linear_task_spec, resolve_aliases, Task.fuse, substitute"""
    from dask._task_spec import (Alias, DependenciesMapping, GraphNode, Task, convert_legacy_graph, cull,
                                 fuse_linear_task_spec, resolve_aliases)
    from dask.core import reverse_dict
    items = inp["graph"]
    legacy = {build(k): build(v) for k, v in items}
    if len(legacy) != len(items):
        return
    dsk = convert_legacy_graph(legacy)
    allkeys = [build(k) for k, _ in items]
    keys = [k for k in (allkeys[i] for i in inp["keys"]) if k in dsk]
    if not keys:
        return
    want = _vals(dsk, keys)
    if any(isinstance(w, list) and w and w[0] == "raised" for w in want):
        ctx.note("input-graph-raises")
        return

    def check(op, out):
        missing = [k for k in keys if k not in out]
        if missing:
            ctx.fail(f"{op}: requested key missing from the returned graph", observed=repr(missing))
            return
        got = _vals(out, keys)
        if got != want:
            ctx.fail(f"{op}: value of a requested key changed", observed=got, expected=want)
        if None in out:
            ctx.fail(f"{op}: the returned graph has the key None")
    # cull
    for kk in (list(keys), set(keys), tuple(keys)):
        try:
            out = cull(dsk, kk)
        except Exception as e:
            ctx.fail(f"task-spec cull raised {type(e).__name__}: {e}")
            continue
        check("task-spec cull", out)
        if len(out) < len(dsk):
            ctx.branch("spec-cull-removes")
    # linear fusion
    try:
        out = fuse_linear_task_spec(dsk, keys)
        check("fuse_linear_task_spec", out)
        if any(isinstance(n, Task) and n.has_subgraph() for n in out.values()):
            ctx.branch("spec-fuse-fuses")
    except Exception as e:
        ctx.fail(f"fuse_linear_task_spec raised {type(e).__name__}: {e}")
    # alias resolution
    try:
        out = resolve_aliases(dsk, set(keys), reverse_dict(DependenciesMapping(dsk)))
        check("resolve_aliases", out)
        if len(out) < len(dsk):
            ctx.branch("resolve_aliases-collapses")
    except Exception as e:
        ctx.fail(f"resolve_aliases raised {type(e).__name__}: {e}")
    # substitute: rename one dependency everywhere (key -> fresh key) and add an alias fresh -> key
    deps = DependenciesMapping(dsk)
    used = [d for k in dsk for d in deps[k] if d in dsk]
    if used:
        old = used[inp.get("pick", 0) % len(used)]
        fresh = ("fresh", 0)
        out = {k: (n.substitute({old: fresh}, key=k) if k != old else n) for k, n in dsk.items()}
        out[fresh] = Alias(fresh, old)
        check("substitute(rename)", out)
        # substitute a dependency by its node (inline)
        out2 = {k: (n.substitute({old: dsk[old]}, key=k) if k != old else n) for k, n in dsk.items()}
        check("substitute(inline)", out2)
        ctx.branch("substitute")
    # Task.fuse of a dependency chain: fuse `a` with its single dependency when that one has no other dependent
    dependents = reverse_dict(deps)
    for k, n in dsk.items():
        ds = [d for d in deps[k] if d in dsk]
        if len(ds) == 1 and len(dependents[ds[0]]) == 1 and ds[0] not in keys and isinstance(n, Task) and not isinstance(dsk[ds[0]], Alias):
            try:
                fused = Task.fuse(dsk[ds[0]], n)
            except Exception as e:
                ctx.fail(f"Task.fuse raised {type(e).__name__}: {e}")
                break
            out = {kk: nn for kk, nn in dsk.items() if kk not in (k, ds[0])}
            out[k] = fused
            check("Task.fuse", out)
            if set(fused.dependencies) != (set(n.dependencies) | set(dsk[ds[0]].dependencies)) - {ds[0]}:
                ctx.fail("Task.fuse: dependencies of the fused task are not the external dependencies of its parts",
                         observed=sorted(map(repr, fused.dependencies)))
            ctx.branch("Task.fuse")
            break



# ---------------------------------------------------------------------------------------------
# task-spec passes against the Lean model (Model/SpecOpt.lean) and the proved checkers
# ---------------------------------------------------------------------------------------------

def _canon(x):
    return json.dumps(x, sort_keys=True, default=str)


def fnode_sexp(n):
    """a node of a (possibly fused) task-spec graph -> s-expression (model `FNode`)"""
    from dask._task_spec import Task, _execute_subgraph
    if isinstance(n, Task) and n.func is _execute_subgraph:
        inner, outkey, ext = n.args[0], n.args[1], n.args[2]
        return [Sym("fused"), [[to_sexp(k), node_sexp(v)] for k, v in inner.items()], to_sexp(outkey),
                [to_sexp(d) for d in ext]]
    return node_sexp(n)


def _canon_fnode(x):
    if isinstance(x, list) and x and x[0] == "fused" and len(x) == 4:
        return _canon(["fused", sorted(_canon(e) for e in x[1]), x[2], sorted(_canon(d) for d in x[3])])
    return _canon(x)


def _canon_graph(entries):
    return sorted((_canon(k), _canon_fnode(v)) for k, v in entries)


def _ngraph(dsk):
    return [[to_sexp(k), node_sexp(v)] for k, v in dsk.items()]


def _fused_digest(name, reserve):
    """reference computation of the hash suffix `default_fused_keys_renamer` appends to an over-long name"""
    if reserve == 5:
        return f"{hash(name):x}"[:4]
    import hashlib
    return hashlib.md5(name.encode(errors="surrogatepass"), usedforsecurity=False).hexdigest()


def _spec_passes(ctx, dsk, keys, want, tag=""):
    """function-level diffs of cull / resolve_aliases / fuse_linear_task_spec / Task.fuse / substitute against the
    model, the proved checker on the real fusion output, and the statement's clauses on every real output"""
    from dask._task_spec import (Alias, DependenciesMapping, Task, TaskRef, cull, fuse_linear_task_spec,
                                 resolve_aliases)
    from dask.core import reverse_dict
    from dask.optimization import default_fused_keys_renamer
    gs = _ngraph(dsk)
    ks = [to_sexp(k) for k in keys]

    def check(op, out):
        missing = [k for k in keys if k not in out]
        if missing:
            ctx.fail(f"{op}: requested key missing from the returned graph", observed=repr(missing))
            return False
        got = _vals(out, keys)
        if got != want:
            ctx.fail(f"{op}: value of a requested key changed", observed=got, expected=want)
            return False
        return True
    # --- cull
    for kk in (list(keys), list(keys) + list(keys)[:1]):
        try:
            out = cull(dsk, kk)
        except Exception as e:
            ctx.fail(f"task-spec cull raised {type(e).__name__}: {e}")
            continue
        check("task-spec cull", out)
        m = ctx.lean(Sym("spec_cull"), gs, [to_sexp(k) for k in kk])
        if m[0] != "ok":
            ctx.disagree("task-spec cull: the model runs out of fuel / raises", m, "ok")
        else:
            ctx.eq("task-spec cull (model vs code)", _canon_graph(m[1]), _canon_graph(_ngraph(out)))
        if len(out) < len(dsk):
            ctx.branch("spec-cull-removes" + tag)
        if len(kk) == len(dsk):
            ctx.branch("spec-cull-shortcut-len(keys)==len(dsk)")
    # --- resolve_aliases
    deps = DependenciesMapping(dsk)
    dependents = reverse_dict(deps)
    try:
        out = resolve_aliases(dsk, set(keys), dependents)
    except Exception as e:
        ctx.fail(f"resolve_aliases raised {type(e).__name__}: {e}")
        out = None
    if out is not None:
        check("resolve_aliases", out)
        nd = [[to_sexp(k), len(v)] for k, v in dependents.items()]
        m = ctx.lean(Sym("spec_resolve"), gs, ks, nd)
        if m[0] != "ok":
            ctx.disagree("resolve_aliases: the model runs out of fuel", m, "ok")
        else:
            ctx.eq("resolve_aliases (model vs code)", _canon_graph(m[1]), _canon_graph(_ngraph(out)))
        # the hypothesis of resolveAliases_preserves_eval: len(dependents[k]) is the number of entries referring to k
        for k in list(dsk)[:3]:
            ctx.eq("countRefs = len(dependents[k])", ctx.lean(Sym("spec_count_refs"), gs, to_sexp(k)), len(dependents[k]))
        if len(out) < len(dsk):
            ctx.branch("resolve_aliases-collapses" + tag)
            if len(dsk) - len(out) > 1:
                ctx.branch("resolve_aliases-collapses>=2")
    # --- fuse_linear_task_spec
    try:
        out = fuse_linear_task_spec(dsk, keys)
    except Exception as e:
        ctx.fail(f"fuse_linear_task_spec raised {type(e).__name__}: {e}")
        out = None
    if out is not None:
        ok = check("fuse_linear_task_spec", out)
        if None in out:
            ctx.fail("fuse_linear_task_spec: the returned graph has the key None")
        impl = [[to_sexp(k), fnode_sexp(v)] for k, v in out.items()]
        chains = ctx.lean(Sym("spec_fuse_chains"), gs, ks)
        back = {_canon(to_sexp(k)): k for k in dsk}
        ren = []
        for c in chains:
            try:
                real = default_fused_keys_renamer([back[_canon(x)] for x in c])
            except Exception as e:
                ctx.fail(f"default_fused_keys_renamer raised {type(e).__name__}: {e}")
                real = None
            ren.append([c, Sym("norename") if real is None else to_sexp(real)])
        m = ctx.lean(Sym("spec_fuse_linear"), gs, ks, ren)
        ctx.eq("fuse_linear_task_spec (model vs code)", _canon_graph(m), _canon_graph(impl))
        okc = ctx.lean(Sym("spec_fuse_ok"), gs, ks, impl)
        ctx.eq("fuse_linear_task_spec: proved checker fuseSpecOK accepts the real output", okc, True)
        if ok and okc is True:
            # the model's evaluator of fused graphs agrees with the real execution
            for k, w in zip(keys, want):
                mv = ctx.lean(Sym("spec_eval_f"), impl, [], to_sexp(k))
                ctx.eq("value of a requested key: evalKeyF (model) vs dask.core.get", mv[1] if mv[0] == "ok" else mv, w)
        nf = sum(1 for n in out.values() if isinstance(n, Task) and n.has_subgraph())
        if nf:
            ctx.branch("spec-fuse-fuses" + tag)
            if nf > 1:
                ctx.branch("spec-fuse-chains>=2")
            if any(isinstance(n, Alias) and n.target not in dsk for n in out.values()):
                ctx.branch("spec-fuse-renamed")
    # --- Task.fuse on arbitrary connected groups: a key together with some of its dependencies
    for k, n in list(dsk.items())[:4]:
        ds = [d for d in deps[k] if d in dsk]
        if not ds:
            continue
        group = [dsk[d] for d in ds[:2]] + [n]
        try:
            fused = Task.fuse(*group)
            impl = ["ok", fnode_sexp(fused)]
        except ValueError:
            impl = ["raised"]
        except Exception as e:
            ctx.fail(f"Task.fuse raised {type(e).__name__}: {e}")
            continue
        m = ctx.lean(Sym("spec_task_fuse"), [[to_sexp(t.key), node_sexp(t)] for t in group])
        ctx.eq("Task.fuse (model vs code)", [m[0]] + [_canon_fnode(x) for x in m[1:]], [impl[0]] + [_canon_fnode(x) for x in impl[1:]])
        ctx.branch("Task.fuse-" + impl[0])
        if impl[0] == "ok":
            # the group is private iff nothing outside refers to the inner keys: then the proved checker must accept
            # `dsk` with the group replaced by the fused task, and the values must be unchanged
            gkeys = [t.key for t in group[:-1]]
            private = all(set(dependents[d]) <= {t.key for t in group} for d in gkeys) and not any(d in keys for d in gkeys)
            out2 = {kk: nn for kk, nn in dsk.items() if kk not in gkeys}
            out2[k] = fused
            okc = ctx.lean(Sym("spec_fuse_ok"), gs, ks, [[to_sexp(kk), fnode_sexp(vv)] for kk, vv in out2.items()])
            ctx.eq("Task.fuse: fuseSpecOK accepts exactly the private groups", okc, private)
            if private:
                check("Task.fuse", out2)
                ctx.branch("Task.fuse-private-group")
            else:
                ctx.branch("Task.fuse-group-not-private")
    # --- Task.fuse on groups without a single output: ValueError
    ks2 = list(dsk)
    for a, b in zip(ks2, ks2[1:2]):
        group = [dsk[a], dsk[b]]
        try:
            impl = ["ok", fnode_sexp(Task.fuse(*group))]
        except ValueError:
            impl = ["raised"]
        except Exception as e:
            ctx.fail(f"Task.fuse raised {type(e).__name__}: {e}")
            continue
        m = ctx.lean(Sym("spec_task_fuse"), [[to_sexp(t.key), node_sexp(t)] for t in group])
        ctx.eq("Task.fuse of two nodes (model vs code)", [m[0]] + [_canon_fnode(x) for x in m[1:]],
               [impl[0]] + [_canon_fnode(x) for x in impl[1:]])
        ctx.branch("Task.fuse-pair-" + impl[0])
    # --- substitute: random substitutions on the dependencies of every node
    for i, (k, n) in enumerate(dsk.items()):
        dl = sorted(deps[k], key=repr)
        if not dl:
            continue
        subs, sig = {}, []
        for j, d in enumerate(dl):
            mode = (i + j + len(dsk)) % 4
            if mode == 0:
                continue
            if mode == 1 or d not in dsk:
                subs[d] = ("fresh", j)
                sig.append([to_sexp(d), [Sym("key"), to_sexp(("fresh", j))]])
            elif mode == 2:
                subs[d] = dsk[d]
                sig.append([to_sexp(d), [Sym("node"), node_sexp(dsk[d])]])
            else:
                subs[d] = d          # identity entry: dropped by subs_filtered
                sig.append([to_sexp(d), [Sym("key"), to_sexp(d)]])
        for newkey in (None, k, 0, "", ()):
            try:
                r = n.substitute(subs, key=newkey)
            except Exception as e:
                ctx.fail(f"substitute raised {type(e).__name__}: {e}")
                break
            m = ctx.lean(Sym("spec_subst"), sig, node_sexp(n))
            ctx.eq("GraphNode.substitute (model vs code)", _canon(m), _canon(node_sexp(r)))
            if newkey is not None and (r.key != newkey or type(r.key) is not type(newkey)):
                ctx.fail("substitute(subs, key=k): the returned node does not carry the requested key k",
                         observed=[repr(r.key)], expected=[repr(newkey)])
        if subs:
            ctx.branch("substitute-applied")
    # --- substitute at graph level: move a non-requested key to a new name and rename every reference to it
    used = sorted({d for k in dsk for d in deps[k] if d in dsk and d not in keys}, key=repr)
    if used:
        old = used[len(dsk) % len(used)]
        fresh = ("moved", 0)
        try:
            out = {k: n.substitute({old: fresh}, key=k) for k, n in dsk.items() if k != old}
            out[fresh] = dsk[old].substitute({}, key=fresh)
        except Exception as e:
            ctx.fail(f"substitute raised {type(e).__name__}: {e}")
        else:
            check("substitute(move a key and rename its references)", out)
            ctx.branch("substitute-move")


def case_specfn(ctx, inp):
    """converted legacy graphs through every task-spec pass, diffed against the model"""
    from dask._task_spec import convert_legacy_graph
    items = inp["graph"]
    legacy = {build(k): build(v) for k, v in items}
    if len(legacy) != len(items):
        return
    dsk = convert_legacy_graph(legacy)
    allkeys = [build(k) for k, _ in items]
    keys = [k for k in (allkeys[i] for i in inp["keys"]) if k in dsk]
    if not keys:
        return
    want = _vals(dsk, keys)
    if any(isinstance(w, list) and w and w[0] == "raised" for w in want):
        ctx.note("input-graph-raises")
        return
    try:
        _ngraph(dsk)
    except (TypeError, KeyError):
        ctx.note("unmodelled-node")
        return
    _spec_passes(ctx, dsk, keys, want)


def _mk_shape_graph(inp):
    """task-spec graph from a DAG description: node i is `Task(key_i, F, TaskRef(deps)..)`, an `Alias`, or a `DataNode`;
    keys are taken from `names` (strings, possibly very long, or [name, index] tuples)"""
    from dask._task_spec import Alias, DataNode, Task, TaskRef
    adj, kinds, names = inp["adj"], inp["kinds"], inp["names"]
    K = [tuple(x) if isinstance(x, list) else x for x in names]
    dsk = {}
    order = inp.get("order") or list(range(len(adj)))
    for i in order:
        deps = [K[j] for j in adj[i]]
        if kinds[i] == "alias" and len(deps) == 1:
            dsk[K[i]] = Alias(K[i], deps[0])
        elif kinds[i] == "data" and not deps:
            dsk[K[i]] = DataNode(K[i], 100 + i)
        else:
            dsk[K[i]] = Task(K[i], FUNCS[i % 6], *[TaskRef(d) for d in deps], i)
    return K, dsk


def case_shape(ctx, inp):
    """task-spec graphs built from DAG shapes (chains, alias chains, diamonds; long and colliding key names)"""
    K, dsk = _mk_shape_graph(inp)
    if len(dsk) != len(K):
        return
    keys = [K[i] for i in inp["keys"]]
    want = _vals(dsk, keys)
    if any(isinstance(w, list) and w and w[0] == "raised" for w in want):
        ctx.note("input-graph-raises")
        return
    _spec_passes(ctx, dsk, keys, want, tag="-shape")
    if inp.get("long"):
        ctx.branch("shape-long-names")
    if inp.get("exhaustive"):
        ctx.branch("shape-exhaustive-n%d" % len(K))


def _md5(name):
    import hashlib
    return hashlib.md5(name.encode(errors="surrogatepass"), usedforsecurity=False).hexdigest()


def _model_fused_name(ctx, keys, max_len):
    """the model's name for a chain of string / (string, ...) keys: key_split is taken from the real code (it is
    modelled by group stores), everything else from Model/FusedName.lean; the digest is md5 of the FULL name"""
    from dask.utils import key_split
    first = keys[-1]
    last = first if isinstance(first, str) else first[0]
    names = [key_split(k) for k in reversed(keys[:-1])]
    m = Sym("none") if max_len is None else max_len
    concat, _ = ctx.lean(Sym("fused_name"), names, key_split(first), last, m, "")
    _, res = ctx.lean(Sym("fused_name"), names, key_split(first), last, m, _md5(concat))
    return concat, (res if isinstance(first, str) else (res,) + tuple(first[1:]))


def case_rename(ctx, inp):
    """default_fused_keys_renamer at function level: the model's name for each chain, and pairwise distinctness of the
    names of chains that differ (same operations over different data, over-long names included)"""
    from dask.optimization import default_fused_keys_renamer
    chains = [[tuple(k) if isinstance(k, list) else k for k in c] for c in inp["chains"]]
    for max_len in inp["limits"]:
        got = []
        for c in chains:
            try:
                real = default_fused_keys_renamer(c) if max_len == "default" else default_fused_keys_renamer(c, max_len)
            except Exception as e:
                ctx.fail(f"default_fused_keys_renamer raised {type(e).__name__}: {e}")
                return
            concat, model = _model_fused_name(ctx, c, 120 if max_len == "default" else max_len)
            ctx.eq("default_fused_keys_renamer (model vs code)", _canon(to_sexp(model)), _canon(to_sexp(real)))
            got.append((concat, c[-1][1:] if isinstance(c[-1], tuple) else (), real))
            name = real if isinstance(real, str) else real[0]
            lim = 120 if max_len == "default" else max_len
            if lim and lim >= 33 and len(name) > lim:
                ctx.fail("default_fused_keys_renamer: the name exceeds max_fused_key_length", observed=[len(name), lim])
            if len(concat) > (lim or 10 ** 9) - 5 > 0:
                ctx.branch("rename-cut")
        # chains with different full names (or different block indices) must get different keys: md5 of the full name
        for i in range(len(got)):
            for j in range(i + 1, len(got)):
                same_in = got[i][0] == got[j][0] and got[i][1] == got[j][1]
                if not same_in and got[i][2] == got[j][2]:
                    ctx.disagree("two chains with different concatenated names share one fused key (the model keeps them apart: "
                                 "renamer_collision_iff with an injective digest)", "distinct", [repr(got[i][2])])
                if not same_in and got[i][0][:60] == got[j][0][:60] and len(got[i][0]) > 115:
                    ctx.branch("rename-overlong-same-prefix-pair")


CASES = {"opt": case_opt, "fn": case_fn, "spec": case_spec, "specfn": case_specfn, "shape": case_shape,
         "rename": case_rename, "inl": case_inl, "renlit": case_renlit}



_OPS_SHORT = ["add", "inc", "getitem", "sum", "mul", "rechunk"]
_OPS_LONG = ["rechunkmergefinalizeaggregatepartitionblock", "transposeconcatenateaxisblockwiselonglongname",
             "elementwisebroadcastreductiontreecombinestep", "overlaptrimboundarymapblocksinternalhelper"]


def _gen_shape(rng):
    """DAG shapes for the task-spec passes: parallel chains with identical op names (short / over-long / tuple keys),
    alias chains, small random DAGs"""
    from props._graph_util import random_dag
    flavour = rng.choice(["chains", "chains", "chains-long", "chains-long", "aliaschain", "dag"])
    adj, kinds, names = [], [], []
    if flavour.startswith("chains"):
        long = flavour == "chains-long"
        m, L = rng.randint(1, 3), rng.randint(2, 4)
        ops = [rng.choice(_OPS_LONG if long else _OPS_SHORT) for _ in range(L)]
        tup = rng.random() < 0.4
        shared = rng.random() < 0.3
        if shared:
            adj.append([]); kinds.append(rng.choice(["data", "task"])); names.append("root-00aa11bb")
        tops = []
        for c in range(m):
            tok = "%08x" % rng.getrandbits(32)
            same_tok = tup and rng.random() < 0.5
            for j in range(L):
                deps = [len(adj) - 1] if j else ([0] if shared else [])
                adj.append(deps); kinds.append("task")
                nm = f"{ops[j]}-{'0f0f0f0f' if same_tok else tok}{j}"
                names.append([nm, c] if tup else nm)
            tops.append(len(adj) - 1)
        join = rng.random() < 0.6
        if join:
            adj.append(list(tops)); kinds.append("task"); names.append("join-99ff00aa")
            keys = [len(adj) - 1]
        else:
            keys = sorted(rng.sample(tops, rng.randint(1, len(tops))))
        if rng.random() < 0.2:
            keys = sorted(set(keys) | {rng.randrange(len(adj))})
        out = {"adj": adj, "kinds": kinds, "names": names, "keys": keys, "long": long}
    elif flavour == "aliaschain":
        n = rng.randint(1, 4)
        adj.append([]); kinds.append(rng.choice(["data", "task"])); names.append(rng.choice(["", "src", 0, ["x", 0]]))
        for i in range(n):
            adj.append([len(adj) - 1]); kinds.append("alias"); names.append(f"al{i}")
        ncons = rng.randint(0, 2)
        last = len(adj) - 1
        for i in range(ncons):
            adj.append([last] if rng.random() < 0.7 else [last, rng.randrange(last + 1)])
            kinds.append("task"); names.append(f"cons{i}")
        keys = sorted(rng.sample(range(len(adj)), rng.randint(1, min(2, len(adj)))))
        if rng.random() < 0.5:
            keys = [len(adj) - 1]
        out = {"adj": adj, "kinds": kinds, "names": names, "keys": keys}
    else:
        n = rng.randint(2, 7)
        adj = random_dag(rng, n, rng.choice([0.3, 0.5]))
        kinds = []
        for i in range(n):
            kinds.append("alias" if len(adj[i]) == 1 and rng.random() < 0.4 else ("data" if not adj[i] and rng.random() < 0.4 else "task"))
        names = [rng.choice([f"n{i}", f"op{i % 2}-{i}", ["t", i]]) for i in range(n)]
        if rng.random() < 0.3:
            names[0] = rng.choice([0, "", []])
        keys = sorted(rng.sample(range(n), rng.randint(1, n)))
        out = {"adj": adj, "kinds": kinds, "names": names, "keys": keys}
    order = list(range(len(out["adj"])))
    if rng.random() < 0.6:
        rng.shuffle(order)
    out["order"] = order
    return out


def _rand_keys(rng, n):
    return sorted(rng.sample(range(n), rng.randint(1, n)))


def generate(ctx):
    rng = ctx.rng
    # witnesses of the known divergences
    yield "opt", {"graph": [["a", 1], ["b", {"t": [{"fn": 0}, {"t": [1, "a"]}]}]], "keys": [1], "sel": [0]}
    yield "opt", {"graph": [["a", {"t": [{"fn": 1}, 1]}], ["b", {"t": [{"fn": 0}, "a", {"d": [["x", "a"]]}]}]], "keys": [1], "sel": [0]}
    for flavour, nq in (((), 120), (("dictref",), 25), (("tupleref",), 25)):
        for _ in range(ctx.n(nq)):
            n = rng.randint(1, 7)
            g = gen_legacy_graph(rng, n, flavour, depth=2)
            inp = {"graph": g, "keys": _rand_keys(rng, n), "sel": rng.sample(range(n), rng.randint(0, n))}
            if ctx.thorough() and rng.random() < 0.3:
                inp["grid"] = [[aw, mw, mh, md] for aw in (1, 2, 3, "inf") for mw in (None, 1, 2, 3)
                               for mh in ("inf", 1, 2, 5) for md in (None, 0, 1, 3) if rng.random() < 0.15]
            yield "opt", inp
    # extension round: legacy inline / inline_functions against their Lean transliterations (function level)
    yield from gen_inl(ctx, rng, ctx.n(150))
    # finding of the extension round: a fused chain renamed to a name that occurs as a literal in a task (16 witnesses)
    yield from gen_renlit(ctx, rng)
    for _ in range(ctx.n(300)):
        n = rng.randint(1, 6)
        g = gen_legacy_graph(rng, n, rng.choice([(), ("dictref",), ("tupleref",), ("dictref", "tupleref")]), depth=3)
        subs = []
        for _s in range(3):
            t = rng.choice(g)[1]
            k = rng.choice(g)[0]
            v = rng.choice([rng.choice(g)[1], 1, "zz", {"t": [{"fn": 2}, 9]}])
            subs.append([t, k, v])
        yield "fn", {"graph": g, "subs": subs}
    for _ in range(ctx.n(300)):
        n = rng.randint(1, 8)
        g = gen_legacy_graph(rng, n, (), depth=2)
        yield "spec", {"graph": g, "keys": _rand_keys(rng, n), "pick": rng.randrange(50)}
    for _ in range(ctx.n(150)):
        n = rng.randint(1, 8)
        g = gen_legacy_graph(rng, n, (), depth=2)
        yield "specfn", {"graph": g, "keys": _rand_keys(rng, n)}
    for _ in range(ctx.n(250)):
        yield "shape", _gen_shape(rng)
    # exhaustive small spaces: every DAG shape x every admissible node-kind assignment (alias: exactly one dependency,
    # data: none) x every non-empty set of requested keys -- n <= 2 always, n = 3 fully and n = 4 sampled when thorough
    import itertools
    from props._graph_util import all_dags, nonempty_subsets
    for n in range(1, 5 if ctx.thorough() else 3):
        for adj in all_dags(n):
            choices = [["task"] + (["alias"] if len(adj[i]) == 1 else []) + (["data"] if not adj[i] else []) for i in range(n)]
            for kinds in itertools.product(*choices):
                for ks in nonempty_subsets(n):
                    if n == 4 and rng.random() > 0.25:
                        continue
                    yield "shape", {"adj": adj, "kinds": list(kinds), "names": [f"n{i}" if i else "" for i in range(n)],
                                    "keys": list(ks), "exhaustive": True}
                    if "alias" not in kinds and (n < 4 or rng.random() < 0.1):
                        # the same shape as a legacy graph through the legacy passes
                        g = [[f"n{i}" if i else "", ({"t": [{"fn": i % 6}] + [(f"n{j}" if j else "") for j in adj[i]] + [50 + i]}
                                                      if kinds[i] == "task" else 60 + i)] for i in range(n)]
                        yield "opt", {"graph": g, "keys": list(ks), "sel": [i for i in range(n) if i not in ks],
                                      "grid": [[1, None, "inf", None], ["inf", None, "inf", None], [2, 2, 2, 1]]}
    for _ in range(ctx.n(60)):
        L = rng.randint(2, 4)
        long = rng.random() < 0.6
        ops = [rng.choice(_OPS_LONG if long else _OPS_SHORT) + rng.choice(["", "-part", "_x"]) for _ in range(L)]
        tup = rng.random() < 0.4
        chains = []
        for c in range(rng.randint(2, 4)):
            tok = "%032x" % rng.getrandbits(128) if rng.random() < 0.5 else "%08x" % rng.getrandbits(32)
            ch = [f"{ops[j]}-{tok}" for j in range(L)]
            chains.append([[k, c % 2, 0] for k in ch] if tup else ch)
        yield "rename", {"chains": chains, "limits": ["default", None, 0, rng.choice([40, 64, 120, 200]), rng.choice([33, 34, 38])]}
